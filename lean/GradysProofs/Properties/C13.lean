import GradysProofs.Lemmas.NonInterfRun
import GradysProofs.Lemmas.NonInterfDur
/-
  C13 — unique identities; nodes affect each other only through messages.

  Method: unwinding.  `ViewEq x w₁ w₂` (Lemmas/NonInterf.lean) is the view of the nodes other than
  `x`: the queue without `x`'s events and without sequence numbers, the pending timers / timer
  counters / range / position / target / speed / protocol state of every `n ≠ x`, the draw index, and
  the trace restricted to callbacks and requests of nodes `≠ x`.
   * U1a/U1 (`C13_silent_callback_invisible`, `C13_owned_event_invisible`): what a silent `x` does is
     invisible;
   * U2 (`C13_step_consistency`): an event not owned by `x` acts congruently on equal views;
   * `C13_view_function_of_visible_count`: along two runs that differ only in `x`'s (silent) program,
     the view is a function of the number of executed events not owned by `x`;
   * `C13_noninterference_partial`: the projected traces are prefix-comparable, and equal (with the
     positions of the others) at equal visible counts.

  Guards, explicit: timer identifiers are per node in the model (`World.nextTimer : NodeId → Nat`;
  the code's single counter is an injective, never observable renaming); the clock `loop.now` is
  GLOBAL and is NOT in the view, nor are `iter`, `nextSeq`, `raccepted`, `rexecuted`; `x` uses no
  shared random generator and no camera.

  The FULL literal statement is false in the model exactly as in the code (finding F13) and is
  kept here, unproved:

    theorem C13_noninterference (cfg : Config S) (P₁ P₂ : NodeId → Proto S σ) (x : NodeId)
        (hs₁ : Silent x P₁) (hs₂ : Silent x P₂) (hP : ∀ n, n ≠ x → P₁ n = P₂ n) (fuel : Nat) :
        ptrace x (start cfg P₁ fuel (init cfg P₁)) = ptrace x (start cfg P₂ fuel (init cfg P₂)) ∧
        ∀ n, n ≠ x → (start cfg P₁ fuel (init cfg P₁)).pos n = (start cfg P₂ fuel (init cfg P₂)).pos n

  Two channels other than messages refute it (`C13_shared_bounds_witness` below):
   1. the `afterStep` / `max_iterations` budget: `iter` counts the events of ALL nodes, so extra
      events of `x` use up the budget of the others;
   2. the clock value read inside `finish`: `_finalize_simulation` runs when the queue is exhausted or
      the bound is hit, and `current_time()` is then the time of the last event of ANY node.
  What is proved instead:
   * `_partial`: runs without bounds (`evSteps`; `C13_evSteps_is_steps` ties them to
     `step_simulation`) up to but excluding finalisation;
   * `C13_noninterference_duration`: COMPLETED runs of `step_simulation` / `start_simulation` under a
     `duration` bound and no iteration limit, finalisation included. A completed run is the
     finalisation of the first event-level world that `is_simulation_done` (`C13_completed_run`); at
     that point both runs have executed the same number of events not owned by `x`
     (`C13_view_before_finalisation`), so everything the others observe before the first `finish`
     callback is equal, the `finish` callbacks are those of every `n ≠ x` in node order, positions
     agree; and when the `finish` reactions of the others are clock free (`FinishClockFree`: they
     ignore the time argument and issue no `schedule_timer`) the complete projected traces agree up to
     the time reported to `finish` (channel 2, `Obs.eraseFinishTime`). `C13_finish_setTimer_witness`
     shows that `schedule_timer` inside `finish` is a second way of reading that clock.
-/
set_option linter.unusedSectionVars false

namespace C13
open Sim
variable {S σ : Type} [Scalar S]

/-! ### identities -/

/-- the node set is `0, 1, …, nNodes-1`, pairwise distinct, the i-th added node has id `i`; a
    callback for node `n` runs program instance `P n` on `n`'s own local state with id argument `n`,
    and writes the local state of `n` only -/
theorem C13_ids (cfg : Config S) (P : NodeId → Proto S σ) :
    (List.range cfg.nNodes).Nodup ∧
    (∀ i, i < cfg.nNodes → (List.range cfg.nNodes)[i]? = some i) ∧
    (∀ n cb (w : World S σ), callback cfg P n cb w =
      { (runProg cfg n ((P n).react (w.pstate n) n (reportedTime cfg w) cb)
          (log (.callback n cb (reportedTime cfg w)) w)).1 with
        pstate := upd (runProg cfg n ((P n).react (w.pstate n) n (reportedTime cfg w) cb)
          (log (.callback n cb (reportedTime cfg w)) w)).1.pstate n
          (runProg cfg n ((P n).react (w.pstate n) n (reportedTime cfg w) cb)
          (log (.callback n cb (reportedTime cfg w)) w)).2 }) ∧
    (∀ n m cb (w : World S σ), m ≠ n → (callback cfg P n cb w).pstate m = w.pstate m) := by
  refine ⟨List.nodup_range, ?_, fun n cb w => callback_eq cfg P n cb w,
    fun n m cb w hm => callback_pstate_other cfg P n cb w hm⟩
  intro i hi
  simp [hi]

/-! ### frames, U1a, U1, U2 -/

/-- frame lemmas in one statement: a node-scoped request (`setTimer`, `cancelTimer`, `goto`,
    `gotoGeo`, `setSpeed`, `setRange`) by `x` changes only components owned by `x`. The individual
    lemmas are `Sim.frame_setTimer`, `Sim.frame_cancelTimer`, `Sim.frame_goto`, `Sim.frame_gotoGeo`,
    `Sim.frame_setSpeed`, `Sim.frame_setRange`. -/
theorem C13_frames (cfg : Config S) (x : NodeId) (r : Request S) (hr : r.isMsg = false)
    (w : World S σ) : ViewEq x w (execReq cfg x r w).1 := (hid_execReq cfg x r hr w).view

theorem C13_silent_program_invisible (cfg : Config S) (x : NodeId) (p : Prog S σ) (hp : p.silent)
    (w : World S σ) : ViewEq x w (runProg cfg x p w).1 := (hid_runProg cfg x p hp w).view

/-- U1a -/
theorem C13_silent_callback_invisible (cfg : Config S) (P : NodeId → Proto S σ) (x : NodeId)
    (hs : Silent x P) (cb : Callback S) (w : World S σ) : ViewEq x w (callback cfg P x cb w) :=
  (hid_callback cfg P x hs cb w).view

/-- U1: popping and executing an event owned by the silent node `x` is invisible to the others -/
theorem C13_owned_event_invisible (cfg : Config S) (P : NodeId → Proto S σ) (x : NodeId)
    (hs : Silent x P) (e : Ev (EvKind S)) (rest : List (Ev (EvKind S))) (w : World S σ)
    (hq : w.loop.queue = e :: rest) (he : e.kind.owner = some x) :
    ViewEq x w (execEv cfg P e (popped e rest w)) :=
  U1 cfg P x hs e rest w hq (by simp [xowned, he])

/-- U2 (step consistency): an event NOT owned by `x`, executed at the same clock in two worlds with
    equal views by programs that agree off `x`, leaves the views equal -/
theorem C13_step_consistency (cfg : Config S) (P₁ P₂ : NodeId → Proto S σ) (x : NodeId)
    (hP : ∀ n, n ≠ x → P₁ n = P₂ n) (e : Ev (EvKind S)) (he : e.kind.owner ≠ some x)
    (w₁ w₂ : World S σ) (hv : ViewEq x w₁ w₂) (hnow : w₁.loop.now = w₂.loop.now)
    (hs₁ : w₁.loop.queue.Pairwise (fun a b => a.ts ≤ b.ts))
    (hs₂ : w₂.loop.queue.Pairwise (fun a b => a.ts ≤ b.ts)) :
    ViewEq x (execEv cfg P₁ e w₁) (execEv cfg P₂ e w₂) :=
  U2 cfg P₁ P₂ x hP e (by simpa [xowned] using he) w₁ w₂ hv hnow hs₁ hs₂

/-! ### runs -/

/-- MAIN THEOREM: two runs from freshly built and initialised simulations with the same
    configuration, whose programs agree off the silent node `x`; after any numbers `k₁`, `k₂` of
    executed events, if the numbers of executed events NOT owned by `x` coincide then so do the views
    of the nodes other than `x` -/
theorem C13_view_function_of_visible_count (cfg : Config S) (hdt : 0 ≤ cfg.dt)
    (P₁ P₂ : NodeId → Proto S σ) (x : NodeId) (hs₁ : Silent x P₁) (hs₂ : Silent x P₂)
    (hP : ∀ n, n ≠ x → P₁ n = P₂ n) (k₁ k₂ : Nat)
    (hc : visCount x (evSteps cfg P₁ k₁ (start0 cfg P₁)) = visCount x (evSteps cfg P₂ k₂ (start0 cfg P₂))) :
    ViewEq x (evSteps cfg P₁ k₁ (start0 cfg P₁)) (evSteps cfg P₂ k₂ (start0 cfg P₂)) :=
  view_of_visCount cfg hdt P₁ P₂ x hs₁ hs₂ hP (k₁ + k₂) k₁ k₂ (Nat.le_refl _) hc

/-- the event-level runs are the runs of `step_simulation` when neither `duration` nor
    `max_iterations` is set, up to the call at which the queue runs empty -/
theorem C13_evSteps_is_steps (cfg : Config S) (hdt : 0 ≤ cfg.dt) (hd : cfg.duration = none)
    (hm : cfg.maxIter = none) (P : NodeId → Proto S σ) (k : Nat)
    (hq : ∀ j, j ≤ k + 1 → (evSteps cfg P j (start0 cfg P)).loop.queue ≠ []) :
    steps cfg P (k + 1) (init cfg P) = evSteps cfg P (k + 1) (start0 cfg P) :=
  steps_eq_evSteps cfg hdt hd hm P k hq

/-- NON-INTERFERENCE (partial: no iteration budget, clock read in `finish` excluded). For all
    numbers of executed events the traces projected on the nodes other than `x` (their callbacks with
    payloads and reported times, their requests with outcomes) are prefix-comparable; at equal
    visible counts they are equal, and so are the positions of all nodes other than `x`. -/
theorem C13_noninterference_partial (cfg : Config S) (hdt : 0 ≤ cfg.dt)
    (P₁ P₂ : NodeId → Proto S σ) (x : NodeId) (hs₁ : Silent x P₁) (hs₂ : Silent x P₂)
    (hP : ∀ n, n ≠ x → P₁ n = P₂ n) (k₁ k₂ : Nat) :
    (ptrace x (evSteps cfg P₁ k₁ (start0 cfg P₁)) <+: ptrace x (evSteps cfg P₂ k₂ (start0 cfg P₂)) ∨
     ptrace x (evSteps cfg P₂ k₂ (start0 cfg P₂)) <+: ptrace x (evSteps cfg P₁ k₁ (start0 cfg P₁))) ∧
    (visCount x (evSteps cfg P₁ k₁ (start0 cfg P₁)) = visCount x (evSteps cfg P₂ k₂ (start0 cfg P₂)) →
      ptrace x (evSteps cfg P₁ k₁ (start0 cfg P₁)) = ptrace x (evSteps cfg P₂ k₂ (start0 cfg P₂)) ∧
      ∀ n, n ≠ x → (evSteps cfg P₁ k₁ (start0 cfg P₁)).pos n = (evSteps cfg P₂ k₂ (start0 cfg P₂)).pos n) := by
  constructor
  · rcases Nat.le_total (visCount x (evSteps cfg P₁ k₁ (start0 cfg P₁)))
      (visCount x (evSteps cfg P₂ k₂ (start0 cfg P₂))) with hle | hle
    · obtain ⟨k', hk', hc⟩ := visCount_reached cfg hdt P₂ x hs₂ k₂ _ hle
      have hv := C13_view_function_of_visible_count cfg hdt P₁ P₂ x hs₁ hs₂ hP k₁ k' hc.symm
      left
      rw [hv.ptrace_eq]
      exact ptrace_mono cfg hdt P₂ x _ hk'
    · obtain ⟨k', hk', hc⟩ := visCount_reached cfg hdt P₁ x hs₁ k₁ _ hle
      have hv := C13_view_function_of_visible_count cfg hdt P₁ P₂ x hs₁ hs₂ hP k' k₂ hc
      right
      rw [← hv.ptrace_eq]
      exact ptrace_mono cfg hdt P₁ x _ hk'
  · intro hc
    have hv := C13_view_function_of_visible_count cfg hdt P₁ P₂ x hs₁ hs₂ hP k₁ k₂ hc
    exact ⟨hv.ptrace_eq, hv.pos⟩

/-- node `x` replaced by the program that does nothing -/
def mute (P : NodeId → Proto S σ) (x : NodeId) : NodeId → Proto S σ :=
  fun n => if n = x then { init := (P x).init, react := fun s _ _ _ => .done s } else P n

theorem mute_silent (P : NodeId → Proto S σ) (x : NodeId) : Silent x (mute P x) := by
  intro s t cb
  simp [mute, Prog.silent]

theorem mute_agree (P : NodeId → Proto S σ) (x : NodeId) : ∀ n, n ≠ x → P n = mute P x n := by
  intro n hn
  simp [mute, hn]

/-- in particular: whatever node-scoped requests the silent node `x` issues from whatever
    callbacks, the others observe what they observe when `x` does nothing at all -/
theorem C13_noninterference_partial_vs_idle (cfg : Config S) (hdt : 0 ≤ cfg.dt)
    (P : NodeId → Proto S σ) (x : NodeId) (hs : Silent x P) (k₁ k₂ : Nat) :
    (ptrace x (evSteps cfg P k₁ (start0 cfg P)) <+:
        ptrace x (evSteps cfg (mute P x) k₂ (start0 cfg (mute P x))) ∨
     ptrace x (evSteps cfg (mute P x) k₂ (start0 cfg (mute P x))) <+:
        ptrace x (evSteps cfg P k₁ (start0 cfg P))) ∧
    (visCount x (evSteps cfg P k₁ (start0 cfg P)) =
        visCount x (evSteps cfg (mute P x) k₂ (start0 cfg (mute P x))) →
      ptrace x (evSteps cfg P k₁ (start0 cfg P)) =
        ptrace x (evSteps cfg (mute P x) k₂ (start0 cfg (mute P x))) ∧
      ∀ n, n ≠ x → (evSteps cfg P k₁ (start0 cfg P)).pos n =
        (evSteps cfg (mute P x) k₂ (start0 cfg (mute P x))).pos n) :=
  C13_noninterference_partial cfg hdt P (mute P x) x hs (mute_silent P x) (mute_agree P x) k₁ k₂

/-! ### completed runs under a duration bound (what `start_simulation` does)

  `cfg.maxIter = none` throughout: the iteration budget is the first excluded channel of F13.
  `cfg.duration` is arbitrary (`some D`, or `none`: the run then ends when the queue is exhausted). -/

/-- generalisation of `C13_evSteps_is_steps` to ANY bounds: as long as `is_simulation_done` has not
    held (`Live`: none of the event-level worlds `0 … k+1` is done), `k+1` calls of `step_simulation`
    on a freshly built simulation are initialisation followed by `k+1` event-level steps -/
theorem C13_steps_is_evSteps_until_done (cfg : Config S) (hdt : 0 ≤ cfg.dt) (P : NodeId → Proto S σ)
    (k : Nat) (hl : ∀ j, j < k + 2 → isDone cfg (evSteps cfg P j (start0 cfg P)) = false) :
    steps cfg P (k + 1) (init cfg P) = evSteps cfg P (k + 1) (start0 cfg P) :=
  steps_eq_evSteps_live cfg hdt P k hl

/-- a COMPLETED run is the finalisation of the event-level run after exactly `k` events, `k` being
    the first count at which `is_simulation_done` holds (any bounds) -/
theorem C13_completed_run (cfg : Config S) (hdt : 0 ≤ cfg.dt) (P : NodeId → Proto S σ) (n : Nat)
    (hfin : (steps cfg P n (init cfg P)).finalized = true) :
    ∃ k, (∀ j, j < k → isDone cfg (evSteps cfg P j (start0 cfg P)) = false) ∧
      isDone cfg (evSteps cfg P k (start0 cfg P)) = true ∧
      steps cfg P n (init cfg P) = finalise cfg P (evSteps cfg P k (start0 cfg P)) :=
  completed_run cfg hdt P n hfin

/-- without an iteration limit, two runs that differ only in the silent node `x` have executed THE
    SAME NUMBER OF EVENTS NOT OWNED BY `x` when they complete, and their worlds just before
    finalisation look the same to the others (clocks apart) -/
theorem C13_view_before_finalisation (cfg : Config S) (hm : cfg.maxIter = none) (hdt : 0 ≤ cfg.dt)
    (P₁ P₂ : NodeId → Proto S σ) (x : NodeId) (hs₁ : Silent x P₁) (hs₂ : Silent x P₂)
    (hP : ∀ n, n ≠ x → P₁ n = P₂ n) (k₁ k₂ : Nat)
    (hl₁ : ∀ j, j < k₁ → isDone cfg (evSteps cfg P₁ j (start0 cfg P₁)) = false)
    (hd₁ : isDone cfg (evSteps cfg P₁ k₁ (start0 cfg P₁)) = true)
    (hl₂ : ∀ j, j < k₂ → isDone cfg (evSteps cfg P₂ j (start0 cfg P₂)) = false)
    (hd₂ : isDone cfg (evSteps cfg P₂ k₂ (start0 cfg P₂)) = true) :
    visCount x (evSteps cfg P₁ k₁ (start0 cfg P₁)) = visCount x (evSteps cfg P₂ k₂ (start0 cfg P₂)) ∧
    ViewEq x (evSteps cfg P₁ k₁ (start0 cfg P₁)) (evSteps cfg P₂ k₂ (start0 cfg P₂)) :=
  ⟨visCount_eq_of_done cfg hdt hm P₁ P₂ x hs₁ hs₂ hP k₁ k₂ hl₁ hd₁ hl₂ hd₂,
   viewEq_before_finalise cfg hdt hm P₁ P₂ x hs₁ hs₂ hP k₁ k₂ hl₁ hd₁ hl₂ hd₂⟩

/-- the structure of the two complete projected traces: a COMMON part `A` without any `finish`
    callback (everything up to finalisation: callbacks with payloads and reported times, requests with
    outcomes), followed in each run by the `finish` blocks of the nodes other than `x` in node order
    (`FinBlocks`: for each `n ≠ x`, its `finish` callback at some time, then requests of `n` only) -/
theorem C13_noninterference_duration_blocks (cfg : Config S) (hm : cfg.maxIter = none)
    (hdt : 0 ≤ cfg.dt) (P₁ P₂ : NodeId → Proto S σ) (x : NodeId) (hs₁ : Silent x P₁)
    (hs₂ : Silent x P₂) (hP : ∀ n, n ≠ x → P₁ n = P₂ n) (n₁ n₂ : Nat) (w₁ w₂ : World S σ)
    (hw₁ : w₁ = steps cfg P₁ n₁ (init cfg P₁)) (hw₂ : w₂ = steps cfg P₂ n₂ (init cfg P₂))
    (hf₁ : w₁.finalized = true) (hf₂ : w₂.finalized = true) :
    ∃ A F₁ F₂, ptrace x w₁ = A ++ F₁ ∧ ptrace x w₂ = A ++ F₂ ∧ (∀ o ∈ A, o.isFinish = false) ∧
      FinBlocks x (List.range cfg.nNodes) F₁ ∧ FinBlocks x (List.range cfg.nNodes) F₂ := by
  subst hw₁ hw₂
  obtain ⟨k₁, hl₁, hd₁, e₁⟩ := completed_run cfg hdt P₁ n₁ hf₁
  obtain ⟨k₂, hl₂, hd₂, e₂⟩ := completed_run cfg hdt P₂ n₂ hf₂
  have hv := viewEq_before_finalise cfg hdt hm P₁ P₂ x hs₁ hs₂ hP k₁ k₂ hl₁ hd₁ hl₂ hd₂
  obtain ⟨F₁, hF₁, hB₁⟩ := ptrace_finalise cfg P₁ x _ (evSteps_flags cfg hdt P₁ k₁).2
  obtain ⟨F₂, hF₂, hB₂⟩ := ptrace_finalise cfg P₂ x _ (evSteps_flags cfg hdt P₂ k₂).2
  refine ⟨ptrace x (evSteps cfg P₁ k₁ (start0 cfg P₁)), F₁, F₂, ?_, ?_, ?_, hB₁, hB₂⟩
  · rw [e₁, hF₁]
  · rw [e₂, hF₂, hv.ptrace_eq]
  · exact ptrace_noFinish (evSteps_noFinish cfg hdt P₁ k₁)

/-- NON-INTERFERENCE FOR COMPLETED RUNS UNDER A DURATION (no iteration limit): what
    `Simulator.start_simulation` does.  Two runs with the same configuration whose programs agree off
    the silent node `x`, both completed (`finalized`), after whatever numbers of `step_simulation`
    calls.  Then, for the nodes other than `x`:
     1. everything they observe BEFORE THE FIRST `finish` CALLBACK is the same in both runs:
        callbacks with payloads and reported times, requests with outcomes (`beforeFinish`);
     2. in both runs the `finish` callbacks are those of every node `n ≠ x`, once each, in node order;
     3. their positions agree;
     4. if moreover the `finish` reaction of every `n ≠ x` is clock free (`FinishClockFree`: it does
        not depend on the time it is given, and issues no `schedule_timer`, whose outcome tests the
        clock), the COMPLETE projected traces agree up to the time reported to `finish`
        (`Obs.eraseFinishTime`): same `finish` callbacks, same requests inside them, same outcomes.
    Formulation chosen: 1–3 are unconditional and exclude what happens inside `finish`; 4 states the
    literal "equal except for the `finish` time" under the weakest hypothesis on the programs that
    makes it TRUE: the clock read in `finish` is the second shared channel of F13
    (`C13_shared_bounds_witness`), and it is read through the time argument AND through
    `schedule_timer` (`C13_finish_setTimer_witness`). -/
theorem C13_noninterference_duration (cfg : Config S) (hm : cfg.maxIter = none) (hdt : 0 ≤ cfg.dt)
    (P₁ P₂ : NodeId → Proto S σ) (x : NodeId) (hs₁ : Silent x P₁) (hs₂ : Silent x P₂)
    (hP : ∀ n, n ≠ x → P₁ n = P₂ n) (n₁ n₂ : Nat) (w₁ w₂ : World S σ)
    (hw₁ : w₁ = steps cfg P₁ n₁ (init cfg P₁)) (hw₂ : w₂ = steps cfg P₂ n₂ (init cfg P₂))
    (hf₁ : w₁.finalized = true) (hf₂ : w₂.finalized = true) :
    beforeFinish (ptrace x w₁) = beforeFinish (ptrace x w₂) ∧
    finishNodes (ptrace x w₁) = (List.range cfg.nNodes).filter (fun n => n != x) ∧
    finishNodes (ptrace x w₂) = (List.range cfg.nNodes).filter (fun n => n != x) ∧
    (∀ n, n ≠ x → w₁.pos n = w₂.pos n) ∧
    ((∀ n, n ≠ x → FinishClockFree P₂ n) →
      (ptrace x w₁).map Obs.eraseFinishTime = (ptrace x w₂).map Obs.eraseFinishTime) := by
  obtain ⟨A, F₁, F₂, h₁, h₂, hA, hB₁, hB₂⟩ := C13_noninterference_duration_blocks cfg hm hdt P₁ P₂ x
    hs₁ hs₂ hP n₁ n₂ w₁ w₂ hw₁ hw₂ hf₁ hf₂
  subst hw₁ hw₂
  obtain ⟨k₁, hl₁, hd₁, e₁⟩ := completed_run cfg hdt P₁ n₁ hf₁
  obtain ⟨k₂, hl₂, hd₂, e₂⟩ := completed_run cfg hdt P₂ n₂ hf₂
  have hv := viewEq_before_finalise cfg hdt hm P₁ P₂ x hs₁ hs₂ hP k₁ k₂ hl₁ hd₁ hl₂ hd₂
  refine ⟨?_, ?_, ?_, ?_, ?_⟩
  · rw [h₁, h₂, beforeFinish_append hA hB₁, beforeFinish_append hA hB₂]
  · rw [h₁]; exact finishNodes_append hA hB₁
  · rw [h₂]; exact finishNodes_append hA hB₂
  · intro n hn
    rw [e₁, e₂, finalise_pos, finalise_pos]
    exact hv.pos n hn
  · intro hc
    rw [e₁, e₂]
    exact (finEq_finalise cfg P₁ P₂ hs₁ hs₂ hP hc (evSteps_flags cfg hdt P₁ k₁).2
      (evSteps_flags cfg hdt P₂ k₂).2 hv).ptrace_eq

/-- in particular against the idle `x`: a completed run under a duration shows the others what the
    completed run with `x` doing nothing shows them -/
theorem C13_noninterference_duration_vs_idle (cfg : Config S) (hm : cfg.maxIter = none)
    (hdt : 0 ≤ cfg.dt) (P : NodeId → Proto S σ) (x : NodeId) (hs : Silent x P) (n₁ n₂ : Nat)
    (hf₁ : (steps cfg P n₁ (init cfg P)).finalized = true)
    (hf₂ : (steps cfg (mute P x) n₂ (init cfg (mute P x))).finalized = true) :
    beforeFinish (ptrace x (steps cfg P n₁ (init cfg P))) =
      beforeFinish (ptrace x (steps cfg (mute P x) n₂ (init cfg (mute P x)))) ∧
    (∀ n, n ≠ x → (steps cfg P n₁ (init cfg P)).pos n =
      (steps cfg (mute P x) n₂ (init cfg (mute P x))).pos n) ∧
    ((∀ n, n ≠ x → FinishClockFree P n) →
      (ptrace x (steps cfg P n₁ (init cfg P))).map Obs.eraseFinishTime =
        (ptrace x (steps cfg (mute P x) n₂ (init cfg (mute P x)))).map Obs.eraseFinishTime) := by
  have h := C13_noninterference_duration cfg hm hdt P (mute P x) x hs (mute_silent P x)
    (mute_agree P x) n₁ n₂ _ _ rfl rfl hf₁ hf₂
  refine ⟨h.1, h.2.2.2.1, fun hc => h.2.2.2.2 ?_⟩
  intro n hn
  unfold FinishClockFree
  rw [← mute_agree P x n hn]
  exact hc n hn

/-! ### the witness for finding F13: the literal statement fails at the two shared bounds -/

namespace Witness

/-- a throw-away scalar: the witness has neither communication nor mobility -/
instance intScalar : Scalar Int where
  ofInt := id
  add := (· + ·)
  sub := (· - ·)
  mul := (· * ·)
  div := (· / ·)
  neg := (- ·)
  sq := fun a => a * a
  sqrt := id
  sin := id
  cos := id
  acos? := fun a => some a
  atan2 := fun a _ => a
  radians := id
  le := fun a b => decide (a ≤ b)
  lt := fun a b => decide (a < b)

/-- two nodes, timers only -/
def cfg (maxIter : Option Nat) (duration : Option Int) : Config Int :=
  { nNodes := 2, hasTimer := true, hasComm := false, hasMob := false, handlers := [],
    duration := duration, maxIter := maxIter, delay := 0, failRate := 0, defaultRange := 0, dt := 1,
    dtS := 1, defaultSpeed := 0, refGeo := ⟨0, 0, 0⟩, initPos := fun _ => ⟨0, 0, 0⟩,
    draws := fun _ => 0 }

/-- node 0 sets timers at 2 and 4 when initialised -/
def node0 : Proto Int Unit :=
  { init := (), react := fun s _ _ cb => match cb with
      | .initialize => Prog.ofList s [.setTimer "a" 2, .setTimer "b" 4]
      | _ => .done s }

def idle : Proto Int Unit := { init := (), react := fun s _ _ _ => .done s }

/-- silent node 1 additionally sets timers at 3 and 10 (one of them under a name node 0 uses) -/
def busy : Proto Int Unit :=
  { init := (), react := fun s _ _ cb => match cb with
      | .initialize => Prog.ofList s [.setTimer "a" 3, .setTimer "c" 10]
      | _ => .done s }

def PA : NodeId → Proto Int Unit := fun n => if n = 0 then node0 else idle
def PB : NodeId → Proto Int Unit := fun n => if n = 0 then node0 else if n = 1 then busy else idle

/-- the timer callbacks (name, reported time) node `n` received -/
def timerCbs (n : NodeId) (tr : List (Obs Int)) : List (String × Int) :=
  tr.filterMap (fun o => match o with
    | .callback m (.timer name) t => if m = n then some (name, t) else none
    | _ => none)

/-- the time(s) node `n` read inside `finish` -/
def finishTimes (n : NodeId) (tr : List (Obs Int)) : List Int :=
  tr.filterMap (fun o => match o with
    | .callback m .finish t => if m = n then some t else none
    | _ => none)

theorem silentA : Silent 1 PA := by
  intro s t cb
  simp [PA, idle, Prog.silent]

theorem silentB : Silent 1 PB := by
  intro s t cb
  cases cb <;> simp [PB, busy, Prog.ofList, Prog.silent, Request.isMsg]

theorem agree : ∀ n, n ≠ 1 → PA n = PB n := by
  intro n hn
  by_cases h0 : n = 0
  · simp [PA, PB, h0]
  · simp [PA, PB, h0, hn]

/-- node 0 as before; in `finish` it also schedules a timer for time 7, without looking at the time
    it is given -/
def node0f : Proto Int Unit :=
  { init := (), react := fun s _ _ cb => match cb with
      | .initialize => Prog.ofList s [.setTimer "a" 2, .setTimer "b" 4]
      | .finish => Prog.ofList s [.setTimer "z" 7]
      | _ => .done s }

def PAf : NodeId → Proto Int Unit := fun n => if n = 0 then node0f else idle
def PBf : NodeId → Proto Int Unit := fun n => if n = 0 then node0f else if n = 1 then busy else idle

/-- the `schedule_timer` requests (name, accepted?) node `n` issued -/
def timerReqs (n : NodeId) (tr : List (Obs Int)) : List (String × Bool) :=
  tr.filterMap (fun o => match o with
    | .request m (.setTimer name _) ok => if m = n then some (name, ok) else none
    | _ => none)

theorem silentAf : Silent 1 PAf := by
  intro s t cb
  simp [PAf, idle, Prog.silent]

theorem silentBf : Silent 1 PBf := by
  intro s t cb
  cases cb <;> simp [PBf, busy, Prog.ofList, Prog.silent, Request.isMsg]

theorem agreef : ∀ n, n ≠ 1 → PAf n = PBf n := by
  intro n hn
  by_cases h0 : n = 0
  · simp [PAf, PBf, h0]
  · simp [PAf, PBf, h0, hn]

theorem clockFreeB : ∀ n, n ≠ 1 → FinishClockFree PB n := by
  intro n hn s t t'
  by_cases h0 : n = 0
  · subst h0
    exact ⟨rfl, trivial⟩
  · simp [PB, h0, hn, idle, Prog.noSetTimer]

end Witness

open Witness in
/-- FINDING F13 on the model. Node 1 is silent in both scenarios and the scenarios agree off node 1
    (so the hypotheses of `C13_noninterference_partial` hold), yet
    (1) with `max_iterations = 2` node 0 loses its second timer callback when node 1 sets a timer
        (the shared iteration budget), and
    (2) with `duration = 20` and no iteration limit node 0 reads time 4 in `finish` when node 1 is
        idle and time 10 when node 1 has a later timer (the global clock read at finalisation),
    while in (2) node 0's timer callbacks are the same: the literal statement fails exactly at the two
    excluded channels. -/
theorem C13_shared_bounds_witness :
    Silent 1 PA ∧ Silent 1 PB ∧ (∀ n, n ≠ 1 → PA n = PB n) ∧
    timerCbs 0 (steps (cfg (some 2) none) PA 10 (init (cfg (some 2) none) PA)).trace
      = [("a", 2), ("b", 4)] ∧
    timerCbs 0 (steps (cfg (some 2) none) PB 10 (init (cfg (some 2) none) PB)).trace
      = [("a", 2)] ∧
    finishTimes 0 (steps (cfg none (some 20)) PA 10 (init (cfg none (some 20)) PA)).trace = [4] ∧
    finishTimes 0 (steps (cfg none (some 20)) PB 10 (init (cfg none (some 20)) PB)).trace = [10] ∧
    timerCbs 0 (steps (cfg none (some 20)) PA 10 (init (cfg none (some 20)) PA)).trace =
      timerCbs 0 (steps (cfg none (some 20)) PB 10 (init (cfg none (some 20)) PB)).trace := by
  refine ⟨silentA, silentB, agree, ?_, ?_, ?_, ?_, ?_⟩ <;> decide

open Witness in
/-- the clock is read in `finish` through `schedule_timer` too (why `FinishClockFree` excludes it).
    Node 0's `finish` ignores the time it is given and schedules a timer for time 7; node 1 is silent
    and the scenarios agree off node 1; with `duration = 20` the clock at finalisation is 4 when node 1
    is idle (request accepted) and 10 when node 1 has a timer at 10 (request refused: the protocol
    sees the exception). -/
theorem C13_finish_setTimer_witness :
    Silent 1 PAf ∧ Silent 1 PBf ∧ (∀ n, n ≠ 1 → PAf n = PBf n) ∧
    (∀ s t t', (PAf 0).react s 0 t .finish = (PAf 0).react s 0 t' .finish) ∧
    timerReqs 0 (steps (cfg none (some 20)) PAf 10 (init (cfg none (some 20)) PAf)).trace
      = [("a", true), ("b", true), ("z", true)] ∧
    timerReqs 0 (steps (cfg none (some 20)) PBf 10 (init (cfg none (some 20)) PBf)).trace
      = [("a", true), ("b", true), ("z", false)] := by
  refine ⟨silentAf, silentBf, agreef, fun _ _ _ => rfl, ?_, ?_⟩ <;> decide

/-- non-vacuity of the duration theorem on the F13 scenarios (`duration = 20`, node 1 idle vs node 1
    with timers at 3 and 10, ten `step_simulation` calls each: both runs are complete). Node 0's
    complete projected traces agree up to the time reported to `finish` (4 vs 10). -/
example :
    (ptrace 1 (steps (Witness.cfg none (some 20)) Witness.PA 10
      (init (Witness.cfg none (some 20)) Witness.PA))).map Obs.eraseFinishTime =
    (ptrace 1 (steps (Witness.cfg none (some 20)) Witness.PB 10
      (init (Witness.cfg none (some 20)) Witness.PB))).map Obs.eraseFinishTime :=
  (C13_noninterference_duration (Witness.cfg none (some 20)) rfl (by decide) Witness.PA Witness.PB 1
    Witness.silentA Witness.silentB Witness.agree 10 10 _ _ rfl rfl (by decide) (by decide)).2.2.2.2
    Witness.clockFreeB

/-- non-vacuity of the partial theorem on the witness scenarios: after initialisation and 2 resp. 3
    executed events both runs have executed node 0's two timers, and the projected traces agree -/
example :
    ptrace 1 (evSteps (Witness.cfg none none) Witness.PA 2 (start0 (Witness.cfg none none) Witness.PA)) =
    ptrace 1 (evSteps (Witness.cfg none none) Witness.PB 3 (start0 (Witness.cfg none none) Witness.PB)) :=
  ((C13_noninterference_partial (Witness.cfg none none) (by decide) Witness.PA Witness.PB 1
    Witness.silentA Witness.silentB Witness.agree 2 3).2 (by decide)).1

end C13
