import GradysProofs.Lemmas.SimLife
import GradysProofs.Lemmas.SimTrace
import GradysProofs.Lemmas.SimUnbounded
/-
  C04 — a run stops exactly at its bounds: duration, iteration limit, or exhaustion.
  `isDone` is the repaired rule (the NEXT event's time is compared with the duration).
  Together: a step executes the head event iff none of the three stopping conditions holds
  (`C04_isDone_iff`, `C04_runs_while_within_bounds`, `C04_stops_only_at_bounds`), so a run executes, in
  queue order, precisely the events with `ts ≤ D` and ordinal `< N` (`C04_every_executed_within_bounds`).
-/
set_option linter.unusedSectionVars false

namespace C04
open Sim
variable {S σ : Type} [Scalar S]

/-- the termination predicate, spelled out -/
theorem C04_isDone_iff (cfg : Config S) (w : World S σ) :
    isDone cfg w = true ↔
      w.loop.queue = [] ∨
      (∃ e rest D, w.loop.queue = e :: rest ∧ cfg.duration = some D ∧ D < e.ts) ∨
      (∃ N, cfg.maxIter = some N ∧ N ≤ w.iter) := by
  unfold isDone
  cases hq : w.loop.queue with
  | nil => simp
  | cons e rest =>
    cases hd : cfg.duration <;> cases hn : cfg.maxIter <;> simp

/-- bounds invariant of every reachable world -/
structure BInv (cfg : Config S) (w : World S σ) : Prop where
  dur : ∀ D, cfg.duration = some D → ∀ e ∈ w.rexecuted, e.ts ≤ D
  iter : ∀ N, cfg.maxIter = some N → w.rexecuted ≠ [] → w.iter ≤ N
  now : ∀ D, cfg.duration = some D → 0 ≤ D → w.loop.now ≤ D

theorem init_binv (cfg : Config S) (P : NodeId → Proto S σ) : BInv cfg (init cfg P) := by
  rw [init_eq]
  split <;> (constructor <;> simp [init0, sched, EL.push, EL.empty])

theorem binv_of_ext {cfg : Config S} {w w' : World S σ} (e : Ext cfg w w') (h : BInv cfg w) :
    BInv cfg w' := by
  constructor
  · intro D hD x hx; rw [e.exec_eq] at hx; exact h.dur D hD x hx
  · intro N hN hne; rw [e.exec_eq] at hne; rw [e.iter_eq]; exact h.iter N hN hne
  · intro D hD h0; rw [e.now_eq]; exact h.now D hD h0

theorem binv_congr {cfg : Config S} {w w' : World S σ} (h1 : w'.rexecuted = w.rexecuted)
    (h2 : w'.iter = w.iter) (h3 : w'.loop.now = w.loop.now) (h : BInv cfg w) : BInv cfg w' := by
  constructor
  · intro D hD x hx; rw [h1] at hx; exact h.dur D hD x hx
  · intro N hN hne; rw [h1] at hne; rw [h2]; exact h.iter N hN hne
  · intro D hD h0; rw [h3]; exact h.now D hD h0

theorem finalise_binv (cfg : Config S) (P : NodeId → Proto S σ) (w : World S σ) (h : BInv cfg w) :
    BInv cfg (finalise cfg P w) := by
  unfold finalise
  split
  · exact h
  · have e := (ext_callbackAll cfg P .finish (List.range cfg.nNodes) w).trans
      (ext_logAll cfg Obs.handlerFinal (by intro h n cb t e; cases e) cfg.handlers _)
    exact binv_congr (w := logAll Obs.handlerFinal cfg.handlers
      (callbackAll cfg P .finish (List.range cfg.nNodes) w)) rfl rfl rfl (binv_of_ext e h)

theorem prep_binv (cfg : Config S) (P : NodeId → Proto S σ) (w : World S σ) (h : BInv cfg w) :
    BInv cfg (prep cfg P w) := by
  unfold prep
  split
  · exact h
  · unfold initialise
    have e := (ext_logAll cfg Obs.handlerInit (by intro h n cb t e; cases e) cfg.handlers
      { w with initialized := true }).trans (ext_callbackAll cfg P .initialize (List.range cfg.nNodes) _)
    exact binv_of_ext e (binv_congr (w := w) rfl rfl rfl h)

theorem execStep_binv (cfg : Config S) (hdt : 0 ≤ cfg.dt) (P : NodeId → Proto S σ)
    (e : Ev (EvKind S)) (rest : List (Ev (EvKind S))) (w : World S σ) (h : BInv cfg w)
    (hq : w.loop.queue = e :: rest) (hnd : isDone cfg w = false) :
    BInv cfg (execStep cfg P e rest w) := by
  have hd : ∀ D, cfg.duration = some D → e.ts ≤ D := by
    intro D hD
    unfold isDone at hnd
    rw [hq, hD] at hnd
    simp at hnd
    exact hnd.1
  have hn : ∀ N, cfg.maxIter = some N → w.iter < N := by
    intro N hN
    unfold isDone at hnd
    rw [hq, hN] at hnd
    simp at hnd
    exact hnd.2
  rw [execStep_eq]
  simp only
  have e1 := (ext_execEv cfg hdt P e (popped e rest w)).trans
    (ext_logAll cfg (fun h => Obs.afterStep h (execEv cfg P e (popped e rest w)).iter e.ts)
      (by intro h n cb t e; cases e) cfg.handlers _)
  constructor
  · intro D hD x hx
    have hx : x ∈ (logAll (fun h => Obs.afterStep h (execEv cfg P e (popped e rest w)).iter e.ts)
      cfg.handlers (execEv cfg P e (popped e rest w))).rexecuted := hx
    rw [e1.exec_eq] at hx
    rcases List.mem_cons.mp hx with rfl | hx
    · exact hd D hD
    · exact h.dur D hD x hx
  · intro N hN _
    show (logAll _ _ _).iter + 1 ≤ N
    rw [e1.iter_eq]
    exact hn N hN
  · intro D hD _
    show (logAll _ _ _).loop.now ≤ D
    rw [e1.now_eq]
    exact hd D hD

theorem step_binv (cfg : Config S) (hdt : 0 ≤ cfg.dt) (P : NodeId → Proto S σ) (w : World S σ)
    (h : BInv cfg w) (hl : LInv cfg w) : BInv cfg (step cfg P w).1 := by
  cases hf : w.finalized with
  | true => unfold step; simp [hf]; exact h
  | false =>
    rw [step_eq cfg P w hf]
    have h1 := prep_binv cfg P w h
    have hl1 : (prep cfg P w).iter = (prep cfg P w).rexecuted.length := by
      unfold prep
      split
      · exact hl.iter_eq
      · rename_i hin
        exact (initialise_shape cfg P w hl (by simpa using hin)).1.iter_eq
    generalize prep cfg P w = w1 at h1 hl1
    split
    · exact finalise_binv cfg P w1 h1
    · rename_i hnd
      split
      · exact h1
      · rename_i e rest hq
        have hs := execStep_binv cfg hdt P e rest w1 h1 hq (by simpa using hnd)
        split
        · exact finalise_binv cfg P _ hs
        · exact hs

theorem stepRaised_binv (cfg : Config S) (hdt : 0 ≤ cfg.dt) (P : NodeId → Proto S σ) (w : World S σ)
    (h : BInv cfg w) : BInv cfg (stepRaised cfg P w) := by
  unfold stepRaised
  split
  · exact h
  · have h1 : BInv cfg (if w.initialized then w else initialise cfg P w) := by
      have := prep_binv cfg P w h
      unfold prep at this
      exact this
    generalize (if w.initialized then w else initialise cfg P w) = w1 at h1
    simp only
    split
    · exact finalise_binv cfg P w1 h1
    · rename_i hnd
      split
      · exact h1
      · rename_i e rest hq
        have hnd' : isDone cfg w1 = false := by simpa using hnd
        have hd : ∀ D, cfg.duration = some D → e.ts ≤ D := by
          intro D hD
          unfold isDone at hnd'
          rw [hq, hD] at hnd'
          simp at hnd'
          exact hnd'.1
        have hn : ∀ N, cfg.maxIter = some N → w1.iter < N := by
          intro N hN
          unfold isDone at hnd'
          rw [hq, hN] at hnd'
          simp at hnd'
          exact hnd'.2
        have e1 := ext_execEv cfg hdt P e (popped e rest w1)
        constructor
        · intro D hD x hx
          have hx : x ∈ (execEv cfg P e (popped e rest w1)).rexecuted := hx
          rw [e1.exec_eq] at hx
          rcases List.mem_cons.mp hx with rfl | hx
          · exact hd D hD
          · exact h1.dur D hD x hx
        · intro N hN _
          show (execEv cfg P e (popped e rest w1)).iter ≤ N
          rw [e1.iter_eq]
          exact Nat.le_of_lt (hn N hN)
        · intro D hD _
          show (execEv cfg P e (popped e rest w1)).loop.now ≤ D
          rw [e1.now_eq]
          exact hd D hD

/-- the bounds also hold when callbacks may let exceptions escape under a driver that keeps stepping: no event
    beyond the duration is ever executed, the clock never passes it, the iteration counter never passes the limit -/
theorem C04_bounds_tolerant {cfg : Config S} (hdt : 0 ≤ cfg.dt) {P : NodeId → Proto S σ} {w : World S σ}
    (h : ReachableT cfg P w) : BInv cfg w := by
  induction h with
  | init => exact init_binv cfg P
  | @step w0 hr ih =>
    cases hf : w0.finalized with
    | true => unfold step; simp [hf]; exact ih
    | false =>
      rw [step_eq cfg P w0 hf]
      have h1 := prep_binv cfg P w0 ih
      generalize prep cfg P w0 = w1 at h1
      split
      · exact finalise_binv cfg P w1 h1
      · rename_i hnd
        split
        · exact h1
        · rename_i e rest hq
          have hs := execStep_binv cfg hdt P e rest w1 h1 hq (by simpa using hnd)
          split
          · exact finalise_binv cfg P _ hs
          · exact hs
  | ext n p _ ih => exact binv_of_ext (ext_runProg cfg n p _) ih
  | raised _ ih => exact stepRaised_binv cfg hdt P _ ih

theorem reachable_binv {cfg : Config S} (hdt : 0 ≤ cfg.dt) {P : NodeId → Proto S σ} {w : World S σ}
    (h : Reachable cfg P w) : BInv cfg w := by
  exact h.rec_inv (init_binv cfg P) (fun w hr hw => step_binv cfg hdt P w hw (reachable_linv hdt hr))
    (fun w n p _ hw => binv_of_ext (ext_runProg cfg n p w) hw)

/-- every executed event has `ts ≤ duration`, and the number of executed events never exceeds
    `max_iterations` (so every executed ordinal is below it) — for every program -/
theorem C04_every_executed_within_bounds {cfg : Config S} (hdt : 0 ≤ cfg.dt)
    {P : NodeId → Proto S σ} {w : World S σ} (h : Reachable cfg P w) :
    (∀ D, cfg.duration = some D → ∀ e ∈ w.executed, e.ts ≤ D) ∧
    (∀ N, cfg.maxIter = some N → w.executed ≠ [] → w.executed.length ≤ N) := by
  have hb := reachable_binv hdt h
  have hl := reachable_linv hdt h
  constructor
  · intro D hD e he
    exact hb.dur D hD e (List.mem_reverse.mp he)
  · intro N hN hne
    have : w.rexecuted ≠ [] := by
      intro hc; apply hne; simp [World.executed, hc]
    have := hb.iter N hN this
    rw [hl.iter_eq] at this
    simpa [World.executed] using this

/-- no callback — `finish` included — ever observes a time later than the duration (guard `0 ≤ D`) -/
theorem C04_no_callback_after_duration {cfg : Config S} (hdt : 0 ≤ cfg.dt)
    {P : NodeId → Proto S σ} {w : World S σ} (h : Reachable cfg P w) (D : Int)
    (hD : cfg.duration = some D) (h0 : 0 ≤ D) : ∀ t ∈ cbTimes w.trace, t ≤ D := by
  intro t ht
  have ht' : t ∈ cbTimes w.rtrace := by
    unfold World.trace cbTimes at ht
    rw [List.filterMap_reverse] at ht
    exact List.mem_reverse.mp ht
  have h1 := (reachable_tinv hdt h).le_now t ht'
  have h2 := (reachable_binv hdt h).now D hD h0
  unfold reportedTime at h1
  split at h1 <;> omega

/-- a step on a live simulation whose next event is within both bounds executes exactly that
    event — in particular events due exactly AT the duration still run -/
theorem C04_runs_while_within_bounds (cfg : Config S) (hdt : 0 ≤ cfg.dt) (P : NodeId → Proto S σ)
    (w : World S σ) (hw : WInv w) (hf : w.finalized = false) (hi : w.initialized = true)
    (e : Ev (EvKind S)) (rest : List (Ev (EvKind S))) (hq : w.loop.queue = e :: rest)
    (hd : ∀ D, cfg.duration = some D → e.ts ≤ D) (hn : ∀ N, cfg.maxIter = some N → w.iter < N) :
    (step cfg P w).1.rexecuted = e :: w.rexecuted := by
  have hnd : isDone cfg w = false := by
    cases hx : isDone cfg w with
    | false => rfl
    | true =>
      rcases (C04_isDone_iff cfg w).mp hx with h | ⟨e', r', D, h1, h2, h3⟩ | ⟨N, h1, h2⟩
      · rw [hq] at h; cases h
      · rw [hq] at h1; injection h1 with h1 _; subst h1
        have := hd D h2; omega
      · have := hn N h1; omega
  rw [step_eq cfg P w hf]
  have hp : prep cfg P w = w := by unfold prep; simp [hi]
  rw [hp, if_neg (by simp [hnd])]
  simp only [hq]
  have hs := execStep_inv cfg hdt P hw hq
  split
  · rw [(finalise_inv cfg P _ hs.1).2.2]; exact hs.2.2
  · exact hs.2.2

/-- a step reports completion only at a bound: the world it finalises has an empty queue, or its
    next event is later than the duration, or the iteration limit is reached -/
theorem C04_stops_only_at_bounds (cfg : Config S) (P : NodeId → Proto S σ) (w : World S σ)
    (hf : w.finalized = false) (hr : (step cfg P w).2 = false) :
    ∃ w', isDone cfg w' = true ∧ (step cfg P w).1 = finalise cfg P w' := by
  rw [step_eq cfg P w hf] at hr ⊢
  generalize prep cfg P w = w1 at hr ⊢
  split
  · rename_i hd; exact ⟨w1, hd, rfl⟩
  · rename_i hd
    rw [if_neg hd] at hr
    split
    · rename_i hq
      rw [isDone_nil hq] at hd; exact absurd rfl hd
    · rename_i e rest hq
      rw [hq] at hr
      simp only at hr
      split
      · rename_i hd2; exact ⟨_, hd2, rfl⟩
      · rename_i hnd
        rw [if_neg hnd] at hr
        cases hr

/-- the events a bounded run executes are, in order, a PREFIX of the events the unbounded run of
    the same scenario and program executes (same number of `step_simulation` calls on both): bounds
    only ever cut a run short, they never reorder, skip or add events. With
    `C04_every_executed_within_bounds` (everything in the prefix is within the bounds),
    `C04_runs_while_within_bounds` (the prefix is extended whenever the next event is within them) and
    `C04_stops_only_at_bounds` this is "precisely the events with ts ≤ D and ordinal < N". -/
theorem C04_prefix_of_unbounded (cfg : Config S) (hdt : 0 ≤ cfg.dt) (P : NodeId → Proto S σ) (n : Nat) :
    (steps cfg P n (init cfg P)).executed <+:
      (steps (unbounded cfg) P n (init (unbounded cfg) P)).executed := by
  have h0 : Lock (init cfg P) (init (unbounded cfg) P) := by
    left
    refine ⟨?_, (init_unbounded cfg P).symm⟩
    rw [init_eq]; split <;> rfl
  rcases lock_steps cfg hdt P n _ _ h0 with ⟨_, he⟩ | ⟨_, l, hl⟩
  · rw [he]; exact List.prefix_refl _
  · unfold World.executed
    rw [hl, List.reverse_append]
    exact List.prefix_append _ _

/-- non-vacuity: with duration 10 an event at 10 does not stop the run, an event at 11 does -/
example (cfg : Config S) (hD : cfg.duration = some 10) (hN : cfg.maxIter = none) (w : World S σ)
    (k : EvKind S) (hq : w.loop.queue = [⟨10, 0, k⟩]) : isDone cfg w = false := by
  unfold isDone; rw [hq, hD, hN]; simp
example (cfg : Config S) (hD : cfg.duration = some 10) (w : World S σ)
    (k : EvKind S) (hq : w.loop.queue = [⟨11, 0, k⟩]) : isDone cfg w = true := by
  unfold isDone; rw [hq, hD]; simp

end C04
