import GradysProofs.Lemmas.CameraLemmas
import GradysProofs.Lemmas.RealScalarExtra
import Mathlib.Tactic.Linarith
import Mathlib.Tactic.Positivity
/-
  C19 — the camera reports exactly the other nodes inside its cone and never fails.

  Model: `GradysModel/Camera.lean` (`axis`, `judge`, `takePicture`), the repaired code (cosine
  clamped to [-1, 1] before `math.acos`).  `Scalar.acos?` is partial exactly as `math.acos` is, so
  "never fails" is a theorem about the model and not an artefact of totalisation.

  * `C19_total`            any scalar type with the order facts of `LawfulOrderScalar` (weaker than a
                           total preorder): whatever value the computed cosine takes — i.e. whatever
                           rounding did to it — no judgement errs and the picture is returned.
  * `C19_total_real`       the same, concretely over ℝ.
  * `C19_spec`             ℝ: unit axis; verdict = the cone predicate; the picture is exactly the
                           other nodes satisfying it, in registration order, with their positions.
  * `C19_translation`      ℝ: translating the whole scene changes no verdict.
  * `C19_unclamped_can_fail`  the pinned (unclamped) decision errs exactly when the computed cosine
                           leaves the domain of `acos`, e.g. for every value above 1 over ℝ (F19).
-/
open Real

namespace C19
open Camera

/-! ### never fails — for every scalar type and every value of the cosine -/

/-- For EVERY value `dot` of the computed cosine and every computed distance: the clamped argument
    lies in [-1, 1], `math.acos` is defined there, and the decision is never `.error`; at distance
    0 (not beyond reach, not positive) the angle test is skipped and the node is reported.
    Consequently no judgement of the model errs and `takePicture` returns a list. -/
theorem C19_total {S : Type} [Scalar S] [LawfulOrderScalar S] (c : Config S) :
    (∀ dot : S, Scalar.le (Scalar.neg (Scalar.ofInt 1)) (clamp dot) = true ∧
        Scalar.le (clamp dot) (Scalar.ofInt 1) = true ∧ (Scalar.acos? (clamp dot)).isSome = true) ∧
    (∀ distance dot : S, judgeWith c distance dot ≠ .error) ∧
    (∀ distance dot : S, Scalar.gt distance c.reach = false →
        Scalar.gt distance (Scalar.ofInt 0) = false → judgeWith c distance dot = .detected) ∧
    (∀ self other : V3 S, judge c self other ≠ .error) ∧
    (∀ (selfId : Nat) (self : V3 S) (nodes : List (Nat × V3 S)),
        (takePicture c selfId self nodes).isSome = true) := by
  refine ⟨fun dot => ⟨(clamp_bounds dot).1, (clamp_bounds dot).2, acos_clamp_isSome dot⟩,
    judgeWith_ne_error c, ?_, fun self other => ?_, fun selfId self nodes => ?_⟩
  · intro distance dot h1 h2
    unfold judgeWith
    rw [h1, h2]
    simp
  · rw [judge_eq]; exact judgeWith_ne_error c _ _
  · rw [takePicture_eq c selfId self nodes
      (fun p _ => by rw [judge_eq]; exact judgeWith_ne_error c _ _)]
    rfl

/-- the order facts hold over ℝ -/
instance : LawfulOrderScalar ℝ where
  lt_le a b h := by
    rw [RealScalar.lt_eq] at h
    rw [RealScalar.le_eq]
    exact h.le
  one_le_one := by rw [RealScalar.le_eq]
  negone_le_negone := by rw [RealScalar.le_eq]
  negone_le_one := by
    rw [RealScalar.le_eq]
    simp only [RealScalar.ofInt_eq, RealScalar.neg_eq]
    norm_num
  acos_dom x h1 h2 := by
    rw [RealScalar.le_eq] at h1 h2
    simp only [RealScalar.ofInt_eq, RealScalar.neg_eq, Int.cast_one] at h1 h2
    rw [RealScalar.acos_eq, if_pos ⟨h1, h2⟩]
    rfl

/-- Over ℝ, concretely: for every value of the dot product the clamped argument is in [-1, 1] and
    `acos?` answers; no verdict is `.error`; every picture is returned. -/
theorem C19_total_real (c : Config ℝ) :
    (∀ dot : ℝ, -1 ≤ (clamp dot : ℝ) ∧ (clamp dot : ℝ) ≤ 1 ∧
        Scalar.acos? (clamp dot : ℝ) = some (arccos (clamp dot))) ∧
    (∀ self other : V3 ℝ, judge c self other ≠ .error) ∧
    (∀ (selfId : Nat) (self : V3 ℝ) (nodes : List (Nat × V3 ℝ)),
        ∃ pic, takePicture c selfId self nodes = some pic) := by
  have hc : ∀ dot : ℝ, -1 ≤ (clamp dot : ℝ) ∧ (clamp dot : ℝ) ≤ 1 := by
    intro dot
    unfold clamp
    simp only [RealScalar.max_eq, RealScalar.min_eq, RealScalar.ofInt_eq, RealScalar.neg_eq,
      Int.cast_one]
    exact RealScalar.clamp_mem dot
  refine ⟨fun dot => ⟨(hc dot).1, (hc dot).2, ?_⟩, (C19_total c).2.2.2.1, fun selfId self nodes => ?_⟩
  · rw [RealScalar.acos_eq, if_pos (hc dot)]
  · exact Option.isSome_iff_exists.mp ((C19_total c).2.2.2.2 selfId self nodes)

/-! ### what is reported — over ℝ -/

/-- Euclidean distance between camera and node -/
noncomputable def edist3 (self other : V3 ℝ) : ℝ :=
  √((other.x - self.x) ^ 2 + (other.y - self.y) ^ 2 + (other.z - self.z) ^ 2)

/-- cosine of the angle between the camera axis and the direction to the node -/
noncomputable def cosAngle (c : Config ℝ) (self other : V3 ℝ) : ℝ :=
  ((axis c).x * (other.x - self.x) + (axis c).y * (other.y - self.y)
    + (axis c).z * (other.z - self.z)) / edist3 self other

/-- the cone predicate of the property: within reach, and (at the apex, or) the direction deviates
    from the axis by at most the cone angle θ (plus the source's tolerance) -/
def InCone (c : Config ℝ) (self other : V3 ℝ) : Prop :=
  edist3 self other ≤ c.reach ∧
    (edist3 self other = 0 ∨
      arccos (cosAngle c self other) - c.tol ≤ c.thetaDeg * (π / 180))

theorem axis_unit (c : Config ℝ) : (axis c).x ^ 2 + (axis c).y ^ 2 + (axis c).z ^ 2 = 1 := by
  unfold axis
  simp only [RealScalar.mul_eq, RealScalar.sin_eq, RealScalar.cos_eq, RealScalar.radians_eq]
  have h1 := sin_sq_add_cos_sq (c.elevationDeg * (π / 180))
  have h2 := sin_sq_add_cos_sq (c.rotationDeg * (π / 180))
  nlinarith [h1, h2]

theorem cdist_real (self other : V3 ℝ) : cdist self other = edist3 self other := by
  unfold cdist rel edist3
  simp only [RealScalar.sqrt_eq, RealScalar.add_eq, RealScalar.sq_eq, RealScalar.sub_eq]

theorem cdot_real (c : Config ℝ) (self other : V3 ℝ) : cdot c self other = cosAngle c self other := by
  unfold cdot cosAngle
  rw [cdist_real]
  unfold rel
  simp only [RealScalar.add_eq, RealScalar.mul_eq, RealScalar.div_eq, RealScalar.sub_eq]
  ring

/-- Cauchy–Schwarz: the normalised dot product is a genuine cosine -/
theorem cosAngle_mem (c : Config ℝ) (self other : V3 ℝ) (hd : 0 < edist3 self other) :
    -1 ≤ cosAngle c self other ∧ cosAngle c self other ≤ 1 := by
  have ha := axis_unit c
  set a := axis c
  set rx := other.x - self.x with hrx
  set ry := other.y - self.y with hry
  set rz := other.z - self.z with hrz
  have hs : 0 ≤ rx ^ 2 + ry ^ 2 + rz ^ 2 := by positivity
  have hd2 : edist3 self other ^ 2 = rx ^ 2 + ry ^ 2 + rz ^ 2 := by
    unfold edist3; rw [sq_sqrt hs]
  have hcs : (a.x * rx + a.y * ry + a.z * rz) ^ 2 ≤ edist3 self other ^ 2 := by
    rw [hd2]
    nlinarith [sq_nonneg (a.x * ry - a.y * rx), sq_nonneg (a.x * rz - a.z * rx),
      sq_nonneg (a.y * rz - a.z * ry), ha]
  have habs := abs_le_of_sq_le_sq' hcs hd.le
  unfold cosAngle
  rw [le_div_iff₀ hd, div_le_iff₀ hd]
  constructor <;> linarith [habs.1, habs.2]

theorem judge_detected_iff (c : Config ℝ) (self other : V3 ℝ) :
    judge c self other = .detected ↔ InCone c self other := by
  rw [judge_eq, cdist_real, cdot_real]
  unfold judgeWith InCone
  have hd0 : 0 ≤ edist3 self other := sqrt_nonneg _
  by_cases h1 : c.reach < edist3 self other
  · rw [if_pos ((RealScalar.gt_eq _ _).mpr h1)]
    constructor
    · intro h; cases h
    · intro h; exact absurd h.1 (not_le.mpr h1)
  · rw [if_neg (fun h => h1 ((RealScalar.gt_eq _ _).mp h))]
    by_cases h2 : 0 < edist3 self other
    · rw [if_pos ((RealScalar.gt_eq _ _).mpr (by simpa using h2))]
      have hcl : Scalar.acos? (clamp (cosAngle c self other))
          = some (arccos (cosAngle c self other)) := by
        unfold clamp
        simp only [RealScalar.max_eq, RealScalar.min_eq, RealScalar.ofInt_eq, RealScalar.neg_eq,
          Int.cast_one]
        rw [RealScalar.acos_eq, if_pos (RealScalar.clamp_mem _), RealScalar.arccos_clamp]
      rw [hcl]
      simp only [RealScalar.sub_eq, RealScalar.radians_eq]
      by_cases h3 : c.thetaDeg * (π / 180) < arccos (cosAngle c self other) - c.tol
      · rw [if_pos ((RealScalar.gt_eq _ _).mpr h3)]
        constructor
        · intro h; cases h
        · rintro ⟨_, h | h⟩
          · exact absurd h h2.ne'
          · exact absurd h (not_le.mpr h3)
      · rw [if_neg (fun h => h3 ((RealScalar.gt_eq _ _).mp h))]
        exact ⟨fun _ => ⟨not_lt.mp h1, Or.inr (not_lt.mp h3)⟩, fun _ => rfl⟩
    · rw [if_neg (fun h => h2 (by simpa using (RealScalar.gt_eq _ _).mp h))]
      exact ⟨fun _ => ⟨not_lt.mp h1, Or.inl (le_antisymm (not_lt.mp h2) hd0)⟩, fun _ => rfl⟩

open Classical in
/-- **Specification over ℝ.**
    (1) the axis is a unit vector;
    (2) for a node away from the apex the normalised dot product is a genuine cosine, so
        `arccos` of it is the angle between axis and direction;
    (3) the verdict is `detected` exactly for the nodes in the cone (`InCone`: distance ≤ reach and
        (distance = 0 or angle − tol ≤ θ));
    (4) the picture is exactly the registered nodes other than the camera's own that are in the
        cone, in registration order, each entry carrying that node's position;
    (5) hence: entry (n, pos) is in the picture iff it is a registered node, n ≠ self, in the cone;
    (6) the camera's own node never appears. -/
theorem C19_spec (c : Config ℝ) (selfId : Nat) (self : V3 ℝ) (nodes : List (Nat × V3 ℝ)) :
    (axis c).x ^ 2 + (axis c).y ^ 2 + (axis c).z ^ 2 = 1 ∧
    (∀ other : V3 ℝ, 0 < edist3 self other →
        cos (arccos (cosAngle c self other)) = cosAngle c self other) ∧
    (∀ other : V3 ℝ, judge c self other = .detected ↔ InCone c self other) ∧
    takePicture c selfId self nodes
      = some (nodes.filter (fun p => decide (p.1 ≠ selfId ∧ InCone c self p.2))) ∧
    (∀ pic, takePicture c selfId self nodes = some pic →
        ∀ n pos, (n, pos) ∈ pic ↔ (n, pos) ∈ nodes ∧ n ≠ selfId ∧ InCone c self pos) ∧
    (∀ pic, takePicture c selfId self nodes = some pic → ∀ pos, (selfId, pos) ∉ pic) := by
  have hpic : takePicture c selfId self nodes
      = some (nodes.filter (fun p => decide (p.1 ≠ selfId ∧ InCone c self p.2))) := by
    rw [takePicture_eq c selfId self nodes (fun p _ => (C19_total c).2.2.2.1 self p.2)]
    congr 1
    apply List.filter_congr
    intro p _
    simp only [ne_eq, judge_detected_iff, Bool.decide_and, decide_not]
    by_cases hp : p.1 = selfId <;> simp [hp]
  refine ⟨axis_unit c, fun other hd => ?_, judge_detected_iff c self, hpic, ?_, ?_⟩
  · exact cos_arccos (cosAngle_mem c self other hd).1 (cosAngle_mem c self other hd).2
  · intro pic h n pos
    rw [hpic] at h
    cases h
    simp [List.mem_filter]
  · intro pic h pos
    rw [hpic] at h
    cases h
    simp [List.mem_filter]

/-- non-vacuity: a node straight ahead on the axis, within reach, is in the cone of a camera
    pointing up (elevation 0) with any non-negative cone angle and tolerance -/
example : InCone ⟨10, 30, 0, 0, 0⟩ ⟨0, 0, 0⟩ ⟨0, 0, 5⟩ := by
  have h5 : edist3 ⟨0, 0, 0⟩ ⟨0, 0, 5⟩ = 5 := by
    unfold edist3
    rw [show ((0:ℝ) - 0) ^ 2 + (0 - 0) ^ 2 + (5 - 0) ^ 2 = 5 ^ 2 by norm_num]
    exact sqrt_sq (by norm_num)
  refine ⟨by rw [h5]; norm_num, Or.inr ?_⟩
  have : cosAngle ⟨10, 30, 0, 0, 0⟩ ⟨0, 0, 0⟩ ⟨0, 0, 5⟩ = 1 := by
    unfold cosAngle
    rw [h5]
    simp [axis]
  rw [this, arccos_one]
  simp only [sub_zero]
  positivity

/-! ### translation invariance — over ℝ -/

/-- translate a position -/
def shift (t p : V3 ℝ) : V3 ℝ := ⟨p.x + t.x, p.y + t.y, p.z + t.z⟩

/-- Translating the camera and every node by the same vector leaves every verdict unchanged, and
    the picture of the translated scene is the translated picture (same nodes, same order). -/
theorem C19_translation (c : Config ℝ) (t : V3 ℝ) (selfId : Nat) (self : V3 ℝ)
    (nodes : List (Nat × V3 ℝ)) :
    (∀ other : V3 ℝ, judge c (shift t self) (shift t other) = judge c self other) ∧
    takePicture c selfId (shift t self) (nodes.map (fun p => (p.1, shift t p.2)))
      = (takePicture c selfId self nodes).map (List.map (fun p => (p.1, shift t p.2))) := by
  have hj : ∀ other : V3 ℝ, judge c (shift t self) (shift t other) = judge c self other := by
    intro other
    rw [judge_eq, judge_eq]
    have hd : cdist (shift t self) (shift t other) = cdist self other := by
      rw [cdist_real, cdist_real]
      unfold edist3 shift
      simp only [add_sub_add_right_eq_sub]
    have hdot : cdot c (shift t self) (shift t other) = cdot c self other := by
      rw [cdot_real, cdot_real]
      unfold cosAngle
      rw [← cdist_real, ← cdist_real, hd]
      unfold shift
      simp only [add_sub_add_right_eq_sub]
    rw [hd, hdot]
  refine ⟨hj, ?_⟩
  rw [takePicture_eq c selfId (shift t self) _ (fun p _ => (C19_total c).2.2.2.1 _ p.2),
    takePicture_eq c selfId self nodes (fun p _ => (C19_total c).2.2.2.1 _ p.2)]
  simp only [Option.map_some, List.filter_map]
  congr 2
  apply List.filter_congr
  intro p _
  simp only [Function.comp, hj]

/-! ### the defect F19: without the clamp the decision can err -/

/-- the pinned decision: `math.acos(dot_product)` without the clamp -/
def judgePinnedWith {S : Type} [Scalar S] (c : Config S) (distance dot : S) : Verdict :=
  if Scalar.gt distance c.reach then .outOfReach
  else if Scalar.gt distance (Scalar.ofInt 0) then
    match Scalar.acos? dot with
    | none => .error
    | some ac =>
      if Scalar.gt (Scalar.sub ac c.tol) (Scalar.radians c.thetaDeg) then .outOfAngle else .detected
  else .detected

/-- For every scalar type: the unclamped decision for a node within reach and away from the apex
    raises exactly when the computed cosine is outside the domain of `acos`; over ℝ that is every
    value above 1 (the rounded cosine 1.0000000000000002 of finding F19) or below −1 — whereas the
    clamped decision of the model answers for the same values. -/
theorem C19_unclamped_can_fail :
    (∀ {S : Type} [Scalar S] (c : Config S) (distance dot : S),
        Scalar.gt distance c.reach = false → Scalar.gt distance (Scalar.ofInt 0) = true →
        (judgePinnedWith c distance dot = .error ↔ Scalar.acos? dot = none)) ∧
    (∀ x : ℝ, 1 < x ∨ x < -1 → Scalar.acos? x = none) ∧
    (∀ (c : Config ℝ) (distance x : ℝ), distance ≤ c.reach → 0 < distance → 1 < x →
        judgePinnedWith c distance x = .error ∧ judgeWith c distance x ≠ .error) := by
  have h1 : ∀ {S : Type} [Scalar S] (c : Config S) (distance dot : S),
      Scalar.gt distance c.reach = false → Scalar.gt distance (Scalar.ofInt 0) = true →
      (judgePinnedWith c distance dot = .error ↔ Scalar.acos? dot = none) := by
    intro S _ c distance dot hr h0
    unfold judgePinnedWith
    rw [hr, h0]
    simp only [Bool.false_eq_true, if_false, if_true]
    cases h : Scalar.acos? dot with
    | none => simp
    | some ac =>
      simp only [reduceCtorEq, iff_false]
      split <;> simp
  have h2 : ∀ x : ℝ, 1 < x ∨ x < -1 → Scalar.acos? x = none := by
    intro x hx
    rw [RealScalar.acos_eq, if_neg]
    rintro ⟨ha, hb⟩
    rcases hx with hx | hx <;> linarith
  refine ⟨h1, h2, fun c distance x hr h0 hx => ⟨?_, judgeWith_ne_error c _ _⟩⟩
  exact (h1 c distance x ((RealScalar.gt_eq_false _ _).mpr hr)
    ((RealScalar.gt_eq _ _).mpr (by simpa using h0))).mpr (h2 x (Or.inl hx))

end C19
