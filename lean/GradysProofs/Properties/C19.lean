import GradysProofs.Lemmas.CameraReal
/-
  C19 — the camera reports exactly the other nodes inside its cone and never fails.

  Model: `GradysModel/Camera.lean` (`axis`, `judge`, `takePicture`), the repaired code (cosine
  clamped to [-1, 1] before `math.acos`).  `Scalar.acos?` is partial exactly as `math.acos` is, so
  "never fails" is a theorem about the model and not an artefact of totalisation.

  * `C19_total`            any scalar type with the order facts of `LawfulOrderScalar` (weaker than a
                           total preorder): whatever value the computed cosine takes — i.e. whatever
                           rounding did to it — no judgement errs and the picture is returned.
  * `C19_total_real`       the same, concretely over ℝ.
  * `C19_spec`             ℝ: unit axis; verdict = the cone predicate; the picture is exactly the
                           other nodes satisfying it, in registration order, with their positions.
  * `C19_translation`      ℝ: translating the whole scene changes no verdict.
  * `C19_unclamped_can_fail`  the pinned (unclamped) decision errs exactly when the computed cosine
                           leaves the domain of `acos`, e.g. for every value above 1 over ℝ (F19).
  * `C19_change_facing_own`   any scalar type, several cameras, configuration objects held by
                           reference (`Camera.Fleet`): `change_facing` on one camera changes the axis
                           of that camera and of no other — not even of a camera holding the same
                           configuration object; the constructor gives the new camera the
                           configuration it was passed and touches no other camera.
  * `C19_fleet_spec`       ℝ: after any `change_facing` on ANOTHER camera the picture of a camera is
                           still exactly the other nodes in ITS cone; the re-aimed camera reports
                           exactly the other nodes in the cone around its new axis.
-/
open Real

namespace C19
open Camera

/-! ### never fails — for every scalar type and every value of the cosine -/

/-- For EVERY value `dot` of the computed cosine and every computed distance: the clamped argument
    lies in [-1, 1], `math.acos` is defined there, and the decision is never `.error`; at distance
    0 (not beyond reach, not positive) the angle test is skipped and the node is reported.
    Consequently no judgement of the model errs and `takePicture` returns a list. -/
theorem C19_total {S : Type} [Scalar S] [LawfulOrderScalar S] (c : Config S) :
    (∀ dot : S, Scalar.le (Scalar.neg (Scalar.ofInt 1)) (clamp dot) = true ∧
        Scalar.le (clamp dot) (Scalar.ofInt 1) = true ∧ (Scalar.acos? (clamp dot)).isSome = true) ∧
    (∀ distance dot : S, judgeWith c distance dot ≠ .error) ∧
    (∀ distance dot : S, Scalar.gt distance c.reach = false →
        Scalar.gt distance (Scalar.ofInt 0) = false → judgeWith c distance dot = .detected) ∧
    (∀ self other : V3 S, judge c self other ≠ .error) ∧
    (∀ (selfId : Nat) (self : V3 S) (nodes : List (Nat × V3 S)),
        (takePicture c selfId self nodes).isSome = true) := by
  refine ⟨fun dot => ⟨(clamp_bounds dot).1, (clamp_bounds dot).2, acos_clamp_isSome dot⟩,
    judgeWith_ne_error c, ?_, fun self other => ?_, fun selfId self nodes => ?_⟩
  · intro distance dot h1 h2
    unfold judgeWith
    rw [h1, h2]
    simp
  · rw [judge_eq]; exact judgeWith_ne_error c _ _
  · rw [takePicture_eq c selfId self nodes
      (fun p _ => by rw [judge_eq]; exact judgeWith_ne_error c _ _)]
    rfl

/-- Over ℝ, concretely: for every value of the dot product the clamped argument is in [-1, 1] and
    `acos?` answers; no verdict is `.error`; every picture is returned. -/
theorem C19_total_real (c : Config ℝ) :
    (∀ dot : ℝ, -1 ≤ (clamp dot : ℝ) ∧ (clamp dot : ℝ) ≤ 1 ∧
        Scalar.acos? (clamp dot : ℝ) = some (arccos (clamp dot))) ∧
    (∀ self other : V3 ℝ, judge c self other ≠ .error) ∧
    (∀ (selfId : Nat) (self : V3 ℝ) (nodes : List (Nat × V3 ℝ)),
        ∃ pic, takePicture c selfId self nodes = some pic) := by
  have hc : ∀ dot : ℝ, -1 ≤ (clamp dot : ℝ) ∧ (clamp dot : ℝ) ≤ 1 := by
    intro dot
    unfold clamp
    simp only [RealScalar.max_eq, RealScalar.min_eq, RealScalar.ofInt_eq, RealScalar.neg_eq,
      Int.cast_one]
    exact RealScalar.clamp_mem dot
  refine ⟨fun dot => ⟨(hc dot).1, (hc dot).2, ?_⟩, (C19_total c).2.2.2.1, fun selfId self nodes => ?_⟩
  · rw [RealScalar.acos_eq, if_pos (hc dot)]
  · exact Option.isSome_iff_exists.mp ((C19_total c).2.2.2.2 selfId self nodes)

/-! ### what is reported — over ℝ -/

open Classical in
/-- **Specification over ℝ.**
    (1) the axis is a unit vector;
    (2) for a node away from the apex the normalised dot product is a genuine cosine, so
        `arccos` of it is the angle between axis and direction;
    (3) the verdict is `detected` exactly for the nodes in the cone (`InCone`: distance ≤ reach and
        (distance = 0 or angle − tol ≤ θ));
    (4) the picture is exactly the registered nodes other than the camera's own that are in the
        cone, in registration order, each entry carrying that node's position;
    (5) hence: entry (n, pos) is in the picture iff it is a registered node, n ≠ self, in the cone;
    (6) the camera's own node never appears. -/
theorem C19_spec (c : Config ℝ) (selfId : Nat) (self : V3 ℝ) (nodes : List (Nat × V3 ℝ)) :
    (axis c).x ^ 2 + (axis c).y ^ 2 + (axis c).z ^ 2 = 1 ∧
    (∀ other : V3 ℝ, 0 < edist3 self other →
        cos (arccos (cosAngle c self other)) = cosAngle c self other) ∧
    (∀ other : V3 ℝ, judge c self other = .detected ↔ InCone c self other) ∧
    takePicture c selfId self nodes
      = some (nodes.filter (fun p => decide (p.1 ≠ selfId ∧ InCone c self p.2))) ∧
    (∀ pic, takePicture c selfId self nodes = some pic →
        ∀ n pos, (n, pos) ∈ pic ↔ (n, pos) ∈ nodes ∧ n ≠ selfId ∧ InCone c self pos) ∧
    (∀ pic, takePicture c selfId self nodes = some pic → ∀ pos, (selfId, pos) ∉ pic) := by
  have hpic : takePicture c selfId self nodes
      = some (nodes.filter (fun p => decide (p.1 ≠ selfId ∧ InCone c self p.2))) := by
    rw [takePicture_eq c selfId self nodes (fun p _ => (C19_total c).2.2.2.1 self p.2)]
    congr 1
    apply List.filter_congr
    intro p _
    simp only [ne_eq, judge_detected_iff, Bool.decide_and, decide_not]
    by_cases hp : p.1 = selfId <;> simp [hp]
  refine ⟨axis_unit c, fun other hd => ?_, judge_detected_iff c self, hpic, ?_, ?_⟩
  · exact cos_arccos (cosAngle_mem c self other hd).1 (cosAngle_mem c self other hd).2
  · intro pic h n pos
    rw [hpic] at h
    cases h
    simp [List.mem_filter]
  · intro pic h pos
    rw [hpic] at h
    cases h
    simp [List.mem_filter]

/-- non-vacuity: a node straight ahead on the axis, within reach, is in the cone of a camera
    pointing up (elevation 0) with any non-negative cone angle and tolerance -/
example : InCone ⟨10, 30, 0, 0, 0⟩ ⟨0, 0, 0⟩ ⟨0, 0, 5⟩ := by
  have h5 : edist3 ⟨0, 0, 0⟩ ⟨0, 0, 5⟩ = 5 := by
    unfold edist3
    rw [show ((0:ℝ) - 0) ^ 2 + (0 - 0) ^ 2 + (5 - 0) ^ 2 = 5 ^ 2 by norm_num]
    exact sqrt_sq (by norm_num)
  refine ⟨by rw [h5]; norm_num, Or.inr ?_⟩
  have : cosAngle ⟨10, 30, 0, 0, 0⟩ ⟨0, 0, 0⟩ ⟨0, 0, 5⟩ = 1 := by
    unfold cosAngle
    rw [h5]
    simp [axis]
  rw [this, arccos_one]
  simp only [sub_zero]
  positivity

/-! ### translation invariance — over ℝ -/

/-- Translating the camera and every node by the same vector leaves every verdict unchanged, and
    the picture of the translated scene is the translated picture (same nodes, same order). -/
theorem C19_translation (c : Config ℝ) (t : V3 ℝ) (selfId : Nat) (self : V3 ℝ)
    (nodes : List (Nat × V3 ℝ)) :
    (∀ other : V3 ℝ, judge c (shift t self) (shift t other) = judge c self other) ∧
    takePicture c selfId (shift t self) (nodes.map (fun p => (p.1, shift t p.2)))
      = (takePicture c selfId self nodes).map (List.map (fun p => (p.1, shift t p.2))) := by
  have hj : ∀ other : V3 ℝ, judge c (shift t self) (shift t other) = judge c self other := by
    intro other
    rw [judge_eq, judge_eq]
    have hd : cdist (shift t self) (shift t other) = cdist self other := by
      rw [cdist_real, cdist_real]
      unfold edist3 shift
      simp only [add_sub_add_right_eq_sub]
    have hdot : cdot c (shift t self) (shift t other) = cdot c self other := by
      rw [cdot_real, cdot_real]
      unfold cosAngle
      rw [← cdist_real, ← cdist_real, hd]
      unfold shift
      simp only [add_sub_add_right_eq_sub]
    rw [hd, hdot]
  refine ⟨hj, ?_⟩
  rw [takePicture_eq c selfId (shift t self) _ (fun p _ => (C19_total c).2.2.2.1 _ p.2),
    takePicture_eq c selfId self nodes (fun p _ => (C19_total c).2.2.2.1 _ p.2)]
  simp only [Option.map_some, List.filter_map]
  congr 2
  apply List.filter_congr
  intro p _
  simp only [Function.comp, hj]

/-! ### the defect F19: without the clamp the decision can err -/

/-- For every scalar type: the unclamped decision for a node within reach and away from the apex
    raises exactly when the computed cosine is outside the domain of `acos`; over ℝ that is every
    value above 1 (the rounded cosine 1.0000000000000002 of finding F19) or below −1 — whereas the
    clamped decision of the model answers for the same values. -/
theorem C19_unclamped_can_fail :
    (∀ {S : Type} [Scalar S] (c : Config S) (distance dot : S),
        Scalar.gt distance c.reach = false → Scalar.gt distance (Scalar.ofInt 0) = true →
        (judgePinnedWith c distance dot = .error ↔ Scalar.acos? dot = none)) ∧
    (∀ x : ℝ, 1 < x ∨ x < -1 → Scalar.acos? x = none) ∧
    (∀ (c : Config ℝ) (distance x : ℝ), distance ≤ c.reach → 0 < distance → 1 < x →
        judgePinnedWith c distance x = .error ∧ judgeWith c distance x ≠ .error) := by
  have h1 : ∀ {S : Type} [Scalar S] (c : Config S) (distance dot : S),
      Scalar.gt distance c.reach = false → Scalar.gt distance (Scalar.ofInt 0) = true →
      (judgePinnedWith c distance dot = .error ↔ Scalar.acos? dot = none) := by
    intro S _ c distance dot hr h0
    unfold judgePinnedWith
    rw [hr, h0]
    simp only [Bool.false_eq_true, if_false, if_true]
    cases h : Scalar.acos? dot with
    | none => simp
    | some ac =>
      simp only [reduceCtorEq, iff_false]
      split <;> simp
  have h2 : ∀ x : ℝ, 1 < x ∨ x < -1 → Scalar.acos? x = none := by
    intro x hx
    rw [RealScalar.acos_eq, if_neg]
    rintro ⟨ha, hb⟩
    rcases hx with hx | hx <;> linarith
  refine ⟨h1, h2, fun c distance x hr h0 hx => ⟨?_, judgeWith_ne_error c _ _⟩⟩
  exact (h1 c distance x ((RealScalar.gt_eq_false _ _).mpr hr)
    ((RealScalar.gt_eq _ _).mpr (by simpa using h0))).mpr (h2 x (Or.inl hx))

/-! ### several cameras — `change_facing` re-aims the camera it is called on, and only that one -/

/-- **Every camera has its own axis** (any scalar type).  In a fleet of cameras whose configuration
    objects are held by reference (several cameras may hold one object, `change_facing` writes the
    new angles into it):
    (1) `change_facing` on camera `i` leaves what every other camera `j` works with — node, reach,
        cone angle, axis, tolerance — unchanged, hence
    (2) every picture of every other camera, for every scene;
    (3) camera `i` itself works with its previous data except for the two new angles;
    (4) the constructor gives the new camera exactly the configuration it was passed and leaves the
        cameras built before untouched. -/
theorem C19_change_facing_own {S : Type} [Scalar S] (f : Fleet S) (i : Nat) (elev rot : S) :
    (∀ j, j ≠ i → (f.changeFacing i elev rot).view j = f.view j) ∧
    (∀ j, j ≠ i → ∀ (self : V3 S) (nodes : List (Nat × V3 S)),
        (f.changeFacing i elev rot).takePicture j self nodes = f.takePicture j self nodes) ∧
    (∀ selfId c, f.view i = some (selfId, c) →
        (f.changeFacing i elev rot).view i
          = some (selfId, { c with elevationDeg := elev, rotationDeg := rot })) ∧
    (∀ selfId k c, f.confs[k]? = some c →
        (f.construct selfId k).view f.cams.length = some (selfId, c) ∧
        ∀ j, j < f.cams.length → (f.construct selfId k).view j = f.view j) := by
  refine ⟨view_changeFacing_ne f i elev rot, fun j hj self nodes => ?_,
    view_changeFacing_eq f i elev rot, fun selfId k c hk => view_construct f selfId k c hk⟩
  unfold Fleet.takePicture
  rw [view_changeFacing_ne f i elev rot j hj]

/-- non-vacuity, and the aliasing is really in the model: two cameras built from ONE configuration
    object looking down (elevation 180); re-aiming camera 0 to elevation 90 writes 90 into the shared
    object, camera 0 now works with 90 — and camera 1 still with 180. -/
example :
    let f := ((Fleet.mk [(⟨20, 30, 180, 0, 0⟩ : Config ℝ)] []).construct 0 0).construct 1 0
    let g := f.changeFacing 0 90 0
    (g.confs[0]?.map (·.elevationDeg)) = some 90 ∧
    ((g.view 0).map (·.2.elevationDeg)) = some 90 ∧
    ((g.view 1).map (·.2.elevationDeg)) = some 180 := by
  simp [Fleet.construct, Fleet.changeFacing, Fleet.view]

open Classical in
/-- **Specification for a fleet over ℝ.**  Camera `j` works with `(selfId, c)`.  After
    `change_facing` on any OTHER camera `i` — sharing the configuration object or not — the picture of
    `j` is exactly the registered nodes other than its own inside the cone of `c`; and the picture
    of the re-aimed camera is exactly the other nodes inside the cone around its NEW axis (reach and
    cone angle as before). -/
theorem C19_fleet_spec (f : Fleet ℝ) (i : Nat) (elev rot : ℝ) (self : V3 ℝ)
    (nodes : List (Nat × V3 ℝ)) :
    (∀ j selfId c, j ≠ i → f.view j = some (selfId, c) →
        (f.changeFacing i elev rot).takePicture j self nodes
          = some (nodes.filter (fun p => decide (p.1 ≠ selfId ∧ InCone c self p.2)))) ∧
    (∀ selfId c, f.view i = some (selfId, c) →
        (f.changeFacing i elev rot).takePicture i self nodes
          = some (nodes.filter (fun p => decide (p.1 ≠ selfId ∧
              InCone { c with elevationDeg := elev, rotationDeg := rot } self p.2)))) := by
  refine ⟨fun j selfId c hj hv => ?_, fun selfId c hv => ?_⟩
  · unfold Fleet.takePicture
    rw [view_changeFacing_ne f i elev rot j hj, hv]
    exact (C19_spec c selfId self nodes).2.2.2.1
  · unfold Fleet.takePicture
    rw [view_changeFacing_eq f i elev rot selfId c hv]
    exact (C19_spec _ selfId self nodes).2.2.2.1

end C19
