import GradysProofs.Lemmas.RandomTrip
import GradysProofs.RealScalar
/-
  C17 — random trips stay inside their box, redraw only on arrival, and stop when told.

  The discrete theorems hold for every scalar type `S` (hence for IEEE doubles as well as for ℝ),
  every configuration, every draw stream and every history of initiate / finish / telemetry /
  travel / queries (`exec cfg draws RT.init ops`), by induction on the history (`tinv_exec`).
  The in-box theorem is over ℝ.
-/
set_option linter.unusedSectionVars false

namespace C17
open RandomTrip Disp

/-! ### in the box (ℝ) -/

/-- a position inside the configured box -/
def InBox (cfg : Config ℝ) (p : V3 ℝ) : Prop :=
  cfg.xlo ≤ p.x ∧ p.x ≤ cfg.xhi ∧ cfg.ylo ≤ p.y ∧ p.y ≤ cfg.yhi ∧ cfg.zlo ≤ p.z ∧ p.z ≤ cfg.zhi

/-- `random.uniform(lo, hi)` for a draw `0 ≤ u < 1` lies in `[lo, hi]`, in `[lo, hi)` when `lo < hi` -/
theorem uniform_mem {lo hi u : ℝ} (h : lo ≤ hi) (hu0 : 0 ≤ u) (hu1 : u < 1) :
    lo ≤ uniform lo hi u ∧ uniform lo hi u ≤ hi ∧ (lo < hi → uniform lo hi u < hi) := by
  simp only [uniform, RealScalar.add_eq, RealScalar.mul_eq, RealScalar.sub_eq]
  have h0 : 0 ≤ hi - lo := sub_nonneg.mpr h
  have h1 : 0 ≤ (hi - lo) * u := mul_nonneg h0 hu0
  have h2 : (hi - lo) * u ≤ (hi - lo) * 1 := mul_le_mul_of_nonneg_left hu1.le h0
  refine ⟨by linarith, by linarith, fun hlt => ?_⟩
  have h3 : (hi - lo) * u < (hi - lo) * 1 := mul_lt_mul_of_pos_left hu1 (sub_pos.mpr hlt)
  linarith

theorem waypoint_inBox {cfg : Config ℝ} {draws : Nat → ℝ}
    (hx : cfg.xlo ≤ cfg.xhi) (hy : cfg.ylo ≤ cfg.yhi) (hz : cfg.zlo ≤ cfg.zhi)
    (hd : ∀ i, 0 ≤ draws i ∧ draws i < 1) (n : Nat) : InBox cfg (waypoint cfg draws n) := by
  have a := uniform_mem hx (hd n).1 (hd n).2
  have b := uniform_mem hy (hd (n + 1)).1 (hd (n + 1)).2
  have c := uniform_mem hz (hd (n + 2)).1 (hd (n + 2)).2
  exact ⟨a.1, a.2.1, b.1, b.2.1, c.1, c.2.1⟩

/-- **In the box.**  Over ℝ, for a box with `lo ≤ hi` on every axis and draws in `[0, 1)`:
    after every history every command the provider ever received is a point of the box (each
    coordinate in its own axis' range), and so is the current target; `travel_to_random_waypoint`
    sends exactly one command, the very waypoint it returns, which is in the box, drawn from the
    next three draws in the order x, y, z. -/
theorem C17_in_box (cfg : Config ℝ) (draws : Nat → ℝ)
    (hx : cfg.xlo ≤ cfg.xhi) (hy : cfg.ylo ≤ cfg.yhi) (hz : cfg.zlo ≤ cfg.zhi)
    (hd : ∀ i, 0 ≤ draws i ∧ draws i < 1) (ops : List (Op ℝ)) :
    let s := exec cfg draws RT.init ops
    (∀ c ∈ s.cmds, InBox cfg c) ∧ (∀ t, s.target = some t → InBox cfg t) ∧
    (travel cfg draws s).1.cmds = (travel cfg draws s).2 :: s.cmds ∧ InBox cfg (travel cfg draws s).2 ∧
    (travel cfg draws s).2 = ⟨cfg.xlo + (cfg.xhi - cfg.xlo) * draws s.used,
                               cfg.ylo + (cfg.yhi - cfg.ylo) * draws (s.used + 1),
                               cfg.zlo + (cfg.zhi - cfg.zlo) * draws (s.used + 2)⟩ := by
  intro s
  have inv : TInv cfg draws s := tinv_exec (tinv_init cfg draws) ops
  refine ⟨?_, ?_, rfl, waypoint_inBox hx hy hz hd _, rfl⟩
  · intro c hc
    obtain ⟨n, rfl⟩ := inv.cmds c hc
    exact waypoint_inBox hx hy hz hd n
  · intro t ht
    obtain ⟨n, rfl⟩ := inv.tgt t ht
    exact waypoint_inBox hx hy hz hd n

/-- degenerate boxes are allowed: `lo = hi` pins the coordinate -/
example (c u : ℝ) : uniform c c u = c := by simp [uniform]

/-! ### every scalar type -/
variable {S : Type} [Scalar S]

/-- **Redraw iff arrived.**  After every history, while a trip is ongoing (its target is `t`) a
    telemetry at `pos` draws a new waypoint iff `squared_distance(pos, t) <= tolerance * tolerance`:
    then exactly one command is sent — the waypoint of the next three draws —, it becomes the
    target and three draws are consumed; otherwise no command, no draw, same target.  In both cases
    the trip stays ongoing and the protocol's own `handle_telemetry` runs exactly once. -/
theorem C17_redraw_iff (cfg : Config S) (draws : Nat → S) (ops : List (Op S)) (pos : V3 S) :
    let s := exec cfg draws RT.init ops
    let s' := telemetry cfg draws s pos
    s.ongoing = true → ∃ t, s.target = some t ∧
      (Scalar.le (V3.sqdist pos t) (Scalar.mul cfg.tol cfg.tol) = true →
        s'.cmds = waypoint cfg draws s.used :: s.cmds ∧ s'.used = s.used + 3 ∧
        s'.target = some (waypoint cfg draws s.used)) ∧
      (Scalar.le (V3.sqdist pos t) (Scalar.mul cfg.tol cfg.tol) = false →
        s'.cmds = s.cmds ∧ s'.used = s.used ∧ s'.target = s.target) ∧
      s'.ongoing = true ∧ s'.ownCalls = s.ownCalls + 1 := by
  intro s s' ho
  have inv : TInv cfg draws s := tinv_exec (tinv_init cfg draws) ops
  obtain ⟨h, t, hh, ht, hc⟩ := inv.on ho
  have hs' : s' = _ := telemetry_on cfg draws s pos hh ht hc
  refine ⟨t, ht, ?_, ?_, ?_⟩
  · intro ha
    have ha' : arrived cfg pos t = true := ha
    rw [hs', if_pos ha']
    exact ⟨rfl, rfl, rfl⟩
  · intro ha
    have ha' : ¬ arrived cfg pos t = true := by simp [arrived, ha]
    rw [hs', if_neg ha']
    exact ⟨rfl, rfl, rfl⟩
  · rw [hs']
    split <;> exact ⟨ho, rfl⟩

/-- over ℝ the arrival test is `‖pos − t‖² ≤ tol²` -/
theorem C17_arrival_real (cfg : Config ℝ) (pos t : V3 ℝ) :
    arrived cfg pos t = true ↔
      (t.x - pos.x) ^ 2 + (t.y - pos.y) ^ 2 + (t.z - pos.z) ^ 2 ≤ cfg.tol ^ 2 := by
  simp only [arrived, V3.sqdist, RealScalar.le_eq, RealScalar.add_eq, RealScalar.sq_eq, RealScalar.sub_eq,
    RealScalar.mul_eq]
  rw [sq cfg.tol]

/-- non-vacuity of both branches (a unit box corner, tolerance 1) -/
example :
    let cfg : Config ℝ := ⟨0, 0, 0, 0, 0, 0, 1⟩
    arrived cfg ⟨1, 0, 0⟩ ⟨0, 0, 0⟩ = true ∧ arrived cfg ⟨2, 0, 0⟩ ⟨0, 0, 0⟩ = false := by
  intro cfg
  constructor
  · rw [C17_arrival_real]; norm_num [cfg]
  · have : ¬ arrived cfg ⟨2, 0, 0⟩ ⟨0, 0, 0⟩ = true := by rw [C17_arrival_real]; norm_num [cfg]
    simpa using this

/-- **Total.**  `trip_ongoing`, `current_target` and `finish_random_trip` are defined in every state
    (the model's functions are total and read fields that exist from construction): a fresh plugin
    reports no trip and no target; the queries never change the state; finishing when no trip is
    ongoing changes nothing at all; after `finish` no trip is ongoing, in every state. -/
theorem C17_total (cfg : Config S) (draws : Nat → S) (s : RT S) :
    (RT.init : RT S).ongoing = false ∧ (RT.init : RT S).target = none ∧
    step cfg draws s .qOngoing = (s, Val.bool s.ongoing) ∧
    step cfg draws s .qTarget = (s, Val.pos s.target) ∧
    (s.ongoing = false → finish s = s) ∧
    (finish s).ongoing = false ∧
    (finish s).cmds = s.cmds ∧ (finish s).used = s.used := by
  refine ⟨rfl, rfl, rfl, rfl, ?_, ?_, ?_, ?_⟩
  · intro h; simp [finish, h]
  · unfold finish; split <;> simp_all
  · unfold finish dropHandler; split <;> (try rfl); split <;> (try rfl); split <;> rfl
  · unfold finish dropHandler; split <;> (try rfl); split <;> (try rfl); split <;> rfl

/-- operations that must never make the plugin send anything once no trip is ongoing -/
def passive : Op S → Bool
  | .telemetry _ => true
  | .finish => true
  | .qOngoing => true
  | .qTarget => true
  | .initiate => false
  | .travel => false

/-- number of trip closures in the telemetry chain -/
def tripHandlers (s : RT S) : Nat := ((s.chains .telemetry).filter (fun e => e != Entry.own)).length

/-- **Quiet after finish.**  After every history: the number of registered trip handlers is 1 while
    a trip is ongoing and 0 otherwise (so however many times a trip was initiated, at most one
    closure is live, and it is the plugin's current one); hence after `finish`, any further sequence
    of telemetry / finish / queries sends no command and consumes no draw. -/
theorem C17_quiet_after_finish (cfg : Config S) (draws : Nat → S) (ops : List (Op S)) :
    let s := exec cfg draws RT.init ops
    tripHandlers s = (if s.ongoing then 1 else 0) ∧
    (∀ h, s.handler = some h → s.chains .telemetry = [Entry.h h, Entry.own]) ∧
    (∀ later : List (Op S), (∀ op ∈ later, passive op = true) →
      (exec cfg draws (finish s) later).cmds = s.cmds ∧
      (exec cfg draws (finish s) later).used = s.used ∧
      (exec cfg draws (finish s) later).ongoing = false) := by
  intro s
  have inv : TInv cfg draws s := tinv_exec (tinv_init cfg draws) ops
  refine ⟨?_, ?_, ?_⟩
  · cases ho : s.ongoing with
    | true =>
      obtain ⟨h, t, hh, ht, hc⟩ := inv.on ho
      simp [tripHandlers, hc]
    | false => simp [tripHandlers, (inv.off ho).2]
  · intro h hh
    cases ho : s.ongoing with
    | true =>
      obtain ⟨h', t, hh', ht, hc⟩ := inv.on ho
      rw [hh] at hh'; cases hh'; exact hc
    | false => rw [(inv.off ho).1] at hh; cases hh
  · have hf := (C17_total cfg draws s)
    have key : ∀ (later : List (Op S)) (u : RT S), TInv cfg draws u → u.ongoing = false →
        (∀ op ∈ later, passive op = true) →
        (exec cfg draws u later).cmds = u.cmds ∧ (exec cfg draws u later).used = u.used ∧
        (exec cfg draws u later).ongoing = false := by
      intro later
      induction later with
      | nil => intro u _ ho _; exact ⟨rfl, rfl, ho⟩
      | cons op rest ih =>
        intro u hu ho hp
        have hrest : ∀ op ∈ rest, passive op = true := fun o h => hp o (List.mem_cons_of_mem _ h)
        have hop := hp op List.mem_cons_self
        have hstep : (step cfg draws u op).1.cmds = u.cmds ∧ (step cfg draws u op).1.used = u.used ∧
            (step cfg draws u op).1.ongoing = false := by
          cases op with
          | initiate => cases hop
          | travel => cases hop
          | finish =>
            have := (C17_total cfg draws u).2.2.2.2.1 ho
            simp [RandomTrip.step, this, ho]
          | telemetry pos =>
            simp only [RandomTrip.step]
            rw [telemetry_off cfg draws u pos (hu.off ho).2]
            exact ⟨rfl, rfl, ho⟩
          | qOngoing => exact ⟨rfl, rfl, ho⟩
          | qTarget => exact ⟨rfl, rfl, ho⟩
        have := ih (step cfg draws u op).1 (tinv_step hu op) hstep.2.2 hrest
        simp only [exec, List.foldl_cons] at this ⊢
        rw [this.1, this.2.1, hstep.1, hstep.2.1]
        exact ⟨rfl, rfl, this.2.2⟩
    intro later hp
    have := key later (finish s) (tinv_finish inv) hf.2.2.2.2.2.1 hp
    rw [this.1, this.2.1, hf.2.2.2.2.2.2.1, hf.2.2.2.2.2.2.2]
    exact ⟨rfl, rfl, this.2.2⟩

/-- the draw stream is consumed three at a time, one triple per command, after every history -/
theorem C17_three_draws_per_command (cfg : Config S) (draws : Nat → S) (ops : List (Op S)) :
    (exec cfg draws RT.init ops).used = 3 * (exec cfg draws RT.init ops).cmds.length :=
  (tinv_exec (tinv_init cfg draws) ops).used

/-- non-vacuity (the replay of finding F17b): initiate, initiate, finish, telemetry exactly on the
    last target — over ℝ, unit tolerance — sends nothing beyond the two initial waypoints -/
example :
    let cfg : Config ℝ := ⟨0, 0, 0, 0, 0, 0, 1⟩
    let draws : Nat → ℝ := fun _ => 0
    (exec cfg draws RT.init [.initiate, .initiate, .finish, .telemetry ⟨0, 0, 0⟩]).cmds.length = 2 := by
  intro cfg draws
  have h := (C17_quiet_after_finish cfg draws [.initiate, .initiate]).2.2 [.telemetry ⟨0, 0, 0⟩]
    (by intro op hop; simp at hop; subst hop; rfl)
  have e : exec cfg draws RT.init [.initiate, .initiate, .finish, .telemetry ⟨0, 0, 0⟩] =
      exec cfg draws (finish (exec cfg draws RT.init [.initiate, .initiate])) [.telemetry ⟨0, 0, 0⟩] := rfl
  rw [e, h.1]
  have := C17_three_draws_per_command cfg draws [.initiate, .initiate]
  have hu : (exec cfg draws RT.init [.initiate, .initiate]).used = 6 := rfl
  omega

end C17
