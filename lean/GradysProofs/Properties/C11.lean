import GradysModel.Sim
import GradysProofs.Lemmas.RealDist
/-
  C11 — nodes move in straight lines at their speed, never overshoot, and stop on target.

  `Mobility.step dtS cur target speed` is the per-node body of `MobilityHandler._update_movement`
  (gradysim/simulator/handler/mobility.py:85-113), written once for every scalar.  The discrete
  clauses (no target, arrival by copying the target, commands change only target / speed, the tick
  applies `step` to every node) hold for every `S`, hence bit-exactly for IEEE doubles; the metric
  clauses are over ℝ (IEEE rounding: trusted base T3).
  Guards `0 ≤ speed`, `0 < dtS`: with a negative speed the real code moves away from the target (and
  divides by zero on it) — a negative speed is not a speed; `update_rate ≤ 0` makes no progress.
-/
set_option linter.unusedSectionVars false
set_option linter.unusedVariables false

namespace C11
open Sim RealScalar

section anyScalar
variable {S σ : Type} [Scalar S]

/-- the distance `_update_movement` computes (`distance_delta`) -/
def codeDist (cur tgt : V3 S) : S := Scalar.sqrt (V3.sqdist cur tgt)

/-- a node without a target does not move -/
theorem C11_no_target (dtS : S) (cur : V3 S) (speed : S) :
    Mobility.step dtS cur none speed = cur := rfl

/-- when `speed*dt ≥ d` the new position IS the target — the code copies the target's three
    coordinates, so this holds for every scalar type (in particular bit-exactly in floats) -/
theorem C11_arrive (dtS : S) (cur tgt : V3 S) (speed : S)
    (h : Scalar.ge (Scalar.mul speed dtS) (codeDist cur tgt) = true) :
    Mobility.step dtS cur (some tgt) speed = tgt ∧
    (Mobility.step dtS cur (some tgt) speed).x = tgt.x ∧
    (Mobility.step dtS cur (some tgt) speed).y = tgt.y ∧
    (Mobility.step dtS cur (some tgt) speed).z = tgt.z := by
  have h' : Scalar.ge (Scalar.mul speed dtS)
      (Scalar.sqrt (Scalar.add (Scalar.add (Scalar.sq (Scalar.sub tgt.x cur.x))
        (Scalar.sq (Scalar.sub tgt.y cur.y))) (Scalar.sq (Scalar.sub tgt.z cur.z)))) = true := h
  have e : Mobility.step dtS cur (some tgt) speed = tgt := by
    simp only [Mobility.step, h', if_true]
  rw [e]; exact ⟨rfl, rfl, rfl, rfl⟩

/-- the mobility commands change only the issuing node's target / speed — never any position, never
    another node's target or speed, nothing else in the world; they are always accepted.  So the next
    update starts from the current position (no jump). -/
theorem C11_commands_frame (cfg : Config S) (n : NodeId) (w : World S σ) (p : V3 S) (v : S) :
    ((execReq cfg n (.goto p) w).1 = w ∨
      (execReq cfg n (.goto p) w).1 = { w with target := upd w.target n (some p) }) ∧
    ((execReq cfg n (.gotoGeo p) w).1 = w ∨
      (execReq cfg n (.gotoGeo p) w).1 =
        { w with target := upd w.target n (some (Geo.geoToCartesian cfg.refGeo p)) }) ∧
    ((execReq cfg n (.setSpeed v) w).1 = w ∨
      (execReq cfg n (.setSpeed v) w).1 = { w with speed := upd w.speed n v }) ∧
    (∀ r : Request S, (r = .goto p ∨ r = .gotoGeo p ∨ r = .setSpeed v) →
      (execReq cfg n r w).2 = true ∧
      (execReq cfg n r w).1.pos = w.pos ∧
      (∀ m, m ≠ n → (execReq cfg n r w).1.target m = w.target m) ∧
      (∀ m, m ≠ n → (execReq cfg n r w).1.speed m = w.speed m) ∧
      (r = .setSpeed v → (execReq cfg n r w).1.target = w.target) ∧
      (r ≠ .setSpeed v → (execReq cfg n r w).1.speed = w.speed) ∧
      (execReq cfg n r w).1.loop = w.loop ∧ (execReq cfg n r w).1.raccepted = w.raccepted ∧
      (execReq cfg n r w).1.range = w.range) := by
  refine ⟨?_, ?_, ?_, ?_⟩
  · cases hm : cfg.hasMob <;> simp [execReq, hm]
  · cases hm : cfg.hasMob <;> simp [execReq, hm]
  · cases hm : cfg.hasMob <;> simp [execReq, hm]
  · intro r hr
    rcases hr with rfl | rfl | rfl <;> cases hm : cfg.hasMob <;>
      simp [execReq, hm, upd] <;> intro m hmn <;> simp [hmn]

/-- what a goto does when a mobility handler is configured: the node's target becomes `p` -/
theorem C11_goto_sets_target (cfg : Config S) (hm : cfg.hasMob = true) (n : NodeId) (w : World S σ)
    (p : V3 S) : (execReq cfg n (.goto p) w).1.target n = some p ∧
      (execReq cfg n (.goto p) w).1.speed n = w.speed n := by
  simp [execReq, hm, upd]

theorem C11_setSpeed_sets_speed (cfg : Config S) (hm : cfg.hasMob = true) (n : NodeId)
    (w : World S σ) (v : S) : (execReq cfg n (.setSpeed v) w).1.speed n = v ∧
      (execReq cfg n (.setSpeed v) w).1.target n = w.target n := by
  simp [execReq, hm, upd]

/-- the nodes' loop of one mobility update, over an arbitrary duplicate-free list of nodes -/
theorem tick_fold (cfg : Config S) (ns : List NodeId) (hnd : ns.Nodup) (w : World S σ) :
    let w' := ns.foldl (fun w n =>
      let p := Mobility.step cfg.dtS (w.pos n) (w.target n) (w.speed n)
      sched w.loop.now (.telemetry n p) { w with pos := upd w.pos n p }) w
    w'.target = w.target ∧ w'.speed = w.speed ∧ w'.range = w.range ∧
    ∀ m, w'.pos m = if m ∈ ns then Mobility.step cfg.dtS (w.pos m) (w.target m) (w.speed m)
      else w.pos m := by
  induction ns generalizing w with
  | nil => simp
  | cons a as ih =>
    have hnd' := (List.nodup_cons.mp hnd)
    intro w'
    have ih' := ih hnd'.2 (sched w.loop.now (.telemetry a
      (Mobility.step cfg.dtS (w.pos a) (w.target a) (w.speed a)))
      { w with pos := upd w.pos a (Mobility.step cfg.dtS (w.pos a) (w.target a) (w.speed a)) })
    simp only at ih'
    obtain ⟨h1, h2, h3, h4⟩ := ih'
    refine ⟨h1, h2, h3, ?_⟩
    intro m
    have := h4 m
    simp only [List.foldl_cons, w'] at this ⊢
    rw [this]
    by_cases hma : m = a
    · subst hma
      simp [hnd'.1, sched, upd]
    · simp [hma, sched, upd]

/-- one mobility update applies `Mobility.step` to every node's own position, target and speed (all
    read before the update), and changes no target and no speed -/
theorem C11_tick_applies_step (cfg : Config S) (w : World S σ) :
    (mobTick cfg w).target = w.target ∧ (mobTick cfg w).speed = w.speed ∧
    ∀ m, (mobTick cfg w).pos m =
      if m < cfg.nNodes then Mobility.step cfg.dtS (w.pos m) (w.target m) (w.speed m) else w.pos m := by
  have h := tick_fold cfg (List.range cfg.nNodes) List.nodup_range w
  simp only at h
  obtain ⟨h1, h2, _, h4⟩ := h
  refine ⟨h1, h2, ?_⟩
  intro m
  have := h4 m
  simp only [List.mem_range] at this
  exact this

end anyScalar

/-! ### metric clauses, over ℝ -/

/-- the code's distance is the Euclidean distance -/
theorem codeDist_real (cur tgt : V3 ℝ) : codeDist cur tgt = edist3 cur tgt := rfl

/-- the step over ℝ in closed form -/
theorem step_real (dtS : ℝ) (cur tgt : V3 ℝ) (speed : ℝ) :
    Mobility.step dtS cur (some tgt) speed =
      if edist3 cur tgt ≤ speed * dtS then tgt
      else ⟨cur.x + (tgt.x - cur.x) * (speed * dtS / edist3 cur tgt),
            cur.y + (tgt.y - cur.y) * (speed * dtS / edist3 cur tgt),
            cur.z + (tgt.z - cur.z) * (speed * dtS / edist3 cur tgt)⟩ := by
  unfold Mobility.step edist3
  simp only [ge_eq, sub_eq, mul_eq, add_eq, sq_eq, sqrt_eq, div_eq]

/-- a partial step: `speed·dt < d`.  The new position is `cur + λ·(tgt − cur)` with
    `λ = speed·dt/d ∈ [0,1)` — a point of the segment from `cur` to `tgt` —, exactly `speed·dt` away
    from the old position and `d − speed·dt` away from the target; the two distances add up to `d`
    (the equality case of the triangle inequality: the three points are collinear, the new one
    between the other two). -/
theorem C11_advance (dtS : ℝ) (cur tgt : V3 ℝ) (speed : ℝ) (hs : 0 ≤ speed) (hdt : 0 < dtS)
    (h : speed * dtS < edist3 cur tgt) :
    let new := Mobility.step dtS cur (some tgt) speed
    let d := edist3 cur tgt
    let l := speed * dtS / d
    0 ≤ l ∧ l < 1 ∧
    new.x = cur.x + l * (tgt.x - cur.x) ∧ new.y = cur.y + l * (tgt.y - cur.y) ∧
    new.z = cur.z + l * (tgt.z - cur.z) ∧
    edist3 cur new = speed * dtS ∧ edist3 new tgt = d - speed * dtS ∧
    edist3 cur new + edist3 new tgt = edist3 cur tgt := by
  intro new d l
  have hm : 0 ≤ speed * dtS := mul_nonneg hs hdt.le
  have hd : 0 < d := lt_of_le_of_lt hm h
  have hl0 : 0 ≤ l := div_nonneg hm hd.le
  have hl1 : l < 1 := (div_lt_one hd).mpr h
  have hnew : new = ⟨cur.x + (tgt.x - cur.x) * l, cur.y + (tgt.y - cur.y) * l,
      cur.z + (tgt.z - cur.z) * l⟩ := by
    show Mobility.step dtS cur (some tgt) speed = _
    rw [step_real, if_neg (not_le.mpr h)]
  have hx : new.x = cur.x + l * (tgt.x - cur.x) := by rw [hnew]; ring
  have hy : new.y = cur.y + l * (tgt.y - cur.y) := by rw [hnew]; ring
  have hz : new.z = cur.z + l * (tgt.z - cur.z) := by rw [hnew]; ring
  have e1 : edist3 cur new = speed * dtS := by
    rw [edist3_lerp_left cur tgt new l hl0 hx hy hz]
    show speed * dtS / d * d = speed * dtS
    field_simp
  have e2 : edist3 new tgt = d - speed * dtS := by
    rw [edist3_lerp_right cur tgt new l hl1.le hx hy hz]
    show (1 - speed * dtS / d) * d = d - speed * dtS
    field_simp
  refine ⟨hl0, hl1, hx, hy, hz, e1, e2, ?_⟩
  rw [e1, e2]; ring

/-- every update (partial step or arrival): the node moves by `min (speed·dt) d` and the remaining
    distance is `d − min (speed·dt) d`; in particular it never overshoots (`moved ≤ d`) and never
    moves faster than its speed (`moved ≤ speed·dt`) -/
theorem C11_step_min (dtS : ℝ) (cur tgt : V3 ℝ) (speed : ℝ) (hs : 0 ≤ speed) (hdt : 0 < dtS) :
    let new := Mobility.step dtS cur (some tgt) speed
    let d := edist3 cur tgt
    edist3 cur new = min (speed * dtS) d ∧ edist3 new tgt = d - min (speed * dtS) d := by
  intro new d
  by_cases h : edist3 cur tgt ≤ speed * dtS
  · have hnew : new = tgt := by
      show Mobility.step dtS cur (some tgt) speed = _
      rw [step_real, if_pos h]
    rw [hnew, min_eq_right h, edist3_self]
    exact ⟨rfl, by ring⟩
  · have h' := not_le.mp h
    obtain ⟨_, _, _, _, _, e1, e2, _⟩ := C11_advance dtS cur tgt speed hs hdt h'
    rw [min_eq_left h'.le]
    exact ⟨e1, e2⟩

/-- the positions of a node under a fixed target and speed: `traj … k` after `k` updates -/
noncomputable def traj (dtS speed : ℝ) (tgt p0 : V3 ℝ) : Nat → V3 ℝ
  | 0 => p0
  | k + 1 => Mobility.step dtS (traj dtS speed tgt p0 k) (some tgt) speed

/-- fixed target and speed: after `k` updates the remaining distance is `max 0 (d₀ − k·speed·dt)`;
    the node is exactly on the target at every update `k` with `d₀ ≤ k·speed·dt` — i.e. from update
    `⌈d₀/(speed·dt)⌉` on when `speed > 0` — and stays there -/
theorem C11_trajectory (dtS speed : ℝ) (tgt p0 : V3 ℝ) (hs : 0 ≤ speed) (hdt : 0 < dtS) :
    (∀ k : Nat, edist3 (traj dtS speed tgt p0 k) tgt = max 0 (edist3 p0 tgt - k * (speed * dtS))) ∧
    (∀ k : Nat, edist3 p0 tgt ≤ k * (speed * dtS) → traj dtS speed tgt p0 k = tgt) ∧
    (0 < speed → ∀ k : Nat, ⌈edist3 p0 tgt / (speed * dtS)⌉₊ ≤ k → traj dtS speed tgt p0 k = tgt) ∧
    (∀ k : Nat, traj dtS speed tgt p0 k = tgt → ∀ j, k ≤ j → traj dtS speed tgt p0 j = tgt) := by
  have hm : 0 ≤ speed * dtS := mul_nonneg hs hdt.le
  have hdist : ∀ k : Nat,
      edist3 (traj dtS speed tgt p0 k) tgt = max 0 (edist3 p0 tgt - k * (speed * dtS)) := by
    intro k
    induction k with
    | zero =>
      simp only [traj, Nat.cast_zero, zero_mul, sub_zero]
      exact (max_eq_right (edist3_nonneg _ _)).symm
    | succ k ih =>
      have h2 : edist3 (Mobility.step dtS (traj dtS speed tgt p0 k) (some tgt) speed) tgt =
          edist3 (traj dtS speed tgt p0 k) tgt - min (speed * dtS) (edist3 (traj dtS speed tgt p0 k) tgt) :=
        (C11_step_min dtS (traj dtS speed tgt p0 k) tgt speed hs hdt).2
      show edist3 (Mobility.step dtS (traj dtS speed tgt p0 k) (some tgt) speed) tgt = _
      rw [h2, ih]
      push_cast
      rcases le_total (speed * dtS) (max 0 (edist3 p0 tgt - k * (speed * dtS))) with hc | hc
      · rw [min_eq_left hc]
        rcases le_total 0 (edist3 p0 tgt - k * (speed * dtS)) with hp | hp
        · rw [max_eq_right hp] at hc ⊢
          rw [max_eq_right (by linarith)]; ring
        · rw [max_eq_left hp] at hc ⊢
          have : speed * dtS = 0 := le_antisymm hc hm
          rw [max_eq_left (by linarith)]; linarith
      · rw [min_eq_right hc, sub_self]
        have : edist3 p0 tgt - k * (speed * dtS) ≤ speed * dtS := le_trans (le_max_right _ _) hc
        rw [max_eq_left (by linarith)]
  have hon : ∀ k : Nat, edist3 p0 tgt ≤ k * (speed * dtS) → traj dtS speed tgt p0 k = tgt := by
    intro k hk
    have := hdist k
    rw [max_eq_left (by linarith)] at this
    exact (edist3_eq_zero_iff _ _).mp this
  refine ⟨hdist, hon, ?_, ?_⟩
  · intro hsp k hk
    apply hon
    have hpos : 0 < speed * dtS := mul_pos hsp hdt
    have h1 : edist3 p0 tgt / (speed * dtS) ≤ (k : ℝ) := by
      exact le_trans (Nat.le_ceil _) (by exact_mod_cast hk)
    exact (div_le_iff₀ hpos).mp h1
  · intro k hk j hkj
    induction j, hkj using Nat.le_induction with
    | base => exact hk
    | succ j hj ih =>
      show Mobility.step dtS (traj dtS speed tgt p0 j) (some tgt) speed = tgt
      rw [ih, step_real, if_pos]
      rw [edist3_self]; exact hm

/-- no overshoot along the whole trajectory: the remaining distance never increases -/
theorem C11_remaining_antitone (dtS speed : ℝ) (tgt p0 : V3 ℝ) (hs : 0 ≤ speed) (hdt : 0 < dtS)
    (k : Nat) : edist3 (traj dtS speed tgt p0 (k + 1)) tgt ≤ edist3 (traj dtS speed tgt p0 k) tgt := by
  have h : edist3 (Mobility.step dtS (traj dtS speed tgt p0 k) (some tgt) speed) tgt =
      edist3 (traj dtS speed tgt p0 k) tgt - min (speed * dtS) (edist3 (traj dtS speed tgt p0 k) tgt) :=
    (C11_step_min dtS (traj dtS speed tgt p0 k) tgt speed hs hdt).2
  show edist3 (Mobility.step dtS (traj dtS speed tgt p0 k) (some tgt) speed) tgt ≤ _
  rw [h]
  have : 0 ≤ min (speed * dtS) (edist3 (traj dtS speed tgt p0 k) tgt) :=
    le_min (mul_nonneg hs hdt.le) (edist3_nonneg _ _)
  linarith

/-! ### non-vacuity -/

/-- a partial step: from the origin towards (3,4,0) (distance 5) at speed 2, dt 1/2: the hypothesis
    of `C11_advance` holds, and the node lands on (3/5, 4/5, 0) -/
example : (2 : ℝ) * (1 / 2) < edist3 ⟨0, 0, 0⟩ ⟨3, 4, 0⟩ ∧
    Mobility.step (1 / 2 : ℝ) ⟨0, 0, 0⟩ (some ⟨3, 4, 0⟩) 2 = ⟨3 / 5, 4 / 5, 0⟩ := by
  have hd : edist3 ⟨0, 0, 0⟩ ⟨3, 4, 0⟩ = 5 := by
    unfold edist3
    rw [show ((3:ℝ) - 0) ^ 2 + (4 - 0) ^ 2 + (0 - 0) ^ 2 = 5 ^ 2 by norm_num]
    exact Real.sqrt_sq (by norm_num)
  refine ⟨by rw [hd]; norm_num, ?_⟩
  rw [step_real, hd, if_neg (by norm_num)]
  congr 1 <;> norm_num

/-- an arrival: the same node at speed 16 reaches the target in one update -/
example : Mobility.step (1 / 2 : ℝ) ⟨0, 0, 0⟩ (some ⟨3, 4, 0⟩) 16 = ⟨3, 4, 0⟩ := by
  have hd : edist3 ⟨0, 0, 0⟩ ⟨3, 4, 0⟩ = 5 := by
    unfold edist3
    rw [show ((3:ℝ) - 0) ^ 2 + (4 - 0) ^ 2 + (0 - 0) ^ 2 = 5 ^ 2 by norm_num]
    exact Real.sqrt_sq (by norm_num)
  rw [step_real, hd, if_pos (by norm_num)]

/-- a trajectory: distance 5, speed·dt = 2: remaining 5, 3, 1, 0, 0 — on target from update
    ⌈5/2⌉ = 3 on -/
example : ⌈(5 : ℝ) / (4 * (1 / 2))⌉₊ = 3 := by
  rw [Nat.ceil_eq_iff (by norm_num)]; norm_num

end C11
