import GradysProofs.Properties.C05
/-
  C06 — runs are reproducible and independent of how they are driven or observed.
  Only two clauses are statements about the model: the trace is a function of (configuration incl.
  the draw stream, program), and blocking start equals manual stepping. Independence from logging,
  profiling, pacing, the hash seed and earlier simulations in the process is runtime behaviour that
  the model cannot exhibit; it is decided by paired executions of the implementation against this
  single model trace (see harness/props_c06.py), and labelled as sampled in the evidence.
-/
set_option linter.unusedSectionVars false

namespace C06
open Sim
variable {S σ : Type} [Scalar S]

/-- the model run is a function of the scenario (configuration, including the values the random
    generator returns) and the protocol programs: identical inputs give the identical world, hence the
    identical sequence of protocol-visible callbacks -/
theorem C06_model_is_function (cfg cfg' : Config S) (P P' : NodeId → Proto S σ) (n : Nat)
    (hc : cfg = cfg') (hp : P = P') :
    (steps cfg P n (init cfg P)).trace = (steps cfg' P' n (init cfg' P')).trace := by
  subst hc; subst hp; rfl

/-- driven by the blocking call or step by step (with any number of extra steps after completion)
    a completed run ends in the same world -/
theorem C06_driving_independent (cfg : Config S) (P : NodeId → Proto S σ) (fuel : Nat)
    (hc : (start cfg P fuel (init cfg P)).finalized = true) :
    ∃ n, ∀ m, n ≤ m →
      (steps cfg P m (init cfg P)).trace = (start cfg P fuel (init cfg P)).trace := by
  obtain ⟨n, hn⟩ := C05.C05_driving_independent cfg P fuel (init cfg P) hc
  exact ⟨n, fun m hm => by rw [hn m hm]⟩

end C06
