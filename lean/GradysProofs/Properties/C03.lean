import GradysProofs.Lemmas.ELHist
import GradysProofs.Lemmas.SimStep
import GradysModel.Heap
/-
  C03 — events due at the same instant run in the order they were requested (FIFO).
  `seq` is the request order (`WInv.acc_sorted`: accepted requests carry strictly increasing `seq`).
-/
set_option linter.unusedSectionVars false

namespace C03
open Sim
variable {S σ : Type} [Scalar S] {K : Type}

/-- sequence numbers are the request order: the accepted requests, oldest first, carry strictly
    increasing `seq` -/
theorem C03_seq_is_request_order {cfg : Config S} (hdt : 0 ≤ cfg.dt) {P : NodeId → Proto S σ}
    {w : World S σ} (h : Reachable cfg P w) : w.accepted.Pairwise (fun a b => a.seq < b.seq) := by
  unfold World.accepted
  exact List.pairwise_reverse.mpr (reachable_inv hdt h).acc_sorted

/-- along every run the executed events' (ts, seq) is strictly increasing -/
theorem C03_exec_key_strictly_increasing {cfg : Config S} (hdt : 0 ≤ cfg.dt)
    {P : NodeId → Proto S σ} {w : World S σ} (h : Reachable cfg P w) :
    w.executed.Pairwise keyLt := by
  unfold World.executed
  exact List.pairwise_reverse.mpr (reachable_inv hdt h).exec_sorted

/-- FIFO: if `a` was requested before `b` (smaller `seq`) and is due no later, and both have
    executed, then `a` executed first: it sits at a smaller index of the executed list. In
    particular for equal timestamps. -/
theorem C03_fifo {cfg : Config S} (hdt : 0 ≤ cfg.dt) {P : NodeId → Proto S σ} {w : World S σ}
    (h : Reachable cfg P w) (i j : Nat) (hi : i < w.executed.length) (hj : j < w.executed.length)
    (hts : w.executed[i].ts ≤ w.executed[j].ts) (hseq : w.executed[i].seq < w.executed[j].seq) :
    i < j := by
  have hp := C03_exec_key_strictly_increasing hdt h
  rcases Nat.lt_trichotomy i j with hlt | heq | hgt
  · exact hlt
  · subst heq; omega
  · have := List.pairwise_iff_getElem.mp hp j i hj hi hgt
    unfold keyLt at this
    omega

/-- a queued event never overtakes an executed one: everything still queued is later in (ts, seq)
    than everything executed -/
theorem C03_queue_after_executed {cfg : Config S} (hdt : 0 ≤ cfg.dt) {P : NodeId → Proto S σ}
    {w : World S σ} (h : Reachable cfg P w) : ∀ a ∈ w.executed, ∀ b ∈ w.loop.queue, keyLt a b := by
  intro a ha b hb
  exact (reachable_inv hdt h).exec_lt_queue a (List.mem_reverse.mp ha) b hb

/-- messages on one link with a fixed delay, and same-instant timers of one node: a later request
    with a due time not earlier gets a later key, so (by `C03_fifo`) it is handled later -/
theorem C03_later_request_later_key {cfg : Config S} (hdt : 0 ≤ cfg.dt) {P : NodeId → Proto S σ}
    {w : World S σ} (h : Reachable cfg P w) (ts : Int) (k : EvKind S) :
    ∀ a ∈ w.raccepted, a.ts ≤ ts → keyLt a ⟨ts, w.loop.nextSeq, k⟩ := by
  intro a ha hle
  have := (reachable_inv hdt h).acc_seq_lt a ha
  unfold keyLt
  simp only
  omega

/-- the bare queue, for every history of inserts interleaved with removals: the popped events are
    strictly increasing in (ts, seq), and the event `pop` returns is the least queued one -/
theorem C03_el_history_fifo (ops : List (ELOp K)) :
    let g := (ELG.init : ELG K).run ops
    g.popped.reverse.Pairwise keyLt ∧ g.l.queue.Pairwise keyLt := by
  intro g
  have inv := ELG.run_inv _ ops (ELG.init_inv (K := K))
  exact ⟨List.pairwise_reverse.mpr inv.popped_sorted, inv.sorted⟩

theorem C03_el_pop_least (ops : List (ELOp K)) (e : Ev K) (l' : EL K)
    (h : ((EL.empty : EL K).run ops).1.pop = .ok (e, l')) : ∀ x ∈ l'.queue, keyLt e x := by
  have inv := ELG.run_inv _ ops (ELG.init_inv (K := K))
  have hl : ((EL.empty : EL K).run ops).1 = ((ELG.init : ELG K).run ops).l := (ELG.run_l ELG.init ops).symm
  rw [hl] at h
  simp only [EL.pop] at h
  split at h
  · cases h
  · rename_i x xs hq
    injection h with h
    obtain ⟨rfl, rfl⟩ := Prod.mk.inj h
    exact sorted_head_least (hq ▸ inv.sorted)

/-- non-vacuity / the documented finding F03 in model terms: four same-time requests pop FIFO -/
example : (((EL.empty : EL Nat).run [.schedule 1 0, .schedule 1 1, .schedule 1 2, .schedule 1 3,
    .pop, .pop, .pop, .pop]).2.filterMap (fun o => match o with | .ev (some e) => some e.kind | _ => none))
    = [0, 1, 2, 3] := by decide

end C03

/-! ### finding F03, documented on the faithful port of `heapq.py` -/
namespace C03
open Heap

/-- with the pinned timestamp-only `__lt__`, four events scheduled for the same instant in order
    0,1,2,3 pop as 0,2,1,3 — the literal FIFO statement is false of the pinned code -/
theorem C03_ts_only_heap_not_fifo : drain ltTs (pushAll ltTs 4) 4 = [0, 2, 1, 3] := by decide

/-- with the repaired (ts, seq) order the same port pops bursts of 8 FIFO (a test of the port, not
    the unbounded claim — that is `C03_fifo` on the model the correspondence ties to the code) -/
theorem C03_key_heap_fifo_8 : drain ltKey (pushAll ltKey 8) 8 = [0, 1, 2, 3, 4, 5, 6, 7] := by decide

end C03
