import GradysProofs.Lemmas.ELHist
import GradysProofs.Lemmas.SimStep
import GradysModel.Heap
import GradysProofs.Lemmas.HeapRefine
/-
  C03 — events due at the same instant run in the order they were requested (FIFO).
  `seq` is the request order (`WInv.acc_sorted`: accepted requests carry strictly increasing `seq`).
-/
set_option linter.unusedSectionVars false

namespace C03
open Sim
variable {S σ : Type} [Scalar S] {K : Type}

/-- sequence numbers are the request order: the accepted requests, oldest first, carry strictly
    increasing `seq` -/
theorem C03_seq_is_request_order {cfg : Config S} (hdt : 0 ≤ cfg.dt) {P : NodeId → Proto S σ}
    {w : World S σ} (h : Reachable cfg P w) : w.accepted.Pairwise (fun a b => a.seq < b.seq) := by
  unfold World.accepted
  exact List.pairwise_reverse.mpr (reachable_inv hdt h).acc_sorted

/-- along every run the executed events' (ts, seq) is strictly increasing -/
theorem C03_exec_key_strictly_increasing {cfg : Config S} (hdt : 0 ≤ cfg.dt)
    {P : NodeId → Proto S σ} {w : World S σ} (h : Reachable cfg P w) :
    w.executed.Pairwise keyLt := by
  unfold World.executed
  exact List.pairwise_reverse.mpr (reachable_inv hdt h).exec_sorted

/-- FIFO: if `a` was requested before `b` (smaller `seq`) and is due no later, and both have
    executed, then `a` executed first: it sits at a smaller index of the executed list. In
    particular for equal timestamps. -/
theorem C03_fifo {cfg : Config S} (hdt : 0 ≤ cfg.dt) {P : NodeId → Proto S σ} {w : World S σ}
    (h : Reachable cfg P w) (i j : Nat) (hi : i < w.executed.length) (hj : j < w.executed.length)
    (hts : w.executed[i].ts ≤ w.executed[j].ts) (hseq : w.executed[i].seq < w.executed[j].seq) :
    i < j := by
  have hp := C03_exec_key_strictly_increasing hdt h
  rcases Nat.lt_trichotomy i j with hlt | heq | hgt
  · exact hlt
  · subst heq; omega
  · have := List.pairwise_iff_getElem.mp hp j i hj hi hgt
    unfold keyLt at this
    omega

/-- a queued event never overtakes an executed one: everything still queued is later in (ts, seq)
    than everything executed -/
theorem C03_queue_after_executed {cfg : Config S} (hdt : 0 ≤ cfg.dt) {P : NodeId → Proto S σ}
    {w : World S σ} (h : Reachable cfg P w) : ∀ a ∈ w.executed, ∀ b ∈ w.loop.queue, keyLt a b := by
  intro a ha b hb
  exact (reachable_inv hdt h).exec_lt_queue a (List.mem_reverse.mp ha) b hb

/-- the same three statements for every run of a *tolerant stepped driver* (`ReachableT`: steps, requests issued
    from outside, and steps out of which a callback's exception escaped while the caller kept stepping, in
    any order): sequence numbers are still the request order, the executed keys are still strictly increasing
    - so FIFO among ties survives an escaped exception - and nothing queued overtakes anything executed -/
theorem C03_fifo_tolerant {cfg : Config S} (hdt : 0 ≤ cfg.dt) {P : NodeId → Proto S σ}
    {w : World S σ} (h : ReachableT cfg P w) :
    w.accepted.Pairwise (fun a b => a.seq < b.seq) ∧ w.executed.Pairwise keyLt ∧
    (∀ a ∈ w.executed, ∀ b ∈ w.loop.queue, keyLt a b) ∧
    (∀ i j (hi : i < w.executed.length) (hj : j < w.executed.length),
      w.executed[i].ts ≤ w.executed[j].ts → w.executed[i].seq < w.executed[j].seq → i < j) := by
  have inv := reachableT_inv hdt h
  have hp : w.executed.Pairwise keyLt := by
    unfold World.executed; exact List.pairwise_reverse.mpr inv.exec_sorted
  refine ⟨?_, hp, ?_, ?_⟩
  · unfold World.accepted; exact List.pairwise_reverse.mpr inv.acc_sorted
  · intro a ha b hb; exact inv.exec_lt_queue a (List.mem_reverse.mp ha) b hb
  · intro i j hi hj hts hseq
    rcases Nat.lt_trichotomy i j with hlt | heq | hgt
    · exact hlt
    · subst heq; omega
    · have := List.pairwise_iff_getElem.mp hp j i hj hi hgt
      unfold keyLt at this
      omega

/-- messages on one link with a fixed delay, and same-instant timers of one node: a later request
    with a due time not earlier gets a later key, so (by `C03_fifo`) it is handled later -/
theorem C03_later_request_later_key {cfg : Config S} (hdt : 0 ≤ cfg.dt) {P : NodeId → Proto S σ}
    {w : World S σ} (h : Reachable cfg P w) (ts : Int) (k : EvKind S) :
    ∀ a ∈ w.raccepted, a.ts ≤ ts → keyLt a ⟨ts, w.loop.nextSeq, k⟩ := by
  intro a ha hle
  have := (reachable_inv hdt h).acc_seq_lt a ha
  unfold keyLt
  simp only
  omega

/-- the bare queue, for every history of inserts interleaved with removals: the popped events are
    strictly increasing in (ts, seq), and the event `pop` returns is the least queued one -/
theorem C03_el_history_fifo (ops : List (ELOp K)) :
    let g := (ELG.init : ELG K).run ops
    g.popped.reverse.Pairwise keyLt ∧ g.l.queue.Pairwise keyLt := by
  intro g
  have inv := ELG.run_inv _ ops (ELG.init_inv (K := K))
  exact ⟨List.pairwise_reverse.mpr inv.popped_sorted, inv.sorted⟩

theorem C03_el_pop_least (ops : List (ELOp K)) (e : Ev K) (l' : EL K)
    (h : ((EL.empty : EL K).run ops).1.pop = .ok (e, l')) : ∀ x ∈ l'.queue, keyLt e x := by
  have inv := ELG.run_inv _ ops (ELG.init_inv (K := K))
  have hl : ((EL.empty : EL K).run ops).1 = ((ELG.init : ELG K).run ops).l := (ELG.run_l ELG.init ops).symm
  rw [hl] at h
  simp only [EL.pop] at h
  split at h
  · cases h
  · rename_i x xs hq
    injection h with h
    obtain ⟨rfl, rfl⟩ := Prod.mk.inj h
    exact sorted_head_least (hq ▸ inv.sorted)

/-- non-vacuity / the documented finding F03 in model terms: four same-time requests pop FIFO -/
example : (((EL.empty : EL Nat).run [.schedule 1 0, .schedule 1 1, .schedule 1 2, .schedule 1 3,
    .pop, .pop, .pop, .pop]).2.filterMap (fun o => match o with | .ev (some e) => some e.kind | _ => none))
    = [0, 1, 2, 3] := by decide

end C03

/-! ### finding F03, documented on the faithful port of `heapq.py` -/
namespace C03
open Heap

/-- with the pinned timestamp-only `__lt__`, four events scheduled for the same instant in order
    0,1,2,3 pop as 0,2,1,3 — the literal FIFO statement is false of the pinned code -/
theorem C03_ts_only_heap_not_fifo : drain ltTs (pushAll ltTs 4) 4 = [0, 2, 1, 3] := by decide

/-- with the repaired (ts, seq) order the same port pops bursts of 8 FIFO (a test of the port, not
    the unbounded claim — that is `C03_fifo` on the model the correspondence ties to the code) -/
theorem C03_key_heap_fifo_8 : drain ltKey (pushAll ltKey 8) 8 = [0, 1, 2, 3, 4, 5, 6, 7] := by decide

end C03

/-! ### the port of `heapq.py` refines the sorted-list queue

  This removes "the heap behaves like the stably sorted list" from the trusted base: the queue of
  `GradysModel/Queue.lean` (on which C01–C03 are proved) and the real `heapq` algorithm
  (`GradysModel/Heap.lean`) are observationally equal under the repaired (ts, seq) `Event.__lt__`.
  Lemmas: `GradysProofs/Lemmas/HeapRefine.lean`. -/
namespace C03
open Heap
variable {α K : Type}

/-- the order hypothesis of the two theorems below, `StrictWeakOn lt P` (irreflexive, transitive and
    `¬ >` transitive on the elements satisfying `P`), holds for every `lt` that is a strict total
    order on the elements present: irreflexive, transitive, total on distinct elements -/
theorem C03_strict_total_is_strict_weak {lt : α → α → Bool} {P : α → Prop}
    (irrefl : ∀ a, P a → lt a a = false)
    (trans : ∀ a b c, P a → P b → P c → lt a b = true → lt b c = true → lt a c = true)
    (total : ∀ a b, P a → P b → a ≠ b → lt a b = true ∨ lt b a = true) : StrictWeakOn lt P :=
  StrictWeakOn.of_total irrefl trans total

/-- `heappush`, when `lt` is a strict weak order on the elements present (`P` holds of the heap's
    elements and of the new one): the heap invariant `∀ i > 0, ¬ a[i] < a[(i-1)/2]` is preserved and
    the contents are the old contents plus the new element -/
theorem C03_heappush_valid_perm {lt : α → α → Bool} {P : α → Prop} (sw : StrictWeakOn lt P)
    {h : Array α} (hall : ∀ y ∈ h.toList, P y) (hinv : HeapInv lt h) (x : α) (hx : P x) :
    HeapInv lt (heappush lt h x) ∧ (heappush lt h x).toList.Perm (x :: h.toList) :=
  heappush_spec_on sw (AllP.of_mem hall) hinv x hx

/-- `heappop`: `none` on the empty heap; on a non-empty valid heap it returns an element `e` than
    which no element of the heap is smaller, leaves a valid heap, and old contents = `e` + new contents -/
theorem C03_heappop_min_valid_perm {lt : α → α → Bool} {P : α → Prop} (sw : StrictWeakOn lt P)
    {h : Array α} (hall : ∀ y ∈ h.toList, P y) (hinv : HeapInv lt h) :
    (h.size = 0 → heappop lt h = none) ∧
    (0 < h.size → ∃ e h', heappop lt h = some (e, h') ∧ (∀ y ∈ h.toList, lt y e = false) ∧
      HeapInv lt h' ∧ h.toList.Perm (e :: h'.toList)) := by
  refine ⟨heappop_empty lt h, fun hne => ?_⟩
  obtain ⟨h', hp, hinv', hperm⟩ := heappop_spec_on sw (AllP.of_mem hall) hinv hne
  exact ⟨_, h', hp, heappop_min_on sw (AllP.of_mem hall) hinv hp, hinv', hperm⟩

/-- fuel: the loops of the port stop by themselves within the fuel it passes (the array size) —
    the results are those of *any* fuel `≥ len - 1`, for every order and every array -/
theorem C03_heapq_fuel_suffices (lt : α → α → Bool) (h : Array α) (x : α) :
    (∀ fuel, h.size ≤ fuel → siftdown lt (h.push x) 0 h.size x fuel = heappush lt h x) ∧
    (∀ f1 f2, h.size - 1 ≤ f1 → h.size - 1 ≤ f2 → heappopFuel lt h f1 f2 = heappop lt h) :=
  ⟨fun fuel hf => heappush_fuel lt h x fuel hf, fun f1 f2 h1 h2 => heappop_fuel lt h f1 f2 h1 h2⟩

/-- push step of the refinement (`Rel h q`: `h` a valid (ts, seq)-heap, contents a permutation of
    `q`, `q` strictly sorted by (ts, seq)): if the new sequence number exceeds all queued ones,
    `heappush` is stable insertion -/
theorem C03_heapq_push_refines {h : Array (Ev K)} {q : List (Ev K)} (r : Rel h q) (e : Ev K)
    (hseq : ∀ x ∈ q, x.seq < e.seq) : Rel (heappush keyLtb h e) (insertEv e q) :=
  r.push e hseq

/-- pop step of the refinement: the heap pops exactly the head of the sorted list -/
theorem C03_heapq_pop_refines {h : Array (Ev K)} {e : Ev K} {rest : List (Ev K)}
    (r : Rel h (e :: rest)) : ∃ h', heappop keyLtb h = some (e, h') ∧ Rel h' rest :=
  r.pop

/-- for every history of the public `EventLoop` API, the event loop on the real heap (`HEL`:
    `heappush`/`heappop`/`heap[0]`/`len(heap)`) and the sorted-list loop `EL` of `Queue.lean` return
    the same outputs — the same events in the same order, the same errors, lengths and clock —
    and end in related states -/
theorem C03_heapq_refines_sorted_queue (ops : List (ELOp K)) :
    ((HEL.empty : HEL K).run ops).2 = ((EL.empty : EL K).run ops).2 ∧
    HRel ((HEL.empty : HEL K).run ops).1 ((EL.empty : EL K).run ops).1 :=
  HRel.empty.run ops

/-- non-vacuity: the heap loop really runs; same-time requests pop FIFO, earlier times first -/
example : (((HEL.empty : HEL Nat).run [.schedule 2 0, .schedule 1 1, .schedule 1 2, .schedule 1 3,
    .pop, .pop, .schedule 1 4, .pop, .pop, .pop]).2.filterMap
      (fun o => match o with | .ev (some e) => some e.kind | _ => none))
    = [1, 2, 3, 4, 0] := by decide

end C03

