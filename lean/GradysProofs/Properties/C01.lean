import GradysProofs.Lemmas.ELHist
import GradysProofs.Lemmas.SimTrace
/-
  C01 — simulated time never runs backwards and callbacks see their due time.
  All simulator theorems hold for every configuration, node count and protocol program
  (`P : NodeId → Proto S σ` is an arbitrary family of interaction trees), at every reachable world.
  Guard `0 ≤ cfg.dt`: with a negative update interval the real `MobilityHandler.inject` raises at
  construction, so no run exists.
-/
set_option linter.unusedSectionVars false

namespace C01
open Sim
variable {S σ : Type} [Scalar S] {K : Type}

/-- nothing is ever queued for the past -/
theorem C01_inv_queue_ge_now {cfg : Config S} (hdt : 0 ≤ cfg.dt) {P : NodeId → Proto S σ}
    {w : World S σ} (h : Reachable cfg P w) : ∀ e ∈ w.loop.queue, w.loop.now ≤ e.ts :=
  (reachable_inv hdt h).ge_now

/-- events are executed in non-decreasing timestamp order — including events scheduled from inside
    callbacks, zero-delay and same-instant requests -/
theorem C01_exec_times_monotone {cfg : Config S} (hdt : 0 ≤ cfg.dt) {P : NodeId → Proto S σ}
    {w : World S σ} (h : Reachable cfg P w) : w.executed.Pairwise (fun a b => a.ts ≤ b.ts) := by
  unfold World.executed
  exact List.pairwise_reverse.mpr ((reachable_inv hdt h).exec_sorted.imp keyLt_ts_le)

/-- the clock never decreases from one step to the next, and equals the last executed event's time -/
theorem C01_clock_monotone {cfg : Config S} (hdt : 0 ≤ cfg.dt) {P : NodeId → Proto S σ}
    {w : World S σ} (h : Reachable cfg P w) : w.loop.now ≤ (step cfg P w).1.loop.now :=
  (step_inv cfg hdt P w (reachable_inv hdt h)).2

/-- the times reported to protocol callbacks (initialize … finish), in trace order, never decrease -/
theorem C01_trace_times_monotone {cfg : Config S} (hdt : 0 ≤ cfg.dt) {P : NodeId → Proto S σ}
    {w : World S σ} (h : Reachable cfg P w) : (cbTimes w.trace).Pairwise (fun a b => a ≤ b) := by
  have := (reachable_tinv hdt h).mono
  unfold World.trace cbTimes
  rw [List.filterMap_reverse]
  exact List.pairwise_reverse.mpr this

/-- the same under a tolerant stepped driver (`ReachableT`: steps out of which a callback's exception escaped are
    part of the run): the times reported to callbacks never decrease, executed timestamps never decrease -/
theorem C01_times_monotone_tolerant {cfg : Config S} (hdt : 0 ≤ cfg.dt) {P : NodeId → Proto S σ}
    {w : World S σ} (h : ReachableT cfg P w) :
    (cbTimes w.trace).Pairwise (fun a b => a ≤ b) ∧ w.executed.Pairwise (fun a b => a.ts ≤ b.ts) := by
  constructor
  · have := (reachableT_tinv hdt h).mono
    unfold World.trace cbTimes
    rw [List.filterMap_reverse]
    exact List.pairwise_reverse.mpr this
  · unfold World.executed
    exact List.pairwise_reverse.mpr ((reachableT_inv hdt h).exec_sorted.imp keyLt_ts_le)

/-- every callback run while executing event `e` reports exactly `e.ts` (the instant it was due),
    provided a timer handler — the only source of the clock for protocols — is configured
    (without one `PythonProvider.current_time()` returns 0 by documented design) -/
theorem C01_callback_time_eq_due (cfg : Config S) (hdt : 0 ≤ cfg.dt) (P : NodeId → Proto S σ)
    (e : Ev (EvKind S)) (rest : List (Ev (EvKind S))) (w : World S σ) :
    ∃ l, (execStep cfg P e rest w).rtrace = l ++ w.rtrace ∧
      ∀ n cb t, Obs.callback n cb t ∈ l → t = if cfg.hasTimer then e.ts else 0 := by
  rw [execStep_eq]
  have e1 := (ext_execEv cfg hdt P e (popped e rest w)).trans
    (ext_logAll cfg (fun h => Obs.afterStep h (execEv cfg P e (popped e rest w)).iter e.ts)
      (by intro h n cb t e; cases e) cfg.handlers _)
  obtain ⟨l, hl, ht⟩ := e1.trace_ext
  exact ⟨l, hl, ht⟩

/-- the due time of a timer event is the requested time; a request for the past is refused and
    changes nothing -/
theorem C01_timer_due (cfg : Config S) (ht : cfg.hasTimer = true) (n : NodeId) (name : String)
    (at_ : Int) (w : World S σ) :
    (at_ < w.loop.now → execReq cfg n (.setTimer name at_) w = (w, false)) ∧
    (w.loop.now ≤ at_ → (execReq cfg n (.setTimer name at_) w).2 = true ∧
      (execReq cfg n (.setTimer name at_) w).1.raccepted =
        ⟨at_, w.loop.nextSeq, .timerFire n name (w.nextTimer n)⟩ :: w.raccepted) := by
  constructor
  · intro h; simp [execReq, ht, h]
  · intro h
    have : ¬ at_ < w.loop.now := by omega
    simp [execReq, ht, this, sched]

/-- the due time of a delivery is the send time plus the configured delay (the send time itself
    when the delay is not positive) -/
theorem C01_delivery_due (cfg : Config S) (src dst : NodeId) (msg : String) (w : World S σ) :
    (transmit cfg src dst msg w).raccepted = w.raccepted ∨
    (transmit cfg src dst msg w).raccepted =
      ⟨w.loop.now + max cfg.delay 0, w.loop.nextSeq, .deliver dst src msg⟩ :: w.raccepted := by
  unfold transmit
  simp only
  have hd : (consumeDraw cfg w).2.loop = w.loop ∧ (consumeDraw cfg w).2.raccepted = w.raccepted := by
    unfold consumeDraw; split <;> exact ⟨rfl, rfl⟩
  split
  · right
    simp only [sched, deliverTime, hd.1, hd.2]
    congr 2
    split <;> omega
  · left; exact hd.2

/-- the bare event loop: a schedule request for the past is refused; a pop never moves the clock
    backwards, for every history of API calls -/
theorem C01_el_history (ops : List (ELOp K)) :
    let g := (ELG.init : ELG K).run ops
    (∀ e ∈ g.l.queue, g.l.now ≤ e.ts) ∧ g.popped.Pairwise (fun a b => b.ts ≤ a.ts) ∧
    (∀ a ∈ g.popped, a.ts ≤ g.l.now) := by
  intro g
  have inv := ELG.run_inv _ ops (ELG.init_inv (K := K))
  exact ⟨inv.ge_now, inv.popped_sorted.imp keyLt_ts_le, inv.popped_le_now⟩

theorem C01_past_refused (l : EL K) (ts : Int) (k : K) (h : ts < l.now) :
    l.schedule ts k = .error .past := by
  simp [EL.schedule, h]

/-- non-vacuity: a history with a refused past request (`schedule 2` after popping 3) -/
example : (((EL.empty : EL Nat).run [.schedule 3 0, .pop, .schedule 2 1, .schedule 3 2, .pop]).2.map
    (fun o => match o with | .err .past => 1 | _ => 0)) = [0, 0, 1, 0, 0] := by decide

end C01
