import GradysProofs.Lemmas.SimCount
/-
  C07 — timers fire once, on time, for their owner, unless cancelled by name.
  How the clauses compose into the run-level property, for every program and history:
   * `C07_set_spec`      an accepted set creates exactly one event at the requested time and one
                         pending entry with a fresh identifier; a past request is refused, no effect;
   * C02 / C01           that event executes exactly once, when the clock equals the requested time;
   * `C07_fire_spec`     when it executes, `handle_timer(name)` is called on the owner iff the entry is
                         still pending, and the entry is forgotten BEFORE the handler runs;
   * `C07_cancel_frame`  entries disappear only by firing or by the owner's `cancel(name)`, which
                         removes all and only the owner's entries of that name;
   * `C07_pending_inv`   identifiers are unique, every pending entry has its event queued, timer
                         events are pairwise distinct — so the above is unambiguous.
  The composition itself is kernel-checked as RUN-LEVEL COUNTING over the trace of every reachable
  world, for every configuration with a timer handler and every protocol program (end of this file):
   * `C07_run_count`     per (node, name, time): accepted sets = executed + queued timer events;
                         `handle_timer` calls ≤ executed events; calls + queued ≤ accepted sets;
   * `C07_run_no_cancel` if the node never had `cancel_timer(name)` accepted: calls = executed events
                         and calls + queued = accepted sets (nothing is lost);
   * `C07_run_exhausted` empty queue: calls ≤ accepted sets, with equality without a cancel.
-/
set_option linter.unusedSectionVars false

namespace C07
open Sim
variable {S σ : Type} [Scalar S]

/-- in every reachable world: ids fresh and unique, each pending timer has its event in the queue,
    distinct timer events never share (node, id) -/
theorem C07_pending_inv {cfg : Config S} (hdt : 0 ≤ cfg.dt) {P : NodeId → Proto S σ}
    {w : World S σ} (h : Reachable cfg P w) : PInv w := reachable_pinv hdt h

/-- the same when callbacks may let exceptions escape under a driver that keeps stepping (`ReachableT`): a timer
    whose handler raised is gone like any timer that fired, everybody else's bookkeeping is untouched -/
theorem C07_pending_inv_tolerant {cfg : Config S} (hdt : 0 ≤ cfg.dt) {P : NodeId → Proto S σ}
    {w : World S σ} (h : ReachableT cfg P w) : PInv w := reachableT_pinv hdt h

/-- ... hence exactly one queued event per pending timer: two queued events for the same (node, id)
    are the same event -/
theorem C07_one_event_per_timer {cfg : Config S} (hdt : 0 ≤ cfg.dt) {P : NodeId → Proto S σ}
    {w : World S σ} (h : Reachable cfg P w) :
    w.loop.queue.Pairwise
      (fun a b => ∀ n na nb id, a.kind = .timerFire n na id → b.kind = .timerFire n nb id → False) := by
  have hp := reachable_pinv hdt h
  have hw := reachable_inv hdt h
  have hsub : (w.rexecuted ++ w.loop.queue).Pairwise
      (fun a b => ∀ n na nb id, a.kind = .timerFire n na id → b.kind = .timerFire n nb id → False) := by
    refine (List.Perm.pairwise_iff ?_ hw.perm).mpr hp.ev_unique
    intro a b hab n na nb id h1 h2
    exact hab n nb na id h2 h1
  exact (List.pairwise_append.mp hsub).2.1

/-- set: refused without effect in the past; otherwise exactly one event at the requested time, one
    new pending entry `(n, name, fresh id)`, nothing else about timers changes -/
theorem C07_set_spec (cfg : Config S) (ht : cfg.hasTimer = true) (n : NodeId) (name : String)
    (at_ : Int) (w : World S σ) :
    (at_ < w.loop.now → execReq cfg n (.setTimer name at_) w = (w, false)) ∧
    (w.loop.now ≤ at_ →
      (execReq cfg n (.setTimer name at_) w).2 = true ∧
      (execReq cfg n (.setTimer name at_) w).1.pending = (n, name, w.nextTimer n) :: w.pending ∧
      (execReq cfg n (.setTimer name at_) w).1.loop.queue =
        insertEv ⟨at_, w.loop.nextSeq, .timerFire n name (w.nextTimer n)⟩ w.loop.queue) ∧
    (PInv w → (n, name, w.nextTimer n) ∉ w.pending) := by
  refine ⟨?_, ?_, ?_⟩
  · intro h; simp [execReq, ht, h]
  · intro h
    have hn : ¬ at_ < w.loop.now := by omega
    exact ⟨by simp [execReq, ht, hn], by simp [execReq, ht, hn], by simp [execReq, ht, hn, sched, EL.push]⟩
  · intro hp hm
    have := hp.id_lt _ hm
    simp at this

/-- cancel: removes all and only the caller's pending entries of that name; other names, other
    nodes, the queue and the clock are untouched; never fails -/
theorem C07_cancel_frame (cfg : Config S) (ht : cfg.hasTimer = true) (n : NodeId) (name : String)
    (w : World S σ) :
    (execReq cfg n (.cancelTimer name) w).2 = true ∧
    (∀ p, p ∈ (execReq cfg n (.cancelTimer name) w).1.pending ↔
      p ∈ w.pending ∧ ¬ (p.1 = n ∧ p.2.1 = name)) ∧
    (execReq cfg n (.cancelTimer name) w).1.loop = w.loop ∧
    (execReq cfg n (.cancelTimer name) w).1.nextTimer = w.nextTimer := by
  simp only [execReq, ht, Bool.not_true, Bool.false_eq_true, if_false]
  refine ⟨trivial, ?_, trivial, trivial⟩
  intro p
  simp only [List.mem_filter, Bool.not_eq_true', Bool.and_eq_false_imp, beq_iff_eq, beq_eq_false_iff_ne,
    ne_eq, and_congr_right_iff]
  intro _
  constructor
  · intro h hc; exact h hc.1 hc.2
  · intro h h1 h2; exact h ⟨h1, h2⟩

/-- timers set after a cancel are unaffected by it: cancel then set leaves the new entry pending -/
theorem C07_set_after_cancel (cfg : Config S) (ht : cfg.hasTimer = true) (n : NodeId)
    (name : String) (at_ : Int) (w : World S σ) :
    let w1 := (execReq cfg n (.cancelTimer name) w).1
    w1.loop.now ≤ at_ →
      (n, name, w1.nextTimer n) ∈ (execReq cfg n (.setTimer name at_) w1).1.pending := by
  intro w1 h
  have hn : ¬ at_ < w1.loop.now := by omega
  simp [execReq, ht, hn]

/-- fire: when the event `timerFire n name id` is executed, `handle_timer(name)` runs on `n` — and
    only there — iff `(n, name, id)` is still pending; the entry is removed before the handler runs,
    so the handler may set or cancel the same name freely; a cancelled timer's event does nothing -/
theorem C07_fire_spec (cfg : Config S) (P : NodeId → Proto S σ) (ts : Int) (seq : Nat)
    (n : NodeId) (name : String) (id : Nat) (w : World S σ) :
    ((n, name, id) ∈ w.pending →
      execEv cfg P ⟨ts, seq, .timerFire n name id⟩ w =
        callback cfg P n (.timer name) { w with pending := w.pending.erase (n, name, id) }) ∧
    ((n, name, id) ∉ w.pending → execEv cfg P ⟨ts, seq, .timerFire n name id⟩ w = w) := by
  constructor
  · intro h
    simp only [execEv]
    rw [if_pos (List.contains_iff_mem.mpr h)]
  · intro h
    simp only [execEv]
    rw [if_neg (fun hc => h (List.contains_iff_mem.mp hc))]

/-- re-entrancy: inside the handler the fired timer is already forgotten (ids are unique), so a
    cancel of the same name from inside the handler cannot fail and cannot "un-fire" anything -/
theorem C07_reentrant {cfg : Config S} (hdt : 0 ≤ cfg.dt) {P : NodeId → Proto S σ} {w : World S σ}
    (h : Reachable cfg P w) (n : NodeId) (name : String) (id : Nat) :
    (n, name, id) ∉ w.pending.erase (n, name, id) := by
  intro hm
  exact ((reachable_pinv hdt h).nodup.mem_erase_iff.mp hm).1 rfl

/-- a `handle_timer` call happens only by executing a timer event of that node and name that is
    still pending: never on another node, never with another name, never spontaneously -/
theorem C07_timer_only_from_its_event (cfg : Config S) (P : NodeId → Proto S σ) (e : Ev (EvKind S))
    (w : World S σ) (n : NodeId) (name : String) (t : Int)
    (h : Obs.callback n (.timer name) t ∈ (execEv cfg P e w).rtrace)
    (hn : Obs.callback n (.timer name) t ∉ w.rtrace) :
    ∃ id, e.kind = .timerFire n name id ∧ (n, name, id) ∈ w.pending := by
  have key : ∀ (n' : NodeId) (cb : Callback S) (w' : World S σ), w'.rtrace = w.rtrace →
      Obs.callback n (.timer name) t ∈ (callback cfg P n' cb w').rtrace →
      Obs.callback n' cb (reportedTime cfg w') = Obs.callback n (.timer name) t := by
    intro n' cb w' hw' hm
    obtain ⟨l, hl, hq⟩ := callback_rtrace cfg P n' cb w'
    rw [hl] at hm
    rcases List.mem_append.mp hm with hm | hm
    · exact absurd (hq _ hm) (by simp [Obs.isRequestOf])
    · rcases List.mem_cons.mp hm with hm | hm
      · exact hm.symm
      · rw [hw'] at hm; exact absurd hm hn
  unfold execEv at h
  split at h
  · rename_i n' name' id' hk
    split at h
    · rename_i hc
      have := key _ _ { w with pending := w.pending.erase _ } rfl h
      injection this with h1 h2 _
      injection h2 with h2
      subst h1; subst h2
      exact ⟨id', hk, List.contains_iff_mem.mp hc⟩
    · exact absurd h hn
  · have := key _ _ w rfl h; injection this with _ h2 _; cases h2
  · rw [mobTick_rtrace] at h; exact absurd h hn
  · have := key _ _ w rfl h; injection this with _ h2 _; cases h2

/-! ### run level: counting over the trace of every reachable world
    (`firedT`, `accSetT`, `queuedT`, `execdT`: `Lemmas/SimCount.lean`) -/

/-- For every node, timer name and time `t`, in every reachable world:
    * every accepted `set_timer(name, t)` created exactly one event for that node, name and time,
      which is either still queued or was executed (exactly once, C02);
    * `handle_timer(name)` reporting time `t` happens only by executing such an event, at most once per
      event — so it reports the requested time, for the requesting node, with the requested name;
    * hence callbacks + still-queued events never exceed the accepted requests. -/
theorem C07_run_count {cfg : Config S} (ht : cfg.hasTimer = true) (hdt : 0 ≤ cfg.dt)
    {P : NodeId → Proto S σ} {w : World S σ} (h : Reachable cfg P w) (n : NodeId) (name : String) (t : Int) :
    accSetT w n name t = execdT w n name t + queuedT w n name t ∧
    firedT w n name t ≤ execdT w n name t ∧
    firedT w n name t + queuedT w n name t ≤ accSetT w n name t := by
  have h1 := reachable_count (spec_setT σ ht n name t) h
  have h2 := reachable_count (spec_firedT σ ht n name t) h
  have h3 := winv_countP (reachable_inv hdt h) (isTimerEv n name t)
  simp only [mA_left, mA_right, mT] at h1 h2
  unfold accSetT execdT queuedT firedT
  rw [trace_countP, trace_countP, executed_countP]
  omega

/-- `C07_run_count` for every run of a *tolerant stepped driver* (`ReachableT`: an exception escaping a callback
    while the caller keeps stepping): still one event per accepted `set_timer`, executed once or queued; still no
    `handle_timer` call without its event and at most one per event -/
theorem C07_run_count_tolerant {cfg : Config S} (ht : cfg.hasTimer = true) (hdt : 0 ≤ cfg.dt)
    {P : NodeId → Proto S σ} {w : World S σ} (h : ReachableT cfg P w) (n : NodeId) (name : String) (t : Int) :
    accSetT w n name t = execdT w n name t + queuedT w n name t ∧
    firedT w n name t ≤ execdT w n name t ∧
    firedT w n name t + queuedT w n name t ≤ accSetT w n name t := by
  have h1 := reachableT_count (spec_setT σ ht n name t) h
  have h2 := reachableT_count (spec_firedT σ ht n name t) h
  have h3 := winv_countP (reachableT_inv hdt h) (isTimerEv n name t)
  simp only [mA_left, mA_right, mT] at h1 h2
  unfold accSetT execdT queuedT firedT
  rw [trace_countP, trace_countP, executed_countP]
  omega

/-- the same with the created events named: accepted sets = created events = executed + queued -/
theorem C07_run_created {cfg : Config S} (ht : cfg.hasTimer = true) (hdt : 0 ≤ cfg.dt)
    {P : NodeId → Proto S σ} {w : World S σ} (h : Reachable cfg P w) (n : NodeId) (name : String) (t : Int) :
    accSetT w n name t = createdT w n name t ∧
    createdT w n name t = execdT w n name t + queuedT w n name t := by
  have h1 := reachable_count (spec_setT σ ht n name t) h
  have h3 := winv_countP (reachable_inv hdt h) (isTimerEv n name t)
  simp only [mA_left, mT] at h1
  unfold accSetT createdT execdT queuedT
  rw [trace_countP, accepted_countP, executed_countP]
  omega

/-- if node `n` never had a `cancel_timer(name)` accepted, nothing of `(n, name)` is ever lost: every
    executed timer event made its `handle_timer(name)` call, so the calls reporting time `t` plus the
    events still queued for `t` are EXACTLY the accepted `set_timer(name, t)` requests -/
theorem C07_run_no_cancel {cfg : Config S} (ht : cfg.hasTimer = true) (hdt : 0 ≤ cfg.dt)
    {P : NodeId → Proto S σ} {w : World S σ} (h : Reachable cfg P w) (n : NodeId) (name : String)
    (hnc : accCancelT w n name = 0) (t : Int) :
    firedT w n name t = execdT w n name t ∧
    firedT w n name t + queuedT w n name t = accSetT w n name t := by
  have hc := C07_run_count ht hdt h n name t
  have hnc' : noCancel n name w := by
    unfold accCancelT at hnc; rw [trace_countP] at hnc; exact hnc
  have he := (reachable_finv (n := n) (name := name) ht hdt h).eq hnc' t
  have : firedT w n name t = execdT w n name t := by
    unfold firedT execdT; rw [trace_countP, executed_countP]; exact he
  omega

/-- an exhausted run (empty queue): every `handle_timer(name)` call on `n` reporting `t` is accounted
    for by an accepted `set_timer(name, t)` of `n`, at most one call per request; and if `n` never had
    a `cancel_timer(name)` accepted, EVERY accepted request fired exactly once, at its time -/
theorem C07_run_exhausted {cfg : Config S} (ht : cfg.hasTimer = true) (hdt : 0 ≤ cfg.dt)
    {P : NodeId → Proto S σ} {w : World S σ} (h : Reachable cfg P w) (hq : w.loop.queue = [])
    (n : NodeId) (name : String) (t : Int) :
    firedT w n name t ≤ accSetT w n name t ∧
    (accCancelT w n name = 0 → firedT w n name t = accSetT w n name t) := by
  have hc := C07_run_count ht hdt h n name t
  have hq0 : queuedT w n name t = 0 := by unfold queuedT; rw [hq]; rfl
  refine ⟨by omega, fun hnc => ?_⟩
  have := C07_run_no_cancel ht hdt h n name hnc t
  omega

/-- non-vacuity of the run-level hypotheses: the freshly built simulation is reachable, with an empty
    queue when there is no mobility handler -/
example (cfg : Config S) (P : NodeId → Proto S σ) (hm : cfg.hasMob = false) :
    Reachable cfg P (init cfg P) ∧ (init cfg P).loop.queue = [] := by
  refine ⟨reachable_of_steps cfg P 0, ?_⟩
  rw [init_eq]; simp [hm, init0, EL.empty]

/-- Requests issued through a node's provider between `build()` and the first step are part of every
    run-level statement above: `Reachable` starts from `initWith cfg P pre` for an arbitrary list `pre` of
    such requests. A timer set there for a time `t ≥ 0` is accepted like any other -/
theorem C07_prestart_timer_accepted (cfg : Config S) (ht : cfg.hasTimer = true) (P : NodeId → Proto S σ)
    (pre : List (NodeId × Prog S σ)) (n : NodeId) (name : String) (t : Int) (h0 : 0 ≤ t) :
    (execReq cfg n (.setTimer name t) (initWith cfg P pre)).2 = true ∧
    ∀ k, Reachable cfg P (steps cfg P k
      (initWith cfg P (pre ++ [(n, Prog.req (.setTimer name t) (fun _ => Prog.done (P n).init))]))) := by
  have hnow : (initWith cfg P pre).loop.now = 0 := by
    rw [(ext_initWith cfg P pre).now_eq, init_eq]; split <;> rfl
  refine ⟨?_, fun k => reachable_of_pre cfg P _ k⟩
  have : ¬ t < (initWith cfg P pre).loop.now := by omega
  simp [execReq, ht, this]

/-- non-vacuity: set then fire on a concrete world shape -/
example (cfg : Config S) (ht : cfg.hasTimer = true) (w : World S σ) (h0 : w.loop.now = 0) :
    (execReq cfg 3 (.setTimer "a" 5) w).2 = true := by
  have : ¬ (5 : Int) < w.loop.now := by omega
  simp [execReq, ht, this]

end C07
