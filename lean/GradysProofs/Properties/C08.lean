import GradysProofs.Lemmas.SimCount
/-
  C08 — a message in range is delivered exactly once, intact, to exactly its addressees.
  Hypotheses of the positive statements: a communication handler is configured, the medium is
  loss-free (`failure_rate > 0` is false) and the addressees are in the sender's range.
  Composition with C02 (every accepted event executes exactly once, none is invented) and C01
  (it executes at its timestamp) gives the run-level statement: the theorems below say that a
  command creates exactly the delivery events of its addressees, due at send time + delay, and that
  executing such an event is one `handle_packet` call with the unchanged payload on the addressee.
  The composition itself is kernel-checked as RUN-LEVEL COUNTING over the trace of every reachable
  world, for every configuration and every protocol program (end of this file):
   * `C08_run_count` / `C08_run_count_any_time`  `handle_packet(msg)` calls on `dst` (reporting `t`) =
                         executed delivery events for `(dst, msg)` (due at `t`); created = executed + queued;
   * `C08_run_addressees`  for EVERY medium: created delivery events for `(dst, msg)` ≤ accepted
                         `send(msg, dst)` + accepted `broadcast(msg)` by nodes other than `dst`;
   * `C08_run_lossfree_equality`  loss-free, every range test of the run true: the bound is an equality;
   * `C08_run_exactly_once`  ... and on an exhausted run `handle_packet(msg)` calls on `dst` are exactly
                         the accepted requests addressing `dst` with `msg`.
-/
set_option linter.unusedSectionVars false

namespace C08
open Sim
variable {S σ : Type} [Scalar S]

theorem deliverTime_eq (cfg : Config S) (w : World S σ) : deliverTime cfg w = w.loop.now + max cfg.delay 0 := by
  unfold deliverTime; split <;> omega

/-- an accepted unicast creates exactly one event: the delivery to the named node, due at send
    time + max delay 0 -/
theorem C08_unicast (cfg : Config S) (hc : cfg.hasComm = true)
    (hl : Scalar.gt cfg.failRate (Scalar.ofInt 0) = false) (n d : Nat) (msg : String)
    (hd : d ≠ n) (hdn : d < cfg.nNodes) (w : World S σ) (hr : inRange w n d = true) :
    (execReq cfg n (.send msg (some (d : Int))) w).2 = true ∧
    (execReq cfg n (.send msg (some (d : Int))) w).1.raccepted =
      ⟨w.loop.now + max cfg.delay 0, w.loop.nextSeq, .deliver d n msg⟩ :: w.raccepted := by
  have h1 : ¬ ((d : Int) = (n : Int)) := by omega
  have h2 : ¬ ((d : Int) < 0 ∨ (d : Int) ≥ (cfg.nNodes : Int)) := by omega
  simp only [execReq, hc, Bool.not_true, Bool.false_eq_true, if_false, h1, h2, Int.toNat_natCast]
  refine ⟨trivial, ?_⟩
  rw [transmit_raccepted, ((consumeDraw_spec cfg w).1.2 hl).1, hr, deliverTime_eq]
  simp

/-- sending to oneself, to an unknown node or without a destination raises and changes nothing -/
theorem C08_invalid_refused (cfg : Config S) (hc : cfg.hasComm = true) (n : NodeId) (msg : String)
    (w : World S σ) :
    execReq cfg n (.send msg none) w = (w, false) ∧
    execReq cfg n (.send msg (some (n : Int))) w = (w, false) ∧
    (∀ d : Int, d < 0 ∨ d ≥ cfg.nNodes → execReq cfg n (.send msg (some d)) w = (w, false)) := by
  refine ⟨by simp [execReq, hc], by simp [execReq, hc], ?_⟩
  intro d hd
  simp only [execReq, hc, Bool.not_true, Bool.false_eq_true, if_false]
  split
  · rfl
  · first | rfl | rw [if_pos hd]

/-- a loss-free broadcast with every other node in range creates exactly one delivery per node
    other than the sender, in node order, all due at send time + max delay 0, and none for the sender -/
theorem broadcastTo_lossfree (cfg : Config S) (hl : Scalar.gt cfg.failRate (Scalar.ofInt 0) = false)
    (src : NodeId) (msg : String) (dsts : List NodeId) (w : World S σ)
    (hr : ∀ d ∈ dsts, d ≠ src → inRange w src d = true) :
    ∃ new, (broadcastTo cfg src msg dsts w).raccepted = new ++ w.raccepted ∧
      new.reverse.map (fun e => (e.ts, e.kind)) =
        (dsts.filter (· ≠ src)).map (fun d => (w.loop.now + max cfg.delay 0, EvKind.deliver d src msg)) := by
  induction dsts generalizing w with
  | nil => exact ⟨[], rfl, rfl⟩
  | cons d ds ih =>
    unfold broadcastTo
    simp only [List.foldl_cons]
    by_cases hd : d = src
    · subst hd
      simp only [if_true]
      obtain ⟨new, h1, h2⟩ := ih w (fun x hx => hr x (List.mem_cons_of_mem _ hx))
      refine ⟨new, h1, ?_⟩
      rw [h2]; simp
    · simp only [if_neg hd]
      have hfr := transmit_frame cfg src d msg w
      have hacc : (transmit cfg src d msg w).raccepted =
          ⟨w.loop.now + max cfg.delay 0, w.loop.nextSeq, .deliver d src msg⟩ :: w.raccepted := by
        rw [transmit_raccepted, ((consumeDraw_spec cfg w).1.2 hl).1, hr d List.mem_cons_self hd, deliverTime_eq]
        simp
      have hr' : ∀ x ∈ ds, x ≠ src → inRange (transmit cfg src d msg w) src x = true := by
        intro x hx hne
        have := hr x (List.mem_cons_of_mem _ hx) hne
        unfold inRange at this ⊢
        rw [hfr.1, hfr.2.1]; exact this
      obtain ⟨new, h1, h2⟩ := ih (transmit cfg src d msg w) hr'
      refine ⟨new ++ [⟨w.loop.now + max cfg.delay 0, w.loop.nextSeq, .deliver d src msg⟩], ?_, ?_⟩
      · show (broadcastTo cfg src msg ds (transmit cfg src d msg w)).raccepted = _
        rw [h1, hacc]; simp
      · rw [List.reverse_append, List.map_append, h2, hfr.2.2.2.2.2.2]
        simp [hd]

theorem C08_broadcast (cfg : Config S) (hc : cfg.hasComm = true)
    (hl : Scalar.gt cfg.failRate (Scalar.ofInt 0) = false) (n : NodeId) (msg : String) (w : World S σ)
    (hr : ∀ d, d < cfg.nNodes → d ≠ n → inRange w n d = true) :
    (execReq cfg n (.broadcast msg) w).2 = true ∧
    ∃ new, (execReq cfg n (.broadcast msg) w).1.raccepted = new ++ w.raccepted ∧
      new.reverse.map (fun e => (e.ts, e.kind)) =
        ((List.range cfg.nNodes).filter (· ≠ n)).map
          (fun d => (w.loop.now + max cfg.delay 0, EvKind.deliver d n msg)) := by
  simp only [execReq, hc, Bool.not_true, Bool.false_eq_true, if_false]
  exact ⟨trivial, broadcastTo_lossfree cfg hl n msg _ w
    (fun d hd hne => hr d (List.mem_range.mp hd) hne)⟩

/-- executing a delivery event is exactly one `handle_packet(msg)` on the addressee, reporting the
    event's time, with the payload unchanged -/
theorem C08_deliver_callback (cfg : Config S) (P : NodeId → Proto S σ) (ts : Int) (seq : Nat)
    (dst src : NodeId) (msg : String) (w : World S σ) :
    execEv cfg P ⟨ts, seq, .deliver dst src msg⟩ w = callback cfg P dst (.packet msg) w ∧
    ∃ l, (callback cfg P dst (.packet msg) w).rtrace =
        l ++ Obs.callback dst (.packet msg) (reportedTime cfg w) :: w.rtrace ∧
      ∀ o ∈ l, Obs.isRequestOf dst o :=
  ⟨rfl, callback_rtrace cfg P dst (.packet msg) w⟩

/-- a `handle_packet` call happens only when a delivery event for that node with that payload is
    executed: no message is invented or handed to a non-addressee -/
theorem C08_packet_only_from_delivery (cfg : Config S) (P : NodeId → Proto S σ) (e : Ev (EvKind S))
    (w : World S σ) (n : NodeId) (m : String) (t : Int)
    (h : Obs.callback n (.packet m) t ∈ (execEv cfg P e w).rtrace)
    (hn : Obs.callback n (.packet m) t ∉ w.rtrace) : ∃ src, e.kind = .deliver n src m := by
  have key : ∀ (n' : NodeId) (cb : Callback S) (w' : World S σ), w'.rtrace = w.rtrace →
      Obs.callback n (.packet m) t ∈ (callback cfg P n' cb w').rtrace →
      Obs.callback n' cb (reportedTime cfg w') = Obs.callback n (.packet m) t := by
    intro n' cb w' hw' hm
    obtain ⟨l, hl, hq⟩ := callback_rtrace cfg P n' cb w'
    rw [hl] at hm
    rcases List.mem_append.mp hm with hm | hm
    · exact absurd (hq _ hm) (by simp [Obs.isRequestOf])
    · rcases List.mem_cons.mp hm with hm | hm
      · exact hm.symm
      · rw [hw'] at hm; exact absurd hm hn
  unfold execEv at h
  split at h
  · split at h
    · have := key _ _ { w with pending := w.pending.erase _ } rfl h; injection this with _ h2 _; cases h2
    · exact absurd h hn
  · rename_i dst src msg hk
    have := key _ _ _ rfl h
    injection this with h1 h2 _
    injection h2 with h2
    subst h1; subst h2
    exact ⟨src, hk⟩
  · rw [mobTick_rtrace] at h; exact absurd h hn
  · have := key _ _ _ rfl h; injection this with _ h2 _; cases h2

/-! ### run level: counting over the trace of every reachable world
    (`handledP`, `createdD`, `execdD`, `queuedD`, `createdTo`, `accSendTo`, `accBcastNotBy`:
    `Lemmas/SimCount.lean`) -/

/-- For every node `dst`, payload `msg` and time `t`, in every reachable world:
    `handle_packet(msg)` on `dst` reporting `t` happens exactly by executing a delivery event for that
    node with that payload due at `t` — once per event, never otherwise — and every created delivery
    event is either still queued or was executed exactly once.
    (`cfg.hasComm` is not needed: without a communication handler all four counters are 0.) -/
theorem C08_run_count {cfg : Config S} (ht : cfg.hasTimer = true) (hdt : 0 ≤ cfg.dt)
    {P : NodeId → Proto S σ} {w : World S σ} (h : Reachable cfg P w) (dst : NodeId) (msg : String) (t : Int) :
    handledP w dst msg t = execdD w dst msg t ∧
    createdD w dst msg t = execdD w dst msg t + queuedD w dst msg t := by
  have h1 := reachable_count (spec_handledP σ ht dst msg t) h
  have h3 := winv_countP (reachable_inv hdt h) (isDeliverEv dst msg t)
  simp only [mA_right, mT] at h1
  unfold handledP createdD execdD queuedD
  rw [trace_countP, accepted_countP, executed_countP]
  omega

/-- addressing, for every medium (loss and range only remove copies): the delivery events ever
    created for `(dst, msg)` are at most the accepted `send(msg, dst)` requests plus the accepted
    `broadcast(msg)` requests of nodes other than `dst`. Nothing is duplicated, invented, addressed to
    a non-addressee or to the sender. -/
theorem C08_run_addressees {cfg : Config S} {P : NodeId → Proto S σ} {w : World S σ}
    (h : Reachable cfg P w) (dst : NodeId) (msg : String) :
    createdTo w dst msg ≤ accSendTo w dst msg + accBcastNotBy w dst msg := by
  have h1 := reachable_count (spec_addr σ cfg dst msg) h
  simp only [mA_left, mT] at h1
  unfold createdTo accSendTo accBcastNotBy
  rw [accepted_countP, trace_countP, trace_countP, ← isAddrAcc_count]
  exact h1

/-- the same without the time: `handle_packet(msg)` calls on `dst` = executed delivery events for
    `(dst, msg)`; created = executed + queued. No hypothesis on the configuration at all. -/
theorem C08_run_count_any_time {cfg : Config S} (hdt : 0 ≤ cfg.dt)
    {P : NodeId → Proto S σ} {w : World S σ} (h : Reachable cfg P w) (dst : NodeId) (msg : String) :
    handledTo w dst msg = execdTo w dst msg ∧
    createdTo w dst msg = execdTo w dst msg + queuedTo w dst msg := by
  have h1 := reachable_count (spec_handledTo σ cfg dst msg) h
  have h3 := winv_countP (reachable_inv hdt h) (isDeliverTo dst msg)
  simp only [mA_right, mT] at h1
  unfold handledTo createdTo execdTo queuedTo
  rw [trace_countP, accepted_countP, executed_countP]
  omega

/-- the run-level counting for every run of a *tolerant stepped driver* (`ReachableT`): after any number of
    steps out of which a callback's exception escaped, `handle_packet(msg)` calls on `dst` are still exactly the
    executed delivery events for `(dst, msg)`, every created delivery event is executed once or still queued,
    and the created ones never exceed the accepted `send(msg, dst)` plus the others' accepted `broadcast(msg)` -/
theorem C08_run_count_tolerant {cfg : Config S} (hdt : 0 ≤ cfg.dt)
    {P : NodeId → Proto S σ} {w : World S σ} (h : ReachableT cfg P w) (dst : NodeId) (msg : String) :
    handledTo w dst msg = execdTo w dst msg ∧
    createdTo w dst msg = execdTo w dst msg + queuedTo w dst msg ∧
    createdTo w dst msg ≤ accSendTo w dst msg + accBcastNotBy w dst msg := by
  have h1 := reachableT_count (spec_handledTo σ cfg dst msg) h
  have h2 := reachableT_count (spec_addr σ cfg dst msg) h
  have h3 := winv_countP (reachableT_inv hdt h) (isDeliverTo dst msg)
  simp only [mA_right, mT] at h1
  simp only [mA_left, mT] at h2
  refine ⟨?_, ?_, ?_⟩
  · unfold handledTo execdTo
    rw [trace_countP, executed_countP]; omega
  · unfold createdTo execdTo queuedTo
    rw [accepted_countP, executed_countP]; omega
  · unfold createdTo accSendTo accBcastNotBy
    rw [accepted_countP, trace_countP, trace_countP, ← isAddrAcc_count]
    exact h2

/-- "every `inRange` test made during the first `k` steps of the run succeeded": `RangeOkReq` holds in
    the world in which each `send` / `broadcast` request of the run is executed (`OkSteps` carries it
    through `step`, `execEv`, `callback`, `runProg`) -/
abbrev RangeOkRun (cfg : Config S) (P : NodeId → Proto S σ) (k : Nat) : Prop :=
  OkSteps (RangeOkReq cfg) cfg P k (init cfg P)

/-- loss-free medium and every range test along the run true: the addressing bound is an equality —
    every accepted `send(msg, dst)` and every accepted `broadcast(msg)` of another node created exactly
    one delivery event for `(dst, msg)`, and nothing else did -/
theorem C08_run_lossfree_equality {cfg : Config S} (hc : cfg.hasComm = true)
    (hl : Scalar.gt cfg.failRate (Scalar.ofInt 0) = false) {P : NodeId → Proto S σ} (k : Nat)
    (hok : RangeOkRun cfg P k) (dst : NodeId) (hdst : dst < cfg.nNodes) (msg : String) :
    createdTo (steps cfg P k (init cfg P)) dst msg =
      accSendTo (steps cfg P k (init cfg P)) dst msg + accBcastNotBy (steps cfg P k (init cfg P)) dst msg := by
  have h1 := steps_count (spec_addr_eq σ hc hl dst hdst msg) P k hok
  simp only [mA_left, mT] at h1
  unfold createdTo accSendTo accBcastNotBy
  rw [accepted_countP, trace_countP, trace_countP, ← isAddrAcc_count]
  exact h1

/-- C08 at run level: loss-free medium, every range test true, run exhausted (empty queue) — node
    `dst` handled the payload `msg` exactly once per accepted `send(msg, dst)` and per accepted
    `broadcast(msg)` of another node, and never otherwise -/
theorem C08_run_exactly_once {cfg : Config S} (hc : cfg.hasComm = true)
    (hl : Scalar.gt cfg.failRate (Scalar.ofInt 0) = false) (hdt : 0 ≤ cfg.dt) {P : NodeId → Proto S σ}
    (k : Nat) (hok : RangeOkRun cfg P k) (hq : (steps cfg P k (init cfg P)).loop.queue = [])
    (dst : NodeId) (hdst : dst < cfg.nNodes) (msg : String) :
    handledTo (steps cfg P k (init cfg P)) dst msg =
      accSendTo (steps cfg P k (init cfg P)) dst msg + accBcastNotBy (steps cfg P k (init cfg P)) dst msg := by
  have h1 := C08_run_lossfree_equality hc hl k hok dst hdst msg
  have h2 := C08_run_count_any_time hdt (P := P) (reachable_of_steps cfg P k) dst msg
  have hq0 : queuedTo (steps cfg P k (init cfg P)) dst msg = 0 := by unfold queuedTo; rw [hq]; rfl
  omega

/-- non-vacuity of `RangeOkRun`: it holds for every run when all nodes are always in range -/
example (cfg : Config S) (P : NodeId → Proto S σ) (k : Nat)
    (hall : ∀ (w : World S σ) (a b : NodeId), inRange w a b = true) : RangeOkRun cfg P k := by
  refine okSteps_of_forall (fun n r w => ?_) k _
  cases r with
  | send msg d => cases d <;> simp [RangeOkReq, hall]
  | broadcast msg => intro d _ _; exact hall w n d
  | _ => trivial

/-- non-vacuity: the refusal cases are reachable with a configured handler -/
example (cfg : Config S) (hc : cfg.hasComm = true) (w : World S σ) :
    (execReq cfg 0 (.send "m" none) w).2 = false := by
  rw [(C08_invalid_refused cfg hc 0 "m" w).1]

end C08
