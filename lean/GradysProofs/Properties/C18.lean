import GradysProofs.Lemmas.Assertion
/-
  C18 — simulation assertions fail exactly when, and as soon as, they are violated.
  For every list of decorated assertions registered with one AssertionHandler, every set of nodes with
  their protocol types (`Nodes.isA`: the instance-of relation, so a node of a derived protocol class is a
  node of the stated base type), every timeline of predicate values and every run length N.
  `eager = true` is the repaired bookkeeping (patches/F18.patch), `eager = false` the pinned one.
-/
set_option linter.unusedSectionVars false

namespace C18
open Assertion

/-- after the event of iteration `i` the always-assertion `s` does not hold -/
def Violated (ns : Nodes) : Spec → Nat → Prop
  | .alwaysProto T pred, i => ∃ node, node < ns.n ∧ ns.isA node T = true ∧ pred i node = false
  | .alwaysSim pred, i => pred i = false
  | _, _ => False

/-- the eventually-assertion `s` was never true after any of the `N` executed events
    (for some node of its protocol type, when protocol-scoped) -/
def NeverMet (ns : Nodes) : Spec → Nat → Prop
  | .eventuallySim pred, N => ∀ j, j < N → pred j = false
  | .eventuallyProto T pred, N => ∃ node, node < ns.n ∧ ns.isA node T = true ∧ ∀ j, j < N → pred j node = false
  | _, _ => False

theorem violatedAt_iff (ns : Nodes) (s : Spec) (i : Nat) : s.violatedAt ns i = true ↔ Violated ns s i := by
  cases s with
  | alwaysProto T pred =>
    simp only [Spec.violatedAt, Violated, List.any_eq_true, List.mem_range, Bool.and_eq_true,
      Bool.not_eq_true']
  | alwaysSim pred => simp [Spec.violatedAt, Violated]
  | eventuallyProto T pred => simp [Spec.violatedAt, Violated]
  | eventuallySim pred => simp [Spec.violatedAt, Violated]

theorem neverMet_iff (ns : Nodes) (eager : Bool) (s : Spec) (N : Nat) :
    s.neverMet ns eager N = true ↔
      (NeverMet ns s N ∧ ((∃ T pred, s = .eventuallyProto T pred) → eager = true ∨ 0 < N)) := by
  cases s with
  | alwaysProto T pred => simp [Spec.neverMet, NeverMet]
  | alwaysSim pred => simp [Spec.neverMet, NeverMet]
  | eventuallySim pred =>
    simp only [Spec.neverMet, NeverMet, Bool.not_eq_true', everTrue_eq_false]
    simp
  | eventuallyProto T pred =>
    simp only [Spec.neverMet, NeverMet, Bool.and_eq_true, Bool.or_eq_true, decide_eq_true_eq,
      List.any_eq_true, List.mem_range, Bool.not_eq_true', everTrue_eq_false]
    constructor
    · rintro ⟨h1, h2⟩
      exact ⟨h2, fun _ => h1⟩
    · rintro ⟨h1, h2⟩
      exact ⟨h2 ⟨T, pred, rfl⟩, h1⟩

theorem run_eq (ns : Nodes) (eager : Bool) (specs : List Spec) (N : Nat) :
    run ns eager specs N = runLoop ns N 0 (statesAt ns eager specs 0) := by
  unfold run statesAt
  congr 1
  apply List.map_congr_left
  intro s _
  rw [init_eq_stateAfter]

theorem viol_iff (ns : Nodes) (specs : List Spec) (i : Nat) :
    viol ns specs i = true ↔ ∃ s, s ∈ specs ∧ Violated ns s i := by
  simp only [viol, List.any_eq_true, violatedAt_iff]

theorem viol_false_iff (ns : Nodes) (specs : List Spec) (i : Nat) :
    viol ns specs i = false ↔ ∀ s, s ∈ specs → ¬ Violated ns s i := by
  rw [← Bool.not_eq_true, viol_iff]
  constructor
  · intro h s hs hv; exact h ⟨s, hs, hv⟩
  · rintro h ⟨s, hs, hv⟩; exact h s hs hv

/-- Always-assertions: the run is interrupted with a failure at iteration `i` iff `i` is the least
    executed iteration after which some always-assertion's predicate is false (for some node of its
    type); in particular there is no interrupting failure if there is none. -/
theorem C18_always (ns : Nodes) (eager : Bool) (specs : List Spec) (N i : Nat) :
    (run ns eager specs N).verdict = .failedAfter i ↔
      (i < N ∧ (∃ s, s ∈ specs ∧ Violated ns s i) ∧ ∀ j, j < i → ∀ s, s ∈ specs → ¬ Violated ns s j) := by
  rw [run_eq]
  have h := (runLoop_spec ns eager specs N 0).1 i
  rw [h, viol_iff]
  constructor
  · rintro ⟨_, h2, h3, h4⟩
    exact ⟨by omega, h3, fun j hj => (viol_false_iff ns specs j).mp (h4 j (Nat.zero_le _) hj)⟩
  · rintro ⟨h2, h3, h4⟩
    exact ⟨Nat.zero_le _, by omega, h3, fun j _ hj => (viol_false_iff ns specs j).mpr (h4 j hj)⟩

/-- … and never otherwise -/
theorem C18_always_never_otherwise (ns : Nodes) (eager : Bool) (specs : List Spec) (N : Nat)
    (h : ∀ j, j < N → ∀ s, s ∈ specs → ¬ Violated ns s j) (i : Nat) :
    (run ns eager specs N).verdict ≠ .failedAfter i := by
  intro hv
  obtain ⟨h1, ⟨s, hs, hvi⟩, _⟩ := (C18_always ns eager specs N i).mp hv
  exact h i h1 s hs hvi

/-- Eventually-assertions, any handler: the run fails at finalisation iff no always-assertion
    interrupted it and some eventually-assertion was never met after any executed event — where the
    protocol-scoped ones, with the PINNED bookkeeping (`eager = false`), additionally need `0 < N`. -/
theorem C18_eventually (ns : Nodes) (eager : Bool) (specs : List Spec) (N : Nat) :
    (run ns eager specs N).verdict = .failedAtEnd ↔
      ((∀ j, j < N → ∀ s, s ∈ specs → ¬ Violated ns s j) ∧
       ∃ s, s ∈ specs ∧ NeverMet ns s N ∧ ((∃ T pred, s = .eventuallyProto T pred) → eager = true ∨ 0 < N)) := by
  rw [run_eq]
  have h := (runLoop_spec ns eager specs N 0).2.1
  simp only [Nat.zero_add] at h
  rw [h]
  simp only [endFail, List.any_eq_true, neverMet_iff]
  constructor
  · rintro ⟨h1, h2⟩
    exact ⟨fun j hj => (viol_false_iff ns specs j).mp (h1 j (Nat.zero_le _) hj), h2⟩
  · rintro ⟨h1, h2⟩
    exact ⟨fun j _ hj => (viol_false_iff ns specs j).mpr (h1 j hj), h2⟩

/-- simulation-scoped: fails at finalisation iff the predicate was false after every executed event
    (with zero events: fails) -/
theorem C18_eventually_sim (ns : Nodes) (eager : Bool) (pred : Nat → Bool) (N : Nat) :
    (run ns eager [.eventuallySim pred] N).verdict = .failedAtEnd ↔ ∀ j, j < N → pred j = false := by
  rw [C18_eventually]
  simp [Violated, NeverMet]

/-- protocol-scoped, REPAIRED bookkeeping — the full statement: fails at finalisation iff some node of
    type `T` had the predicate false after every executed event (with zero events: iff there is a node
    of type `T`) -/
theorem C18_eventually_proto (ns : Nodes) (T : PType) (pred : Nat → NodeId → Bool) (N : Nat) :
    (run ns true [.eventuallyProto T pred] N).verdict = .failedAtEnd ↔
      ∃ node, node < ns.n ∧ ns.isA node T = true ∧ ∀ j, j < N → pred j node = false := by
  rw [C18_eventually]
  simp [Violated, NeverMet]

/-- protocol-scoped, PINNED bookkeeping: the same, for runs with at least one executed event.
    FULL statement (no `1 ≤ N`): false for the pinned code, see `C18_eventually_proto_zero_events`. -/
theorem C18_eventually_proto_partial (ns : Nodes) (T : PType) (pred : Nat → NodeId → Bool) (N : Nat)
    (hN : 1 ≤ N) :
    (run ns false [.eventuallyProto T pred] N).verdict = .failedAtEnd ↔
      ∃ node, node < ns.n ∧ ns.isA node T = true ∧ ∀ j, j < N → pred j node = false := by
  rw [C18_eventually]
  have : 0 < N := hN
  simp [Violated, NeverMet, this]

/-- Finding F18: with zero executed events, one node of the asserted type and a predicate that is
    never true, the pinned code PASSES (its per-node dictionary is still empty) … -/
theorem C18_eventually_proto_zero_events :
    (run ⟨1, fun _ T => T == 0⟩ false [.eventuallyProto 0 (fun _ _ => false)] 0) = ⟨0, .passed⟩ ∧
    (run ⟨1, fun _ T => T == 0⟩ false [.eventuallySim (fun _ => false)] 0) = ⟨0, .failedAtEnd⟩ ∧
    (run ⟨1, fun _ T => T == 0⟩ true [.eventuallyProto 0 (fun _ _ => false)] 0) = ⟨0, .failedAtEnd⟩ := by
  decide

/-- … so the full statement, without `1 ≤ N`, is false for the pinned bookkeeping -/
theorem C18_eventually_proto_unguarded_false :
    ¬ (∀ (ns : Nodes) (T : PType) (pred : Nat → NodeId → Bool) (N : Nat),
        (run ns false [.eventuallyProto T pred] N).verdict = .failedAtEnd ↔
          ∃ node, node < ns.n ∧ ns.isA node T = true ∧ ∀ j, j < N → pred j node = false) := by
  intro h
  have h0 := (h ⟨1, fun _ T => T == 0⟩ 0 (fun _ _ => false) 0).mpr ⟨0, by decide, rfl, fun _ _ => rfl⟩
  exact absurd h0 (by decide)

/-- After an interrupting failure the run executes no further event: exactly the events of
    iterations 0 … i ran; a run that is not interrupted executes all `N`. -/
theorem C18_no_event_after_failure (ns : Nodes) (eager : Bool) (specs : List Spec) (N : Nat) :
    (∀ i, (run ns eager specs N).verdict = .failedAfter i → (run ns eager specs N).executed = i + 1 ∧ i + 1 ≤ N) ∧
    ((∀ i, (run ns eager specs N).verdict ≠ .failedAfter i) → (run ns eager specs N).executed = N) := by
  have h := runLoop_spec ns eager specs N 0
  simp only [Nat.zero_add] at h
  refine ⟨?_, ?_⟩
  · intro i hv
    have hi := ((C18_always ns eager specs N i).mp hv).1
    rw [run_eq] at hv ⊢
    exact ⟨h.2.2.1 i hv, hi⟩
  · intro hn
    rw [run_eq] at hn ⊢
    exact h.2.2.2 hn

/-! ### non-vacuity -/

/-- three nodes of types 0,1,0; the predicate of node 2 (the LAST node of type 0) turns false after
    the event of iteration 2 -/
def mixed : Nodes := ⟨3, fun n T => T == (if n = 1 then 1 else 0)⟩

example : run mixed true [.alwaysProto 0 (fun i n => !(n == 2 && i ≥ 2)), .eventuallySim (fun _ => false)] 5
    = ⟨3, .failedAfter 2⟩ := by decide

/-- the same predicate asserted for type 1 never fails; the eventually-assertion is met at iteration 4 -/
example : run mixed true [.alwaysProto 1 (fun i n => !(n == 2 && i ≥ 2)), .eventuallyProto 0 (fun i _ => i == 4)] 5
    = ⟨5, .passed⟩ := by decide

/-- … and is missed when the run stops one event earlier -/
example : run mixed false [.alwaysProto 1 (fun i n => !(n == 2 && i ≥ 2)), .eventuallyProto 0 (fun i _ => i == 4)] 4
    = ⟨4, .failedAtEnd⟩ := by decide

/-- a class hierarchy: nodes 0 and 2 run class 0, node 1 runs class 1, both derive from class 7 (a common base
    protocol).  An always-assertion stated for the BASE class is violated by a node of a derived class … -/
def derived : Nodes := Nodes.ofClasses 3 (fun n => if n = 1 then 1 else 0) (fun _ T => T == 7)

example : run derived true [.alwaysProto 7 (fun i n => !(n == 1 && i ≥ 2))] 5 = ⟨3, .failedAfter 2⟩ := by decide

/-- … stated for class 0 the same predicate never fails (node 1 is no instance of class 0); an
    eventually-assertion stated for the base class waits for the nodes of every derived class -/
example : run derived true [.alwaysProto 0 (fun i n => !(n == 1 && i ≥ 2)),
    .eventuallyProto 7 (fun i n => i == n)] 3 = ⟨3, .passed⟩ := by decide

example : run derived true [.eventuallyProto 7 (fun i n => i == n)] 2 = ⟨2, .failedAtEnd⟩ := by decide

end C18
