import GradysProofs.Lemmas.ELHist
import GradysProofs.Lemmas.SimStep
import GradysProofs.Lemmas.HeapRefine
/-
  C02 — every scheduled event runs exactly once; nothing is lost, duplicated or invented.
  Part A: every history of the public EventLoop API.  Part B: every simulation run.
-/
set_option linter.unusedSectionVars false

namespace C02
variable {K : Type}

/-! ### A. the bare event loop, for every history of schedule / pop / peek / clear / len -/

/-- after any history, popped ++ queued ++ dropped-by-clear is a permutation of the accepted
    requests: no loss, no duplication, no invention. -/
theorem C02_history_perm (ops : List (ELOp K)) :
    let g := (ELG.init : ELG K).run ops
    (g.popped ++ g.l.queue ++ g.dropped).Perm g.accepted :=
  (ELG.run_inv _ ops ELG.init_inv).perm

/-- `len` = accepted − popped − dropped, after every history (and the ghost loop IS the loop the
    driver runs: `ELG.run_l`). -/
theorem C02_len_conservation (ops : List (ELOp K)) :
    let g := (ELG.init : ELG K).run ops
    ((EL.empty : EL K).run ops).1.len + g.popped.length + g.dropped.length = g.accepted.length := by
  intro g
  have h : (g.popped ++ g.l.queue ++ g.dropped).length = g.accepted.length :=
    (C02_history_perm ops).length_eq
  have hl : ((EL.empty : EL K).run ops).1 = g.l := (ELG.run_l ELG.init ops).symm
  rw [hl]
  simp only [List.length_append] at h
  unfold EL.len
  omega

/-- a refused request leaves the loop exactly as it was; it is refused iff it is for the past
    (resp. the queue is empty). -/
theorem C02_refused_is_noop (l : EL K) :
    (∀ ts k, (l.apply (.schedule ts k)).2 = .err .past ↔ ts < l.now) ∧
    (∀ ts k, ts < l.now → (l.apply (.schedule ts k)).1 = l) ∧
    ((l.apply .pop).2 = .err .empty ↔ l.queue = []) ∧
    (l.queue = [] → (l.apply .pop).1 = l) := by
  refine ⟨?_, ?_, ?_, ?_⟩
  · intro ts k
    simp only [EL.apply, EL.schedule]
    split <;> rename_i h <;> split at h <;> simp_all
  · intro ts k h
    simp [EL.apply, EL.schedule, h]
  · simp only [EL.apply, EL.pop]
    cases l.queue <;> simp
  · intro h
    simp [EL.apply, EL.pop, h]

/-- `peek`, `len`, `now` never change the loop, and `peek` shows exactly the event `pop` would return. -/
theorem C02_peek_nondestructive (l : EL K) :
    (l.apply .peek).1 = l ∧ (l.apply .len).1 = l ∧ (l.apply .now).1 = l ∧
    (∀ e, l.peek = some e ↔ ∃ l', l.pop = .ok (e, l')) ∧
    (l.peek = none ↔ l.pop = .error .empty) := by
  refine ⟨rfl, rfl, rfl, ?_, ?_⟩
  · intro e
    simp only [EL.peek, EL.pop]
    cases l.queue with
    | nil => simp
    | cons x xs =>
      simp only [List.head?_cons, Option.some.injEq]
      constructor
      · rintro rfl; exact ⟨_, rfl⟩
      · rintro ⟨l', h⟩
        injection h with h
        exact (Prod.mk.inj h).1
  · simp only [EL.peek, EL.pop]
    cases l.queue <;> simp

/-- an accepted `schedule` adds exactly the new event; a successful `pop` removes exactly the
    returned one. -/
theorem C02_pop_perm (l : EL K) :
    (∀ ts k l', l.schedule ts k = .ok l' → l'.queue.Perm (⟨ts, l.nextSeq, k⟩ :: l.queue)) ∧
    (∀ e l', l.pop = .ok (e, l') → l.queue = e :: l'.queue) := by
  refine ⟨?_, ?_⟩
  · intro ts k l' h
    simp only [EL.schedule] at h
    split at h
    · cases h
    · injection h with h; subst h
      exact insertEv_perm _ _
  · intro e l' h
    simp only [EL.pop] at h
    split at h
    · cases h
    · rename_i x xs hq
      injection h with h
      obtain ⟨rfl, rfl⟩ := Prod.mk.inj h
      exact hq

/-- conservation on the real heap: run any history on the event loop whose queue is the port of
    `heapq.py` (`HEL`, `GradysModel/Heap.lean`). Its outputs are those of the list loop (so the
    popped events are the same), and popped ++ heap contents ++ dropped-by-clear is a permutation of
    the accepted requests: the heap neither loses, duplicates nor invents an event. -/
theorem C02_heapq_conserves (ops : List (ELOp K)) :
    let g := (ELG.init : ELG K).run ops
    let hl := ((HEL.empty : HEL K).run ops).1
    ((HEL.empty : HEL K).run ops).2 = ((EL.empty : EL K).run ops).2 ∧
    (g.popped ++ hl.heap.toList ++ g.dropped).Perm g.accepted := by
  intro g hl
  obtain ⟨hout, hrel⟩ := (HRel.empty (K := K)).run ops
  refine ⟨hout, ?_⟩
  have hl' : ((EL.empty : EL K).run ops).1 = g.l := (ELG.run_l ELG.init ops).symm
  have hp : hl.heap.toList.Perm g.l.queue := hl' ▸ hrel.rel.2.1
  exact (List.Perm.append_right _ (List.Perm.append_left _ hp)).trans (C02_history_perm ops)

/-! ### B. the simulator, for every configuration and every protocol program -/
open Sim
variable {S σ : Type} [Scalar S]

/-- at every point of every run, executed ++ queued is a permutation of the accepted scheduling
    requests -/
theorem C02_exec_exactly_once {cfg : Config S} (hdt : 0 ≤ cfg.dt) {P : NodeId → Proto S σ}
    {w : World S σ} (h : Reachable cfg P w) : (w.rexecuted ++ w.loop.queue).Perm w.raccepted :=
  (reachable_inv hdt h).perm

/-- ... and no event is in that list twice: all of executed ++ queued are pairwise distinct
    (strictly ordered by (ts, seq)), so nothing executes twice and nothing executed is still queued -/
theorem C02_no_duplicates {cfg : Config S} (hdt : 0 ≤ cfg.dt) {P : NodeId → Proto S σ}
    {w : World S σ} (h : Reachable cfg P w) : (w.executed ++ w.loop.queue).Pairwise keyLt := by
  have inv := reachable_inv hdt h
  unfold World.executed
  rw [List.pairwise_append]
  refine ⟨List.pairwise_reverse.mpr inv.exec_sorted, inv.sorted, ?_⟩
  intro a ha b hb
  exact inv.exec_lt_queue a (List.mem_reverse.mp ha) b hb

/-- the number of queued events always equals accepted requests minus executed ones -/
theorem C02_queue_count {cfg : Config S} (hdt : 0 ≤ cfg.dt) {P : NodeId → Proto S σ}
    {w : World S σ} (h : Reachable cfg P w) :
    w.loop.queue.length + w.rexecuted.length = w.raccepted.length := by
  have := (C02_exec_exactly_once hdt h).length_eq
  simp only [List.length_append] at this
  omega

/-- when a run has exhausted its events, the executed events are exactly the accepted ones -/
theorem C02_exhaustion {cfg : Config S} (hdt : 0 ≤ cfg.dt) {P : NodeId → Proto S σ}
    {w : World S σ} (h : Reachable cfg P w) (hq : w.loop.queue = []) : w.rexecuted.Perm w.raccepted := by
  have := C02_exec_exactly_once hdt h
  rwa [hq, List.append_nil] at this

/-- What an EXTERNAL controller does between two steps is accounted for like everything else: after any
    request program issued through a node's provider from outside any callback, at any moment of the run,
    executed ++ queued is still a duplicate-free permutation of the accepted requests; and a request
    such a program has refused leaves the event loop untouched (the program's world only grows by
    accepted events). -/
theorem C02_external_requests_accounted {cfg : Config S} (hdt : 0 ≤ cfg.dt) {P : NodeId → Proto S σ}
    {w : World S σ} (h : Reachable cfg P w) (n : NodeId) (p : Prog S σ) :
    ((runProg cfg n p w).1.rexecuted ++ (runProg cfg n p w).1.loop.queue).Perm (runProg cfg n p w).1.raccepted ∧
    ((runProg cfg n p w).1.executed ++ (runProg cfg n p w).1.loop.queue).Pairwise keyLt ∧
    (runProg cfg n p w).1.rexecuted = w.rexecuted ∧ (runProg cfg n p w).1.loop.now = w.loop.now :=
  ⟨C02_exec_exactly_once hdt (h.ext n p), C02_no_duplicates hdt (h.ext n p),
    (ext_runProg cfg n p w).exec_eq, (ext_runProg cfg n p w).now_eq⟩

/-- A step out of which the executed event's callback lets an exception escape (`Sim.stepRaised`: the event
    is consumed and its callback ran as far as it got, the hooks and the completion check are skipped, the
    caller catches the exception and keeps driving): the accounting survives it - executed ++ queued is still
    a duplicate-free, ordered permutation of the accepted requests, nothing queued is in the past, and the
    clock did not go back. Whatever the driver does afterwards starts from a sound world. -/
theorem C02_raised_step_accounted {cfg : Config S} (hdt : 0 ≤ cfg.dt) (P : NodeId → Proto S σ)
    {w : World S σ} (hw : WInv w) :
    WInv (stepRaised cfg P w) ∧ w.loop.now ≤ (stepRaised cfg P w).loop.now :=
  stepRaised_inv cfg hdt P w hw

/-- ... and so for every run of a tolerant stepped driver (steps, externally issued requests and steps out
    of which an exception escaped, in any order): executed ++ queued is a duplicate-free, ordered permutation
    of the accepted requests, executed timestamps never decrease, nothing queued lies in the past -/
theorem C02_exec_exactly_once_tolerant {cfg : Config S} (hdt : 0 ≤ cfg.dt) {P : NodeId → Proto S σ}
    {w : World S σ} (h : ReachableT cfg P w) :
    (w.rexecuted ++ w.loop.queue).Perm w.raccepted ∧
    w.executed.Pairwise (fun a b => a.ts ≤ b.ts) ∧
    (∀ e ∈ w.loop.queue, w.loop.now ≤ e.ts) := by
  have inv := reachableT_inv hdt h
  refine ⟨inv.perm, ?_, inv.ge_now⟩
  unfold World.executed
  exact List.pairwise_reverse.mpr (inv.exec_sorted.imp keyLt_ts_le)

/-- non-vacuity: a raised step in the middle of a run -/
example (cfg : Config S) (P : NodeId → Proto S σ) :
    ReachableT cfg P (step cfg P (stepRaised cfg P (step cfg P (init cfg P)).1)).1 :=
  ((ReachableT.init.step).raised).step

/-- non-vacuity of the above: steps and external programs interleave freely -/
example (cfg : Config S) (P : NodeId → Proto S σ) (n : NodeId) (p q : Prog S σ) :
    Reachable cfg P (step cfg P (runProg cfg n q (step cfg P (runProg cfg n p (init cfg P)).1).1).1).1 :=
  (((Reachable.init.ext n p).step).ext n q).step

/-- non-vacuity: a three-call history whose invariant instance is non-trivial -/
example : ((EL.empty : EL Nat).run [.schedule 5 0, .schedule 5 1, .pop]).1.len = 1 := by decide

end C02
