import GradysProofs.Lemmas.Dispatch
import GradysProofs.Lemmas.DispatchNested
/-
  C15 — dispatcher: handlers run newest-first, then the protocol's own method, honouring INTERRUPT
  for timer / packet / telemetry only; unregistration is exact; (un)registration from inside a
  running handler neither skips nor repeats anything and takes effect from the next dispatch;
  `create_dispatcher` is idempotent; instances are isolated.

  Everything is proved for EVERY behaviour `beh : Callee → Nat → Script` (what each handler and each
  own method does and returns on its n-th invocation, including scripted re-entrant requests) and,
  where the shape of reachable chains matters, for EVERY history of create / register / unregister /
  dispatch over any number of instances, by induction on the history (`run_dinv`).
-/
set_option linter.unusedSectionVars false

namespace C15
open Disp

/-- **Order.**  After any history, a call of method `k` on instance `p` invokes a prefix of the chain
    as it stood when the call began (so: in chain order, each chain position at most once, nothing
    that was not in the chain, and never nothing); that chain is `handlers ++ [own method]` with the
    own method exactly once, at the end; and a registration puts the handler at the very front
    (newest first).  The protocol's own method therefore runs at most once per dispatch. -/
theorem C15_order (beh : Beh) (ops : List Op) (p : Nat) (k : Kind) :
    let s := (run beh DState.init ops).1
    let chain := s.reg.chain p k
    let calls := (dispatch beh s p k).2
    calls.map (·.entry) <+: chain ∧ calls ≠ [] ∧
    (∃ hs, chain = hs ++ [Entry.own] ∧ Entry.own ∉ hs) ∧
    (calls.map (·.entry)).count Entry.own ≤ 1 ∧
    (∀ h, (s.register p k h).2 = Res.ok → (s.register p k h).1.reg.chain p k = Entry.h h :: chain) := by
  intro s chain calls
  have inv : DInv s := run_dinv beh dinv_init ops
  have hok : ChainOK chain := Registry.chain_ok inv.wf p k
  have hpre : calls.map (·.entry) <+: chain := walk_prefix _ _ _ _
  refine ⟨hpre, ?_, hok, ?_, ?_⟩
  · obtain ⟨hs, hc, _⟩ := hok
    show (walk _ _ chain s).2 ≠ []
    cases hch : chain with
    | nil => rw [hch] at hc; cases hs <;> simp at hc
    | cons e es => exact walk_ne_nil _ _ _ _ _
  · have := hpre.sublist.count_le Entry.own
    rw [chainOK_count_own hok] at this
    exact this
  · intro h hres
    cases hr : s.reg p with
    | none => simp [Registry.register_none k h hr] at hres
    | some c =>
      have hc : chain = c k := by simp [chain, Registry.chain, hr]
      simp [Registry.register_some k h hr, Registry.chain, Chains.register, hc]

/-- the three interruptible kinds, and the two that are not -/
theorem C15_interruptible_kinds :
    Kind.timer.interruptible = true ∧ Kind.packet.interruptible = true ∧ Kind.telemetry.interruptible = true ∧
    Kind.initialize.interruptible = false ∧ Kind.finish.interruptible = false := ⟨rfl, rfl, rfl, rfl, rfl⟩

/-- **INTERRUPT.**  In every state, for timer / packet / telemetry the invoked prefix ends exactly
    with the first callee returning INTERRUPT (all earlier ones returned CONTINUE or None, and if
    part of the chain was not invoked then the last invoked callee returned INTERRUPT); for
    initialize / finish the whole chain is invoked whatever is returned.  The recorded results are
    the behaviour's results for that callee's invocation number. -/
theorem C15_interrupt (beh : Beh) (s : DState) (p : Nat) (k : Kind) :
    let chain := s.reg.chain p k
    let calls := (dispatch beh s p k).2
    (k.interruptible = false → calls.map (·.entry) = chain) ∧
    (k.interruptible = true → ∃ post, chain = calls.map (·.entry) ++ post ∧
        (∀ c ∈ calls.dropLast, c.ret ≠ Ret.interrupt) ∧
        (post ≠ [] → ∃ c, calls.getLast? = some c ∧ c.ret = Ret.interrupt)) ∧
    (∀ c ∈ calls, c.ret = (beh (calleeOf p k c.entry) c.info.n).ret) := by
  intro chain calls
  refine ⟨?_, ?_, fun c hc => (dispatch_truthful beh s p k c hc).1⟩
  · intro hk
    show ((walk _ k.interruptible chain s).2.map (·.entry)) = chain
    rw [hk]
    exact walk_all _ _ _
  · intro hk
    have hc : calls = (walk (invoke beh p k) true chain s).2 := by
      show (walk _ k.interruptible _ s).2 = _
      rw [hk]
    rw [hc]
    exact walk_stop _ _ _

/-- non-vacuity: a chain `[h1, h2, own]` where `h1` returns None and `h2` INTERRUPT: timer stops after
    `h2`, finish runs all three -/
example :
    let beh : Beh := fun c _ => match c with
      | .handler 2 => ⟨[], .interrupt⟩
      | .handler 1 => ⟨[], .none⟩
      | _ => ⟨[], .cont⟩
    let s := (run beh DState.init [.create 0, .register 0 .timer 2, .register 0 .timer 1,
                                   .register 0 .finish 2, .register 0 .finish 1]).1
    ((dispatch beh s 0 .timer).2.map (·.entry)) = [.h 1, .h 2] ∧
    ((dispatch beh s 0 .finish).2.map (·.entry)) = [.h 1, .h 2, .own] := by
  decide

/-- **Exact unregistration.**  If the handler is in the chain, `unregister` answers ok and removes
    exactly its first occurrence — every other element, the other four chains and every other
    instance are untouched; if it is not there (or the instance has no dispatcher) the request is
    refused and the whole state is unchanged. -/
theorem C15_unregister_exact (s : DState) (p : Nat) (k : Kind) (h : Nat) :
    (∀ c, s.reg p = some c → Entry.h h ∈ c k →
        (s.unregister p k h).2 = Res.ok ∧
        ∃ pre post, c k = pre ++ Entry.h h :: post ∧ Entry.h h ∉ pre ∧
          (s.unregister p k h).1.reg.chain p k = pre ++ post ∧
          (∀ k', k' ≠ k → (s.unregister p k h).1.reg.chain p k' = c k')) ∧
    (∀ q, q ≠ p → (s.unregister p k h).1.reg q = s.reg q) ∧
    ((∀ c, s.reg p = some c → Entry.h h ∉ c k) →
        (s.unregister p k h).2 ≠ Res.ok ∧ (s.unregister p k h).1 = s) ∧
    (s.reg p = none ↔ (s.unregister p k h).2 = Res.nodispatcher) := by
  refine ⟨?_, fun q hq => Registry.unregister_other _ k h hq, ?_, ?_⟩
  · intro c hc hm
    have hu : c.unregister k h = some (c.set k ((c k).erase (Entry.h h))) := by simp [Chains.unregister, hm]
    obtain ⟨pre, post, hn, hsplit, herase⟩ := List.exists_erase_eq hm
    refine ⟨by simp [Registry.unregister_ok hc hu], pre, post, hsplit, hn, ?_, ?_⟩
    · simp [Registry.unregister_ok hc hu, Registry.chain, herase]
    · intro k' hk
      simp [Registry.unregister_ok hc hu, Registry.chain, Chains.set_other _ _ hk]
  · intro habs
    cases hr : s.reg p with
    | none =>
      refine ⟨by simp [Registry.unregister_none k h hr], ?_⟩
      simp [DState.unregister, Registry.unregister_none k h hr]
    | some c =>
      have hu : c.unregister k h = none := Chains.unregister_none.mpr (habs c hr)
      refine ⟨by simp [Registry.unregister_absent hr hu], ?_⟩
      simp [DState.unregister, Registry.unregister_absent hr hu]
  · constructor
    · intro hr; simp [Registry.unregister_none k h hr]
    · intro hres
      cases hr : s.reg p with
      | none => rfl
      | some c =>
        cases hu : c.unregister k h with
        | none => simp [Registry.unregister_absent hr hu] at hres
        | some c' => simp [Registry.unregister_ok hr hu] at hres

/-- **Re-entrancy.**  (Un)registrations requested from inside running callees do not change what the
    running dispatch invokes (`C15_order` / `C15_interrupt` speak about the chain at its beginning, for
    every behaviour, so nothing is skipped and nothing repeated); they are all in force afterwards:
    the registry after the dispatch is the registry before it with exactly the requests of the
    invoked callees applied in order, so the next dispatch walks the updated chain.  Other instances'
    wrappers are untouched, and each callee performed exactly its script. -/
theorem C15_unregister_reentrant (beh : Beh) (s : DState) (p : Nat) (k : Kind) :
    let d := dispatch beh s p k
    d.1.reg = s.reg.after p (performed d.2) ∧
    (∀ k', d.1.reg.chain p k' = (s.reg.after p (performed d.2)).chain p k') ∧
    (∀ c ∈ d.2, c.info.rops.map (·.1) = (beh (calleeOf p k c.entry) c.info.n).ops) := by
  intro d
  have h := dispatch_reg beh s p k
  exact ⟨h, fun k' => by rw [h], fun c hc => (dispatch_truthful beh s p k c hc).2⟩

/-- non-vacuity of the re-entrant case (the replays of finding F15a): with chain `[h1, h2, own]`,
    `h1` unregistering itself still lets `h2` run, and `h1` registering `h3` runs neither `h1` twice
    nor `h3` now; the next dispatch sees the change. -/
example :
    let beh : Beh := fun c n => match c, n with
      | .handler 1, 0 => ⟨[.unreg .timer 1], .cont⟩
      | .handler 2, 0 => ⟨[.reg .timer 3], .cont⟩
      | _, _ => ⟨[], .cont⟩
    let s := (run beh DState.init [.create 0, .register 0 .timer 2, .register 0 .timer 1]).1
    ((dispatch beh s 0 .timer).2.map (·.entry)) = [.h 1, .h 2, .own] ∧
    ((dispatch beh (dispatch beh s 0 .timer).1 0 .timer).2.map (·.entry)) = [.h 3, .h 2, .own] := by
  decide

/-- **Idempotent creation.**  Asking for a dispatcher again returns the existing wrapper: the state
    is unchanged (no second wrapping, the chains keep their handlers); the first request installs
    the five chains `[own]`; no other instance is touched. -/
theorem C15_create_idempotent (s : DState) (p : Nat) :
    (s.create p).create p = s.create p ∧
    (∀ c, s.reg p = some c → s.create p = s) ∧
    (s.reg p = none → (s.create p).reg p = some Chains.fresh) ∧
    (∀ q, q ≠ p → (s.create p).reg q = s.reg q) := by
  refine ⟨?_, fun c hr => DState.create_some hr, ?_, fun q hq => by rw [DState.create_reg]; exact Registry.create_other _ hq⟩
  · cases hr : s.reg p with
    | some c => rw [DState.create_some hr, DState.create_some hr]
    | none =>
      have h1 : (s.create p).reg p = some Chains.fresh := by
        rw [DState.create_reg, Registry.create_none hr, Registry.upd_same]
      exact DState.create_some h1
  · intro hr
    rw [DState.create_reg, Registry.create_none hr, Registry.upd_same]

/-- ... hence after every history, however often `create` occurred, each of the five chains of every
    wrapped instance contains the protocol's own method exactly once, as its last element. -/
theorem C15_create_no_double_wrap (beh : Beh) (ops : List Op) (p : Nat) (k : Kind) :
    let chain := (run beh DState.init ops).1.reg.chain p k
    chain.count Entry.own = 1 ∧ chain.getLast? = some Entry.own := by
  intro chain
  have hok : ChainOK chain := Registry.chain_ok (run_dinv beh dinv_init ops).wf p k
  exact ⟨chainOK_count_own hok, chainOK_getLast hok⟩

/-- **Isolation.**  After any history, a dispatch on instance `p` for kind `k` invokes only handlers
    that were registered on `p` for `k` (by a successful `register` request on `p`, top-level or
    re-entrant); the registration log only mentions instances some operation of the history was
    addressed to; and an operation addressed to one instance leaves the wrapper of every other
    instance exactly as it was. -/
theorem C15_isolation (beh : Beh) (ops : List Op) (p : Nat) (k : Kind) :
    let s := (run beh DState.init ops).1
    (∀ c ∈ (dispatch beh s p k).2, ∀ h, c.entry = Entry.h h → (p, k, h) ∈ s.regLog) ∧
    (∀ x ∈ s.regLog, ∃ op ∈ ops, op.inst = x.1) ∧
    (∀ op q, q ≠ op.inst → (step beh s op).1.reg q = s.reg q) := by
  intro s
  have inv : DInv s := run_dinv beh dinv_init ops
  refine ⟨?_, ?_, fun op q hq => step_other beh s op hq⟩
  · intro c hc h he
    have hpre : (dispatch beh s p k).2.map (·.entry) <+: s.reg.chain p k := walk_prefix _ _ _ _
    have hm : Entry.h h ∈ s.reg.chain p k :=
      hpre.subset (he ▸ List.mem_map_of_mem (f := (·.entry)) hc)
    cases hr : s.reg p with
    | none => simp [Registry.chain, hr] at hm
    | some ch =>
      simp only [Registry.chain, hr] at hm
      exact inv.log p ch k h hr hm
  · exact logFrom_run (P := fun q => ∃ op ∈ ops, op.inst = q) beh (fun x hx => by simp [DState.init] at hx) ops
      (fun op ho => ⟨op, ho, rfl⟩)

/-- non-vacuity: handler 1 registered on instance 0 only; a packet for instance 1 runs just its own
    method, one for instance 0 runs the handler first -/
example :
    let beh : Beh := fun _ _ => ⟨[], .cont⟩
    let s := (run beh DState.init [.create 0, .create 1, .register 0 .packet 1]).1
    ((dispatch beh s 1 .packet).2.map (·.entry)) = [.own] ∧
    ((dispatch beh s 0 .packet).2.map (·.entry)) = [.h 1, .own] := by
  decide

/-! ### callees that call the protocol's methods themselves (nested dispatch), dispatcher asked for late -/

/-- **Order and INTERRUPT at every nesting level.**  `dispatchN` lets every callee (handler or own method),
    on each of its invocations, perform requests, ask for the dispatcher, and call any method of its
    protocol again (`NBeh`, arbitrary).  In EVERY state `s` — in particular in the states in which the nested
    calls begin, since a nested call is `dispatchN` at the state reached so far — a call of method `k`
    invokes a prefix of the chain as it stood when THAT call began: never nothing, the whole chain for
    initialize / finish, and for timer / packet / telemetry exactly up to the first INTERRUPT.  Nothing a
    nested call or a request does in between makes the running call skip or repeat a chain position. -/
theorem C15_nested_order (beh : NBeh) (fuel : Nat) (s : NState) (p : Nat) (k : Kind) :
    let chain := s.d.reg.chain p k
    let calls := (dispatchN beh (fuel + 1) s p k).2
    calls.map (·.entry) <+: chain ∧ (chain ≠ [] → calls ≠ []) ∧
    (k.interruptible = false → calls.map (·.entry) = chain) ∧
    (k.interruptible = true → ∃ post, chain = calls.map (·.entry) ++ post ∧
        (∀ c ∈ calls.dropLast, c.ret ≠ Ret.interrupt) ∧
        (post ≠ [] → ∃ c, calls.getLast? = some c ∧ c.ret = Ret.interrupt)) := by
  intro chain calls
  refine ⟨walk_prefix _ _ _ _, ?_, ?_, ?_⟩
  · intro hne
    show (walk _ _ chain s).2 ≠ []
    cases hch : chain with
    | nil => exact absurd hch hne
    | cons e es => exact walk_ne_nil _ _ _ _ _
  · intro hk
    show ((walk _ k.interruptible chain s).2.map (·.entry)) = chain
    rw [hk]
    exact walk_all _ _ _
  · intro hk
    have hc : calls = (walk (invokeN beh (fun s' k' => (dispatchN beh fuel s' p k').1) p k) true chain s).2 := by
      show (walk _ k.interruptible _ s).2 = _
      rw [hk]
    rw [hc]
    exact walk_stop _ _ _

/-- **Worlds stay well-formed through nested calls.**  From a well-formed world (every chain is
    `handlers ++ [own method]` with the own method once, and every handler in a chain was registered
    there), a call with callees of any behaviour and nesting ends in a well-formed world, leaves the
    wrappers of all other instances untouched, runs the protocol's own method at most once at its own level
    and invokes only handlers that were registered on that instance for that kind. -/
theorem C15_nested_invariant (beh : NBeh) (fuel : Nat) (s : NState) (p : Nat) (k : Kind) (hs : DInv s.d) :
    let d := dispatchN beh fuel s p k
    DInv d.1.d ∧ (∀ q, q ≠ p → d.1.d.reg q = s.d.reg q) ∧
    (d.2.map (·.entry)).count Entry.own ≤ 1 ∧
    (∀ c ∈ d.2, ∀ h, c.entry = Entry.h h → (p, k, h) ∈ s.d.regLog) := by
  intro d
  have hpre : d.2.map (·.entry) <+: s.d.reg.chain p k := by
    cases fuel with
    | zero => exact List.nil_prefix
    | succ fuel => exact walk_prefix _ _ _ _
  have hok : ChainOK (s.d.reg.chain p k) := Registry.chain_ok hs.wf p k
  refine ⟨dispatchN_dinv beh fuel s p k hs, fun q hq => dispatchN_other beh fuel s k hq, ?_, ?_⟩
  · have := hpre.sublist.count_le Entry.own
    rw [chainOK_count_own hok] at this
    exact this
  · intro c hc h he
    have hm : Entry.h h ∈ s.d.reg.chain p k :=
      hpre.subset (he ▸ List.mem_map_of_mem (f := (·.entry)) hc)
    cases hr : s.d.reg p with
    | none => simp [Registry.chain, hr] at hm
    | some ch =>
      simp only [Registry.chain, hr] at hm
      exact hs.log p ch k h hr hm

/-- ... and every world reached by a history of create / register / unregister / calls whose callees nest
    and ask for the dispatcher late is well-formed: each chain of every wrapped instance still ends with
    the protocol's own method, exactly once (no second wrapping by a late or repeated request). -/
theorem C15_nested_history (beh : NBeh) (fuel : Nat) (ops : List Op) (p : Nat) (k : Kind) :
    let s := (runN beh fuel DState.init ops).1
    DInv s ∧ (s.reg.chain p k).count Entry.own = 1 ∧ (s.reg.chain p k).getLast? = some Entry.own := by
  intro s
  have inv : DInv s := runN_dinv beh fuel dinv_init ops
  have hok : ChainOK (s.reg.chain p k) := Registry.chain_ok inv.wf p k
  exact ⟨inv, chainOK_count_own hok, chainOK_getLast hok⟩

/-- **Conservative.**  When the callees only make requests (the behaviours of the first model), the
    extended model invokes the same callees with the same results and ends in the same world as
    `dispatch`: `C15_order` … `C15_isolation` are statements about it too. -/
theorem C15_nested_conservative (beh : Beh) (fuel : Nat) (s : NState) (p : Nat) (k : Kind) :
    (dispatchN beh.lift (fuel + 1) s p k).1.d = (dispatch beh s.d p k).1 ∧
    (dispatchN beh.lift (fuel + 1) s p k).2.map (fun c => (c.entry, c.ret)) =
      (dispatch beh s.d p k).2.map (fun c => (c.entry, c.ret)) :=
  dispatchN_lift beh fuel s p k

/-- non-vacuity (the one-shot watchdog): chain `[h1, h2, own]`; on its first invocation `h1` unregisters
    itself, raises the timer again and returns CONTINUE.  The nested call walks `[h2, own]`; the running
    call then goes on with `h2` and the own method — `h2` is not skipped although the chain shrank in front
    of it.  Second scenario (the envelope handler): `h1` registers `h3` and re-delivers; the nested call
    walks `[h3, h1, h2, own]`, the running one does not run `h1` a second time. -/
example :
    let beh : NBeh := fun c n => match c, n with
      | .handler 1, 0 => ⟨[.req (.unreg .timer 1), .dispatch .timer], .cont⟩
      | _, _ => ⟨[], .cont⟩
    let s := (runN beh 4 DState.init [.create 0, .register 0 .timer 2, .register 0 .timer 1]).1
    (dispatchN beh 4 ⟨s, []⟩ 0 .timer).1.log.reverse =
      [.call (.h 1) 0, .req (.unreg .timer 1) .ok, .beginD .timer,
         .call (.h 2) 0, .ret (.h 2) .cont, .call .own 0, .ret .own .cont, .endD .timer, .ret (.h 1) .cont,
       .call (.h 2) 1, .ret (.h 2) .cont, .call .own 1, .ret .own .cont] := by
  decide

example :
    let beh : NBeh := fun c n => match c, n with
      | .handler 1, 0 => ⟨[.req (.reg .packet 3), .dispatch .packet], .cont⟩
      | _, _ => ⟨[], .cont⟩
    let s := (runN beh 4 DState.init [.create 0, .register 0 .packet 2, .register 0 .packet 1]).1
    ((dispatchN beh 4 ⟨s, []⟩ 0 .packet).2.map (·.entry)) = [.h 1, .h 2, .own] ∧
    (dispatchN beh 4 ⟨s, []⟩ 0 .packet).1.log.reverse.filterMap (fun | .call e _ => some e | _ => none) =
      [.h 1, .h 3, .h 1, .h 2, .own, .h 2, .own] := by
  decide

/-- non-vacuity (dispatcher asked for late): the own method of instance 0 asks for the dispatcher and
    registers `h1` while its first timer is being delivered unwrapped; from the next timer on the chain
    `[h1, own]` runs. -/
example :
    let beh : NBeh := fun c n => match c, n with
      | .own 0 .timer, 0 => ⟨[.create, .req (.reg .timer 1)], .cont⟩
      | _, _ => ⟨[], .cont⟩
    let r := runN beh 4 DState.init [.dispatch 0 .timer]
    ((dispatchN beh 4 ⟨DState.init, []⟩ 0 .timer).2.map (·.entry)) = [.own] ∧
    ((dispatchN beh 4 ⟨r.1, []⟩ 0 .timer).2.map (·.entry)) = [.h 1, .own] := by
  decide

/-! ### the defect that was repaired (finding F15a), for the record -/

/-- the pinned code's iteration: `for handler in queue` over the LIVE list, i.e. by index into the
    chain as it is at each step -/
def walkLive (beh : Beh) (p : Nat) (k : Kind) : Nat → Nat → DState → List Entry
  | 0, _, _ => []
  | fuel + 1, i, s =>
    match (s.reg.chain p k)[i]? with
    | none => []
    | some e =>
      let r := invoke beh p k e s
      if k.interruptible && r.2.1 == Ret.interrupt then [e] else e :: walkLive beh p k fuel (i + 1) r.1

/-- live iteration is NOT what the property asks for: with chain `[h1, h2, own]`, `h1` unregistering
    itself makes `h2` be skipped, and `h1` registering another handler makes `h1` run twice — the two
    replays of F15a; the snapshot walk of the model (= the repaired code) does neither
    (`C15_order`, and the example after `C15_unregister_reentrant`). -/
theorem C15_live_iteration_skips_and_repeats :
    let s := (run (fun _ _ => ⟨[], .cont⟩) DState.init [.create 0, .register 0 .timer 2, .register 0 .timer 1]).1
    walkLive (fun c n => match c, n with
      | .handler 1, 0 => ⟨[.unreg .timer 1], .cont⟩
      | _, _ => ⟨[], .cont⟩) 0 .timer 10 0 s = [.h 1, .own] ∧
    walkLive (fun c n => match c, n with
      | .handler 1, 0 => ⟨[.reg .timer 3], .cont⟩
      | _, _ => ⟨[], .cont⟩) 0 .timer 10 0 s = [.h 1, .h 1, .h 2, .own] := by
  decide

end C15
