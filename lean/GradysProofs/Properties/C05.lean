import GradysProofs.Lemmas.SimLife
/-
  C05 — protocol and handler lifecycle callbacks happen exactly once and in phase order.
  The lifecycle projection of the trace (handler initialise / protocol initialize / after-step
  fan-out / protocol finish / handler finalise) of EVERY reachable world is given in closed form, for
  every set of handlers, node count, protocol program, termination cause and way of driving the run.
  Guard: the after-step hooks do not raise (that case is C18).
-/
set_option linter.unusedSectionVars false

namespace C05
open Sim
variable {S σ : Type} [Scalar S]

/-- before the first step nothing has happened: no handler or protocol lifecycle call, no callback, no
    executed event — the only observations are the requests a user issued through the nodes' providers
    between `build()` and the first step (none, if there were none) -/
theorem C05_before_first_step {cfg : Config S} (hdt : 0 ≤ cfg.dt) {P : NodeId → Proto S σ}
    {w : World S σ} (h : Reachable cfg P w) (hi : w.initialized = false) :
    (∀ o ∈ w.trace, ∃ n, Obs.isRequestOf n o) ∧ w.executed = [] ∧ w.finalized = false := by
  obtain ⟨h1, h2, _, h4⟩ := (reachable_linv hdt h).fresh hi
  exact ⟨fun o ho => h1 o (by simpa [World.trace] using ho), by simp [World.executed, h2], h4⟩

/-- without requests before the first step, the trace is empty until the first step -/
theorem C05_before_first_step_fresh (cfg : Config S) (P : NodeId → Proto S σ) :
    (init cfg P).trace = [] ∧ (init cfg P).executed = [] ∧ (init cfg P).initialized = false := by
  rw [init_eq]; split <;> simp [init0, sched, World.trace, World.executed]

/-- the exact lifecycle shape: each handler initialised once, in registration order, before any
    protocol; each protocol's initialize once, in node order, at time 0, before any event; after the
    i-th executed event (i = 0, 1, 2, …) each handler's after-step hook once, in order, with `i` and
    that event's timestamp; and — exactly when the run has reported completion — each protocol's
    finish once, after the last executed event, followed by each handler's finalise once. Nothing else
    of these kinds ever appears. -/
theorem C05_trace_shape {cfg : Config S} (hdt : 0 ≤ cfg.dt) {P : NodeId → Proto S σ}
    {w : World S σ} (h : Reachable cfg P w) (hi : w.initialized = true) :
    w.trace.filter isLife =
      initBlock cfg ++ afterBlocks cfg w.executed ++
        (if w.finalized then finalBlock cfg (reportedTime cfg w) else []) := by
  have hs := (reachable_linv hdt h).shape hi
  unfold World.trace World.executed afterBlocks
  rw [List.filter_reverse, hs]
  simp only [List.reverse_append, List.reverse_reverse, List.append_assoc]
  split <;> simp

/-- the number of after-step rounds is the number of executed events, and the iteration counter is
    that number -/
theorem C05_iteration_counter {cfg : Config S} (hdt : 0 ≤ cfg.dt) {P : NodeId → Proto S σ}
    {w : World S σ} (h : Reachable cfg P w) : w.iter = w.executed.length := by
  rw [(reachable_linv hdt h).iter_eq]; simp [World.executed]

/-- whenever `step_simulation` returns `False` the simulation is finalised -/
theorem C05_completed_is_finalized (cfg : Config S) (P : NodeId → Proto S σ) (w : World S σ)
    (hr : (step cfg P w).2 = false) : (step cfg P w).1.finalized = true := by
  have hfin : ∀ w2 : World S σ, (finalise cfg P w2).finalized = true := by
    intro w2; unfold finalise; split
    · rename_i h; exact h
    · rfl
  cases hf : w.finalized with
  | true => unfold step; simp [hf]
  | false =>
    rw [step_eq cfg P w hf] at hr ⊢
    generalize prep cfg P w = w1 at hr ⊢
    split
    · exact hfin _
    · rename_i hd
      rw [if_neg hd] at hr
      split
      · rename_i hq
        rw [isDone_nil hq] at hd; exact absurd rfl hd
      · rename_i e rest hq
        rw [hq] at hr
        simp only at hr
        split
        · exact hfin _
        · rename_i hnd
          rw [if_neg hnd] at hr
          cases hr

/-- once the run has reported completion, every further step returns `False` and leaves the world
    (hence the trace) exactly as it is — also when `finish` or a handler's finalise scheduled events -/
theorem C05_step_after_completion_is_noop (cfg : Config S) (P : NodeId → Proto S σ) (w : World S σ)
    (hr : (step cfg P w).2 = false) :
    step cfg P (step cfg P w).1 = ((step cfg P w).1, false) := by
  have hf := C05_completed_is_finalized cfg P w hr
  generalize (step cfg P w).1 = w' at hf
  unfold step
  simp [hf]

theorem steps_finalized (cfg : Config S) (P : NodeId → Proto S σ) (m : Nat) (w : World S σ)
    (hf : w.finalized = true) : steps cfg P m w = w := by
  induction m with
  | zero => rfl
  | succ m ih =>
    simp only [steps]
    have : (step cfg P w).1 = w := by unfold step; simp [hf]
    rw [this]; exact ih

/-- a run driven by the blocking call and a run driven by any sufficient number of manual steps
    (with any number of extra steps after completion) end in the same world, hence the same trace -/
theorem C05_driving_independent (cfg : Config S) (P : NodeId → Proto S σ) (fuel : Nat) (w : World S σ)
    (hc : (start cfg P fuel w).finalized = true) :
    ∃ n, ∀ m, n ≤ m → steps cfg P m w = start cfg P fuel w := by
  obtain ⟨n, _, hn⟩ := start_eq_steps cfg P fuel w
  refine ⟨n, fun m hm => ?_⟩
  obtain ⟨k, rfl⟩ := Nat.exists_eq_add_of_le hm
  rw [steps_add, ← hn]
  exact steps_finalized cfg P k _ hc

/-- non-vacuity of the shape: two handlers, two events -/
example (cfg : Config S) (hh : cfg.handlers = ["a", "b"]) :
    afterBlocks cfg [⟨5, 0, .mobTick⟩, ⟨7, 1, .mobTick⟩] =
    [.afterStep "a" 0 5, .afterStep "b" 0 5, .afterStep "a" 1 7, .afterStep "b" 1 7] := by
  simp [afterBlocks, afterBlocksR, hh]

end C05
