import GradysProofs.Lemmas.Interop
/-
  C14 — protocols behave the same in every environment wrapper.
  A. the interop wrapper returns, from every callback, exactly what was issued during it.
  B. the python wrapper forwards what the interop wrapper returns (two runs of ONE program).
  C. simulator-only extensions are no-ops on a non-python provider (repaired constructors, F14a).
  D. witness of finding F14b (`cancel_timer` under interop) on the model of the real behaviour.
-/
set_option linter.unusedSectionVars false

namespace C14
open Interop
variable {S σ : Type} [Scalar S]

/-! ### sequence-level lemmas -/

/-- a protocol none of whose callbacks lets an exception escape -/
def NeverRaisesP (P : XProto S σ) : Prop := ∀ s n t cb, NeverRaises (P.react s n t cb)

theorem neverRaisesP_ofProto (P : Proto S σ) : NeverRaisesP (XProto.ofProto P) :=
  fun _ _ _ _ => neverRaises_ofProg _

theorem neverRaisesP_toX (P : LProto S σ) : NeverRaisesP P.toX :=
  fun _ _ _ _ => neverRaises_ofList _ _

theorem irun_all_return (P : XProto S σ) (hP : NeverRaisesP P) (w : IW S σ)
    (steps : List (Int × Callback S)) : ∀ r ∈ (irun P w steps).2, r.ret ≠ none := by
  induction steps generalizing w with
  | nil => simp [irun]
  | cons st rest ih =>
    obtain ⟨t, cb⟩ := st
    simp only [irun, List.mem_cons]
    rintro r (rfl | hr)
    · exact (icallback_transcript P w t cb).2.2.2.mpr (run_returns _ _ (hP _ _ _ _) _)
    · exact ih _ r hr

/-- the invariant behind A: as long as every callback returns, each returns exactly what was issued
    during it and leaves nothing pending -/
theorem irun_inv (P : XProto S σ) (w : IW S σ) (hw : w.prov.consequences = [])
    (steps : List (Int × Callback S)) (hret : ∀ r ∈ (irun P w steps).2, r.ret ≠ none) :
    (∀ r ∈ (irun P w steps).2, r.ret = some (issued r.transcript)) ∧
    (irun P w steps).1.prov.consequences = [] := by
  induction steps generalizing w with
  | nil => simp [irun, hw]
  | cons st rest ih =>
    obtain ⟨t, cb⟩ := st
    simp only [irun, List.mem_cons] at hret ⊢
    have h0 := hret (icallback P w t cb).2 (Or.inl rfl)
    obtain ⟨L, hL⟩ := Option.ne_none_iff_exists'.mp h0
    have hr := icallback_returned P w t cb L hL
    have ih' := ih (icallback P w t cb).1 hr.2 (fun r hr' => hret r (Or.inr hr'))
    refine ⟨?_, ih'.2⟩
    rintro r (rfl | hr')
    · rw [hL, hr.1, hw, List.nil_append]
    · exact ih'.1 r hr'

theorem irun_flags (P : XProto S σ) (w : IW S σ) (steps : List (Int × Callback S)) :
    ∀ r ∈ (irun P w steps).2, ∀ x ∈ r.transcript, x.2 = iAccepts x.1 := by
  induction steps generalizing w with
  | nil => simp [irun]
  | cons st rest ih =>
    obtain ⟨t, cb⟩ := st
    simp only [irun, List.mem_cons]
    rintro r (rfl | hr)
    · rw [(icallback_transcript P w t cb).1]
      exact irun_prog_flags _ _
    · exact ih _ r hr

/-- everything the interop run returned, in terms of the actions performed -/
theorem irun_returnedAll (P : XProto S σ) (w : IW S σ) (hw : w.prov.consequences = [])
    (steps : List (Int × Callback S)) (hret : ∀ r ∈ (irun P w steps).2, r.ret ≠ none) :
    returnedAll (irun P w steps).2 =
      (((irun P w steps).2.map (fun r => r.transcript.map Prod.fst)).flatten).filterMap consequenceOf := by
  have inv := (irun_inv P w hw steps hret).1
  have fl := irun_flags P w steps
  generalize (irun P w steps).2 = rs at inv fl
  induction rs with
  | nil => rfl
  | cons r rs ih =>
    have h1 := inv r (List.mem_cons_self ..)
    have ih' := ih (fun x hx => inv x (List.mem_cons_of_mem _ hx)) (fun x hx => fl x (List.mem_cons_of_mem _ hx))
    simp only [returnedAll, List.filterMap_cons, h1, List.flatten_cons, List.map_cons,
      List.filterMap_append] at ih' ⊢
    rw [ih', issued_eq_filterMap _ (fl r (List.mem_cons_self ..))]

/-- the python forwarding log after a run, in terms of the actions performed (whatever is refused) -/
theorem prun_log (acc : PProv S → Act S → Bool) (P : XProto S σ) (w : PW S σ)
    (steps : List (Int × Callback S)) :
    (prun acc P w steps).1.prov.log =
      w.prov.log ++ provReqs (((prun acc P w steps).2.map (fun tr => tr.map Prod.fst)).flatten) ∧
    (prun acc P w steps).1.prov.id = w.prov.id := by
  induction steps generalizing w with
  | nil => simp [prun, provReqs]
  | cons st rest ih =>
    obtain ⟨t, cb⟩ := st
    simp only [prun, List.map_cons, List.flatten_cons]
    have h := prun_prog_spec acc (P.react w.pstate w.prov.id t cb) { w.prov with now := t }
    have ih' := ih (pcallback acc P w t cb).1
    refine ⟨?_, ?_⟩
    · rw [ih'.1, provReqs_append, ← List.append_assoc]
      congr 1
      exact h.1
    · rw [ih'.2]
      exact h.2.2

/-- the actions an acceptance-independent protocol performs, callback by callback: a function of the
    protocol and the callback sequence alone -/
def actsSeq (P : LProto S σ) (id : NodeId) : σ → List (Int × Callback S) → List (List (Act S))
  | _, [] => []
  | s, (t, cb) :: rest => P.acts s id t cb :: actsSeq P id (P.next s id t cb) rest

theorem prun_acts (acc : PProv S → Act S → Bool) (P : LProto S σ) (w : PW S σ)
    (steps : List (Int × Callback S)) :
    (prun acc P.toX w steps).2.map (fun tr => tr.map Prod.fst) = actsSeq P w.prov.id w.pstate steps := by
  induction steps generalizing w with
  | nil => rfl
  | cons st rest ih =>
    obtain ⟨t, cb⟩ := st
    have h := ofList_run (pHandle acc) (P.next w.pstate w.prov.id t cb) (P.acts w.pstate w.prov.id t cb)
      { w.prov with now := t }
    have hid := (prun_prog_spec acc (P.toX.react w.pstate w.prov.id t cb) { w.prov with now := t }).2.2
    simp only [prun, List.map_cons, actsSeq]
    rw [ih]
    congr 1
    · exact h.1
    · congr 1
      simp only [pcallback, pcallbackRun, LProto.toX, h.2, Outcome.state]

theorem irun_acts (P : LProto S σ) (w : IW S σ) (steps : List (Int × Callback S)) :
    (irun P.toX w steps).2.map (fun r => r.transcript.map Prod.fst) = actsSeq P w.prov.id w.pstate steps := by
  induction steps generalizing w with
  | nil => rfl
  | cons st rest ih =>
    obtain ⟨t, cb⟩ := st
    have h := ofList_run iHandle (P.next w.pstate w.prov.id t cb) (P.acts w.pstate w.prov.id t cb)
      { w.prov with timestamp := t }
    have ht := icallback_transcript P.toX w t cb
    simp only [irun, List.map_cons, actsSeq]
    rw [ih, ht.1, ht.2.1, ht.2.2.1]
    congr 1
    · exact h.1
    · congr 1
      simp only [icallbackRun, LProto.toX, h.2, Outcome.state]

theorem actsSeq_no_cancel (P : LProto S σ) (id : NodeId)
    (hnc : ∀ s n t cb, ∀ a ∈ P.acts s n t cb, isCancel a = false) (s : σ) (steps : List (Int × Callback S)) :
    ∀ a ∈ (actsSeq P id s steps).flatten, isCancel a = false := by
  induction steps generalizing s with
  | nil => simp [actsSeq]
  | cons st rest ih =>
    obtain ⟨t, cb⟩ := st
    simp only [actsSeq, List.flatten_cons, List.mem_append]
    rintro a (ha | ha)
    · exact hnc _ _ _ _ a ha
    · exact ih _ a ha

/-- two wrappers, nothing refused on either side: the same transcripts, callback by callback -/
theorem lockstep_seq (acc : PProv S → Act S → Bool) (P : XProto S σ) (wp : PW S σ) (wi : IW S σ)
    (hs : wp.pstate = wi.pstate) (hid : wp.prov.id = wi.prov.id) (steps : List (Int × Callback S))
    (hp : ∀ tr ∈ (prun acc P wp steps).2, ∀ x ∈ tr, x.2 = true)
    (hi : ∀ r ∈ (irun P wi steps).2, ∀ x ∈ r.transcript, x.2 = true) :
    (prun acc P wp steps).2 = (irun P wi steps).2.map (·.transcript) := by
  induction steps generalizing wp wi with
  | nil => rfl
  | cons st rest ih =>
    obtain ⟨t, cb⟩ := st
    simp only [prun, irun, List.map_cons, List.mem_cons] at hp hi ⊢
    have ht := icallback_transcript P wi t cb
    have hp0 : ∀ x ∈ (pcallbackRun acc P wp t cb).transcript, x.2 = true := hp _ (Or.inl rfl)
    have hi0 : ∀ x ∈ (icallbackRun P wi t cb).transcript, x.2 = true := by
      rw [← ht.1]; exact hi _ (Or.inl rfl)
    have ls : (pcallbackRun acc P wp t cb).transcript = (icallbackRun P wi t cb).transcript ∧
        (pcallbackRun acc P wp t cb).out = (icallbackRun P wi t cb).out := by
      unfold pcallbackRun at hp0 ⊢
      unfold icallbackRun at hi0 ⊢
      rw [hs, hid] at hp0 ⊢
      exact run_lockstep _ _ _ _ _ hp0 hi0
    have e1 : (pcallback acc P wp t cb).2 = (icallback P wi t cb).2.transcript := by
      rw [ht.1]; exact ls.1
    have e2 : (pcallback acc P wp t cb).1.pstate = (icallback P wi t cb).1.pstate := by
      rw [ht.2.1]
      show (pcallbackRun acc P wp t cb).out.state = _
      rw [ls.2]
    have e3 : (pcallback acc P wp t cb).1.prov.id = (icallback P wi t cb).1.prov.id := by
      rw [ht.2.2.1, ← hid]
      exact (prun_prog_spec acc _ _).2.2
    rw [e1]
    congr 1
    exact ih _ _ e2 e3 (fun tr h => hp tr (Or.inr h)) (fun r h => hi r (Or.inr h))

/-! ### A. the interop wrapper -/

/-- Each interop callback returns exactly the requests issued during it, in order, unchanged — for
    every protocol, every state with nothing pending and every callback sequence in which the
    callbacks return normally (GUARD: a callback that lets an exception escape — the real behaviour
    of an uncaught `cancel_timer` — returns nothing and is the subject of `C14_F14b_…` below). -/
theorem C14_returns_exactly (P : XProto S σ) (w : IW S σ) (hw : w.prov.consequences = [])
    (steps : List (Int × Callback S)) (hret : ∀ r ∈ (irun P w steps).2, r.ret ≠ none) :
    ∀ r ∈ (irun P w steps).2, r.ret = some (issued r.transcript) :=
  (irun_inv P w hw steps hret).1

/-- … in particular for EVERY program of the simulator model (`Prog`: refusals are caught), with no
    further hypothesis -/
theorem C14_returns_exactly_every_prog (P : Proto S σ) (id : NodeId) (steps : List (Int × Callback S)) :
    ∀ r ∈ (irun (XProto.ofProto P) (IW.init (XProto.ofProto P) id) steps).2, r.ret = some (issued r.transcript) :=
  C14_returns_exactly _ _ rfl steps (irun_all_return _ (neverRaisesP_ofProto P) _ steps)

/-- the consequence of an issued request IS the request: type by kind, payload unchanged, and only
    accepted provider calls and tracked-variable writes have one -/
theorem C14_consequence_content (a : Act S) (c : Consequence S) (h : consequenceOf a = some c) :
    c.payload = a ∧
    (c.type = .timer ↔ ∃ n t, a = .req (.setTimer n t)) ∧
    (c.type = .communication ↔ (∃ m d, a = .req (.send m d)) ∨ ∃ m, a = .req (.broadcast m)) ∧
    (c.type = .trackVariable ↔ ∃ k v, a = .track k v) := by
  cases a with
  | req r => cases r <;> simp_all [consequenceOf] <;> subst h <;> simp
  | track k v => simp_all [consequenceOf]; subst h; simp
  | ext e => simp [consequenceOf] at h

/-- Nothing is left over: after every such callback sequence the pending list is empty, and the
    lists returned so far, concatenated, are the consequences issued so far, concatenated — no
    request is returned twice, late, or lost. -/
theorem C14_nothing_left_over (P : XProto S σ) (w : IW S σ) (hw : w.prov.consequences = [])
    (steps : List (Int × Callback S)) (hret : ∀ r ∈ (irun P w steps).2, r.ret ≠ none) :
    (irun P w steps).1.prov.consequences = [] ∧
    returnedAll (irun P w steps).2 = ((irun P w steps).2.map (fun r => issued r.transcript)).flatten := by
  have inv := irun_inv P w hw steps hret
  refine ⟨inv.2, ?_⟩
  have h := inv.1
  generalize (irun P w steps).2 = rs at h
  induction rs with
  | nil => rfl
  | cons r rs ih =>
    have h1 := h r (List.mem_cons_self ..)
    have ih' := ih (fun x hx => h x (List.mem_cons_of_mem _ hx))
    simp only [returnedAll, List.filterMap_cons, h1, List.flatten_cons, List.map_cons] at ih' ⊢
    rw [ih']

theorem C14_nothing_left_over_every_prog (P : Proto S σ) (id : NodeId) (steps : List (Int × Callback S)) :
    (irun (XProto.ofProto P) (IW.init (XProto.ofProto P) id) steps).1.prov.consequences = [] :=
  (C14_nothing_left_over _ _ rfl steps (irun_all_return _ (neverRaisesP_ofProto P) _ steps)).1

/-! ### B. python wrapper vs interop wrapper -/

/-- For every protocol whose continuation does not depend on acceptance, every node id, every
    behaviour `acc` of the python handlers and every callback sequence at given times:
    the two wrappers make the protocol perform the same actions callback by callback, and the
    requests the python wrapper forwarded to its handlers (each to exactly one, in order — `route`)
    are, as consequences, exactly the concatenation of the lists the interop wrapper returned,
    tracked-variable writes apart (python keeps those in a dict).  `cancel_timer`, which interop
    refuses (F14b), is forwarded by python and has no consequence: `fwdConsequence` drops it. -/
theorem C14_wrapper_equivalence (P : LProto S σ) (id : NodeId) (acc : PProv S → Act S → Bool)
    (steps : List (Int × Callback S)) :
    let py := prun acc P.toX (PW.init P.toX id) steps
    let io := irun P.toX (IW.init P.toX id) steps
    py.1.prov.log.filterMap fwdConsequence = (returnedAll io.2).filter (fun c => !isTrack c) ∧
    py.2.map (fun tr => tr.map Prod.fst) = io.2.map (fun r => r.transcript.map Prod.fst) := by
  intro py io
  have hret := irun_all_return P.toX (neverRaisesP_toX P) (IW.init P.toX id) steps
  have h1 := (prun_log acc P.toX (PW.init P.toX id) steps).1
  have h2 := irun_returnedAll P.toX (IW.init P.toX id) rfl steps hret
  have a1 := prun_acts acc P (PW.init P.toX id) steps
  have a2 := irun_acts P (IW.init P.toX id) steps
  refine ⟨?_, by rw [a1, a2]; rfl⟩
  show (prun acc P.toX (PW.init P.toX id) steps).1.prov.log.filterMap fwdConsequence = _
  rw [h1, h2, a1, a2]
  simp only [PW.init, IW.init, List.nil_append]
  exact provReqs_consequences _

/-- with the explicit hypothesis "no `cancel_timer`": the correspondence is one-to-one — every
    forwarded request has its consequence, nothing dropped on either side but tracked variables -/
theorem C14_wrapper_equivalence_no_cancel (P : LProto S σ) (id : NodeId) (acc : PProv S → Act S → Bool)
    (steps : List (Int × Callback S)) (hnc : ∀ s n t cb, ∀ a ∈ P.acts s n t cb, isCancel a = false) :
    let py := prun acc P.toX (PW.init P.toX id) steps
    let io := irun P.toX (IW.init P.toX id) steps
    py.1.prov.log.map fwdConsequence = ((returnedAll io.2).filter (fun c => !isTrack c)).map some := by
  intro py io
  rw [← (C14_wrapper_equivalence P id acc steps).1]
  have h1 := (prun_log acc P.toX (PW.init P.toX id) steps).1
  have a1 := prun_acts acc P (PW.init P.toX id) steps
  show (prun acc P.toX (PW.init P.toX id) steps).1.prov.log.map fwdConsequence = _
  rw [h1, a1]
  simp only [PW.init, List.nil_append]
  have hall := actsSeq_no_cancel P id hnc P.toX.init steps
  have hs := fwdConsequence_isSome _ hall
  generalize provReqs (actsSeq P id P.toX.init steps).flatten = l at hs
  induction l with
  | nil => rfl
  | cons x l ih =>
    have hx := hs x (List.mem_cons_self ..)
    obtain ⟨c, hc⟩ := Option.isSome_iff_exists.mp hx
    simp only [List.map_cons, List.filterMap_cons, hc]
    rw [ih (fun y hy => hs y (List.mem_cons_of_mem _ hy))]

/-- For ANY protocol (continuations may depend on acceptance) and any callback sequence in which
    neither environment refuses anything and the callbacks return: same transcripts, and forwarded
    requests = concatenation of the returned consequence lists.  (When one side refuses, a protocol
    that branches on the refusal necessarily diverges: interop validates nothing — by design.) -/
theorem C14_wrapper_equivalence_nothing_refused (P : XProto S σ) (id : NodeId)
    (acc : PProv S → Act S → Bool) (steps : List (Int × Callback S))
    (hp : ∀ tr ∈ (prun acc P (PW.init P id) steps).2, ∀ x ∈ tr, x.2 = true)
    (hi : ∀ r ∈ (irun P (IW.init P id) steps).2, ∀ x ∈ r.transcript, x.2 = true)
    (hret : ∀ r ∈ (irun P (IW.init P id) steps).2, r.ret ≠ none) :
    let py := prun acc P (PW.init P id) steps
    let io := irun P (IW.init P id) steps
    py.1.prov.log.filterMap fwdConsequence = (returnedAll io.2).filter (fun c => !isTrack c) ∧
    py.2 = io.2.map (·.transcript) := by
  intro py io
  have ls := lockstep_seq acc P (PW.init P id) (IW.init P id) rfl rfl steps hp hi
  have h1 := (prun_log acc P (PW.init P id) steps).1
  have h2 := irun_returnedAll P (IW.init P id) rfl steps hret
  refine ⟨?_, ls⟩
  show (prun acc P (PW.init P id) steps).1.prov.log.filterMap fwdConsequence = _
  rw [h1, h2, ls]
  simp only [PW.init, List.nil_append, List.map_map]
  exact provReqs_consequences _

/-! ### C. extensions on a non-python provider -/

/-- With a provider that is not a `PythonProvider` every method of the camera, communication and
    visualization controllers returns normally with its neutral value (`[]` / nothing), touches no
    handler, and — called on the interop provider — appends no consequence.  (A negative range is
    still rejected with `ValueError`, as inside the simulator.) -/
theorem C14_extensions_noop (c : ExtCall) (r : S) (p : IProv S) :
    Ext.call .other c = ⟨true, false, true⟩ ∧
    (Ext.setRange .other r).touchesHandler = false ∧ (Ext.setRange .other r).neutral = true ∧
    (Ext.setRange .other r).ok = !(Scalar.lt r (Scalar.ofInt 0)) ∧
    iHandle p (.ext c) = (p, true) ∧ (iHandle p (.req (.setRange r))).1 = p := by
  refine ⟨?_, ?_, ?_, ?_, ?_, ?_⟩
  · cases c <;> simp [Ext.call, Ext.handler?, Ext.provider?]
  · simp only [Ext.setRange, Ext.handler?, Ext.provider?]; split <;> simp
  · simp only [Ext.setRange, Ext.handler?, Ext.provider?]; split <;> simp
  · simp only [Ext.setRange, Ext.handler?, Ext.provider?]; split <;> simp_all
  · cases c <;> simp [iHandle, iAccepts, consequenceOf, Ext.call, Ext.handler?, Ext.provider?]
  · simp only [iHandle, consequenceOf]; split <;> rfl

/-- the same for a python provider that simply lacks the handler -/
theorem C14_extensions_noop_without_handler (hs : String → Bool) (c : ExtCall)
    (h : hs (Ext.labelOf c) = false) : Ext.call (.python hs) c = ⟨true, false, true⟩ := by
  cases c <;> simp_all [Ext.call, Ext.handler?, Ext.provider?, Ext.labelOf]

/-- `take_picture()` without a mobility handler (always the case outside the python simulator) is a
    no-op however often it is called and whatever the callers did to the lists they were handed
    before (`al` is arbitrary): the list handed out is empty, it is a list of its own, and the
    earlier ones are left as they are. -/
theorem C14_picture_noop_fresh (sees : List Nat) (al : Ext.Album) :
    (Ext.takePicture .other sees al).2[(Ext.takePicture .other sees al).1]? = some [] ∧
    (Ext.takePicture .other sees al).1 = al.length ∧
    ∀ i, i < al.length → (Ext.takePicture .other sees al).2[i]? = al[i]? := by
  refine ⟨?_, rfl, fun i hi => ?_⟩
  · simp [Ext.takePicture, Ext.handler?, Ext.provider?]
  · simp [Ext.takePicture, List.getElem?_append_left hi]

/-- inside the python simulator two pictures are two lists as well -/
theorem C14_picture_fresh_in_python (hs : String → Bool) (sees : List Nat) (al : Ext.Album) :
    ∀ i, i < al.length → (Ext.takePicture (.python hs) sees al).2[i]? = al[i]? := by
  intro i hi
  simp [Ext.takePicture, List.getElem?_append_left hi]

/-! ### D. finding F14b — `cancel_timer` under interop, model of the real behaviour

  FULL statement of part A, without the guard "callbacks return normally":
      ∀ P steps, ∀ r ∈ (irun P (IW.init P id) steps).2, ∀ L, r.ret = some L → L = issued r.transcript
  It is FALSE for the real wrapper: `InteropProvider.cancel_timer` raises NotImplementedError; a
  protocol that does not catch it aborts its callback before `_collect_consequences()` runs, and the
  requests issued earlier in that callback are returned by the NEXT callback. -/

/-- trivial scalar for closed witnesses -/
instance unitScalar : Scalar Unit where
  ofInt _ := ()
  add _ _ := ()
  sub _ _ := ()
  mul _ _ := ()
  div _ _ := ()
  neg _ := ()
  sq _ := ()
  sqrt _ := ()
  sin _ := ()
  cos _ := ()
  acos? _ := some ()
  atan2 _ _ := ()
  radians _ := ()
  le _ _ := true
  lt _ _ := false

/-- `initialize` sets a timer and then calls `cancel_timer` without catching; `handle_timer` does nothing -/
def f14bProto : XProto Unit Unit :=
  { init := (),
    react := fun _ _ _ cb => match cb with
      | .initialize => .act (.req (.setTimer "a" 5))
          (fun _ => .act (.req (.cancelTimer "a")) (fun ok => if ok then .done () else .raise ()))
      | _ => .done () }

/-- the first callback raises and returns nothing; the second, which issued nothing, returns the
    first one's timer -/
theorem C14_F14b_cancel_timer_leaks :
    (irun f14bProto (IW.init f14bProto 0) [(0, .initialize), (1, .timer "x")]).2.map (fun r => (r.ret, issued r.transcript))
      = [(none, [⟨.timer, .req (.setTimer "a" 5)⟩]), (some [⟨.timer, .req (.setTimer "a" 5)⟩], [])] := by
  decide

/-- hence the unguarded statement of part A is false -/
theorem C14_F14b_unguarded_statement_false :
    ¬ (∀ (P : XProto Unit Unit) (steps : List (Int × Callback Unit)),
        ∀ r ∈ (irun P (IW.init P 0) steps).2, ∀ L, r.ret = some L → L = issued r.transcript) := by
  intro h
  have := h f14bProto [(0, .initialize), (1, .timer "x")]
    ⟨some [⟨.timer, .req (.setTimer "a" 5)⟩], []⟩ (by decide) _ rfl
  exact absurd this (by decide)

/-! ### E. several wrapped instances of one protocol class alive in one process

  OMNeT++ and the python simulator both create one wrapper per node from the same protocol class;
  the callbacks of the nodes interleave.  "Nothing left over from earlier callbacks" and "the same
  requests whether wrapped for the python simulator or for interop" are statements about ONE
  protocol instance: they hold for it whatever the other instances (of either wrapper) are fed,
  before, between and after its own callbacks. -/

/-- For every protocol, every family of wrapper states and every interleaving: what instance `k`
    returns / performs / forwards and the state it ends in are those of instance `k` driven ALONE
    through the callbacks addressed to it — under both wrappers. -/
theorem C14_instances_independent (P : XProto S σ) (acc : PProv S → Act S → Bool)
    (iws : Nat → IW S σ) (pws : Nat → PW S σ) (steps : List (Nat × Int × Callback S)) (k : Nat) :
    resultsOf k (irunMulti P iws steps).2 = (irun P (iws k) (stepsOf k steps)).2 ∧
    (irunMulti P iws steps).1 k = (irun P (iws k) (stepsOf k steps)).1 ∧
    resultsOf k (prunMulti acc P pws steps).2 = (prun acc P (pws k) (stepsOf k steps)).2 ∧
    (prunMulti acc P pws steps).1 k = (prun acc P (pws k) (stepsOf k steps)).1 := by
  have hi := runMulti_proj (istep P) iws steps k
  have hp := runMulti_proj (pstep acc P) pws steps k
  rw [← irun_eq_runSeq] at hi
  rw [← prun_eq_runSeq] at hp
  exact ⟨hi.1, hi.2, hp.1, hp.2⟩

theorem mem_resultsOf {R : Type} (x : Nat × R) (rs : List (Nat × R)) (h : x ∈ rs) : x.2 ∈ resultsOf x.1 rs := by
  simp only [resultsOf, List.mem_map, List.mem_filter]
  exact ⟨x, ⟨h, by simp⟩, rfl⟩

/-- part A among instances: in every interleaving of the callbacks of any number of interop-wrapped
    instances of a program of the simulator model, EVERY callback returns exactly what its own
    instance issued during it, and no instance is left with anything pending. -/
theorem C14_returns_exactly_among_instances (P : Proto S σ) (ids : Nat → NodeId)
    (steps : List (Nat × Int × Callback S)) :
    (∀ x ∈ (irunMulti (XProto.ofProto P) (fun k => IW.init (XProto.ofProto P) (ids k)) steps).2,
      x.2.ret = some (issued x.2.transcript)) ∧
    ∀ k, ((irunMulti (XProto.ofProto P) (fun k => IW.init (XProto.ofProto P) (ids k)) steps).1 k).prov.consequences = [] := by
  refine ⟨fun x hx => ?_, fun k => ?_⟩
  · have hm := mem_resultsOf x _ hx
    rw [(C14_instances_independent (XProto.ofProto P) (fun _ _ => true)
      (fun k => IW.init (XProto.ofProto P) (ids k)) (fun k => PW.init (XProto.ofProto P) (ids k)) steps x.1).1] at hm
    exact C14_returns_exactly_every_prog P (ids x.1) _ x.2 hm
  · rw [(C14_instances_independent (XProto.ofProto P) (fun _ _ => true)
      (fun k => IW.init (XProto.ofProto P) (ids k)) (fun k => PW.init (XProto.ofProto P) (ids k)) steps k).2.1]
    exact C14_nothing_left_over_every_prog P (ids k) _

/-- part B among instances: instance `k` of an acceptance-independent protocol performs the same
    actions, callback by callback, and has forwarded (python) exactly what was returned to it
    (interop), whatever the OTHER instances of either run were fed — the two runs need not even
    contain the same other instances (`stepsI`, `stepsP` agree on the callbacks of `k` only). -/
theorem C14_wrapper_equivalence_among_instances (P : LProto S σ) (ids : Nat → NodeId)
    (acc : PProv S → Act S → Bool) (stepsI stepsP : List (Nat × Int × Callback S)) (k : Nat)
    (hk : stepsOf k stepsI = stepsOf k stepsP) :
    let py := prunMulti acc P.toX (fun j => PW.init P.toX (ids j)) stepsP
    let io := irunMulti P.toX (fun j => IW.init P.toX (ids j)) stepsI
    (py.1 k).prov.log.filterMap fwdConsequence = (returnedAll (resultsOf k io.2)).filter (fun c => !isTrack c) ∧
    (resultsOf k py.2).map (fun tr => tr.map Prod.fst) = (resultsOf k io.2).map (fun r => r.transcript.map Prod.fst) := by
  intro py io
  have hI := C14_instances_independent P.toX acc (fun j => IW.init P.toX (ids j)) (fun j => PW.init P.toX (ids j)) stepsI k
  have hP := C14_instances_independent P.toX acc (fun j => IW.init P.toX (ids j)) (fun j => PW.init P.toX (ids j)) stepsP k
  show ((prunMulti acc P.toX (fun j => PW.init P.toX (ids j)) stepsP).1 k).prov.log.filterMap fwdConsequence
      = (returnedAll (resultsOf k (irunMulti P.toX (fun j => IW.init P.toX (ids j)) stepsI).2)).filter (fun c => !isTrack c) ∧
    (resultsOf k (prunMulti acc P.toX (fun j => PW.init P.toX (ids j)) stepsP).2).map (fun tr => tr.map Prod.fst)
      = (resultsOf k (irunMulti P.toX (fun j => IW.init P.toX (ids j)) stepsI).2).map (fun r => r.transcript.map Prod.fst)
  rw [hP.2.2.2, hP.2.2.1, hI.1, hk]
  exact C14_wrapper_equivalence P (ids k) acc (stepsOf k stepsP)

/-! ### F. protocols built from plugins: handlers registered with the instance's dispatcher

  `create_dispatcher(protocol)` replaces the callback methods of the protocol INSTANCE by a chain
  (registered handlers, newest first, then the protocol's own method; INTERRUPT ends the chain of a
  timer / packet / telemetry callback) — usually from `initialize()`, i.e. after the wrapper has
  instantiated the protocol.  A wrapper calls `self.protocol.handle_x(...)`: it runs whatever the
  instance's method is at that moment, so to both wrappers the plugged protocol is just another
  protocol (`XProto.plugged`), and everything above holds for it. -/

/-- part A for plugged protocols: whatever handlers are plugged in and whenever (`on`), each interop
    callback returns exactly what the handlers it reached and the protocol's own method issued during
    it, in order, and nothing is left pending — provided none of them lets an exception escape. -/
theorem C14_plugged_returns_exactly (P : XProto S σ) (on : σ → Bool) (chain : List (Stage S σ))
    (hP : NeverRaisesP P) (hc : ∀ h ∈ chain, ∀ s n t cb, NeverRaises' (h.react s n t cb))
    (id : NodeId) (steps : List (Int × Callback S)) :
    (∀ r ∈ (irun (P.plugged on chain) (IW.init (P.plugged on chain) id) steps).2, r.ret = some (issued r.transcript)) ∧
    (irun (P.plugged on chain) (IW.init (P.plugged on chain) id) steps).1.prov.consequences = [] := by
  have hQ : NeverRaisesP (P.plugged on chain) := by
    intro s n t cb
    simp only [XProto.plugged]
    split
    · refine neverRaises_chainProg _ _ _ (fun s' => hP s' n t cb) (fun h hh s' => ?_) s
      obtain ⟨g, hg, rfl⟩ := List.mem_map.mp hh
      exact hc g hg s' n t cb
    · exact hP s n t cb
  have hret := irun_all_return _ hQ (IW.init (P.plugged on chain) id) steps
  exact ⟨C14_returns_exactly _ _ rfl steps hret, (C14_nothing_left_over _ _ rfl steps hret).1⟩

/-- part B for plugged protocols, acceptance-independent handlers: an acceptance-independent
    protocol with acceptance-independent handlers plugged in front of its callbacks (answers
    CONTINUE / INTERRUPT included) performs the same actions callback by callback under both
    wrappers, and python forwards what interop returns — whatever the python handlers refuse. -/
theorem C14_plugged_wrapper_equivalence (P : LProto S σ) (on : σ → Bool) (chain : List (LStage S σ))
    (id : NodeId) (acc : PProv S → Act S → Bool) (steps : List (Int × Callback S)) :
    let Q := P.toX.plugged on (chain.map LStage.toStage)
    let py := prun acc Q (PW.init Q id) steps
    let io := irun Q (IW.init Q id) steps
    py.1.prov.log.filterMap fwdConsequence = (returnedAll io.2).filter (fun c => !isTrack c) ∧
    py.2.map (fun tr => tr.map Prod.fst) = io.2.map (fun r => r.transcript.map Prod.fst) := by
  intro Q
  have hQ : Q = (P.plugged on chain).toX := (plugged_toX P on chain).symm
  rw [hQ]
  exact C14_wrapper_equivalence (P.plugged on chain) id acc steps

/-- part B for plugged protocols, any handlers: when neither environment refuses anything and the
    callbacks return, the transcripts (hence the handlers reached) are the same callback by callback -/
theorem C14_plugged_wrapper_equivalence_nothing_refused (P : XProto S σ) (on : σ → Bool) (chain : List (Stage S σ))
    (id : NodeId) (acc : PProv S → Act S → Bool) (steps : List (Int × Callback S))
    (hp : ∀ tr ∈ (prun acc (P.plugged on chain) (PW.init (P.plugged on chain) id) steps).2, ∀ x ∈ tr, x.2 = true)
    (hi : ∀ r ∈ (irun (P.plugged on chain) (IW.init (P.plugged on chain) id) steps).2, ∀ x ∈ r.transcript, x.2 = true)
    (hret : ∀ r ∈ (irun (P.plugged on chain) (IW.init (P.plugged on chain) id) steps).2, r.ret ≠ none) :
    (prun acc (P.plugged on chain) (PW.init (P.plugged on chain) id) steps).2 =
      (irun (P.plugged on chain) (IW.init (P.plugged on chain) id) steps).2.map (·.transcript) :=
  (C14_wrapper_equivalence_nothing_refused (P.plugged on chain) id acc steps hp hi hret).2

/-! ### non-vacuity -/

/-- a protocol that, on every callback, sets a timer, writes a tracked variable, cancels (refused
    under interop, caught) and broadcasts -/
def demo : LProto Unit Nat :=
  { init := 0, next := fun s _ _ _ => s + 1,
    acts := fun s _ t _ => [.req (.setTimer "t" (t + 1)), .track "n" (toString s), .req (.cancelTimer "t"),
                            .ext .cameraTakePicture, .req (.broadcast "hi")] }

example : (irun demo.toX (IW.init demo.toX 3) [(0, .initialize), (4, .timer "t")]).2.map (·.ret) =
    [some [⟨.timer, .req (.setTimer "t" 1)⟩, ⟨.trackVariable, .track "n" "0"⟩, ⟨.communication, .req (.broadcast "hi")⟩],
     some [⟨.timer, .req (.setTimer "t" 5)⟩, ⟨.trackVariable, .track "n" "1"⟩, ⟨.communication, .req (.broadcast "hi")⟩]] := by
  decide

example : (prun (fun _ _ => true) demo.toX (PW.init demo.toX 3) [(0, .initialize), (4, .timer "t")]).1.prov.log =
    [(.timer, .setTimer "t" 1), (.timer, .cancelTimer "t"), (.communication, .broadcast "hi"),
     (.timer, .setTimer "t" 5), (.timer, .cancelTimer "t"), (.communication, .broadcast "hi")] := by
  decide

/-- two instances (ids 3 and 5) of `demo`, callbacks interleaved: each counts its own callbacks -/
example : (irunMulti demo.toX (fun k => IW.init demo.toX (if k = 0 then 3 else 5))
      [(0, 0, .initialize), (1, 0, .initialize), (1, 2, .timer "t"), (0, 4, .timer "t")]).2.map
        (fun x => (x.1, x.2.ret.map (fun L => L.filter isTrack))) =
    [(0, some [⟨.trackVariable, .track "n" "0"⟩]), (1, some [⟨.trackVariable, .track "n" "0"⟩]),
     (1, some [⟨.trackVariable, .track "n" "1"⟩]), (0, some [⟨.trackVariable, .track "n" "1"⟩])] := by
  decide

/-- `demo` with two handlers plugged in from the second callback on (`on`: the instance has seen a
    callback): on a timer the newer handler broadcasts "h1" and the older one answers INTERRUPT, so the
    protocol's own method is not reached; `finish` cannot be interrupted -/
def h0 : LStage Unit Nat := { next := fun s _ _ _ => s, acts := fun _ _ _ _ => [.req (.broadcast "h0")], stop := fun _ _ _ _ => true }
def h1 : LStage Unit Nat := { next := fun s _ _ _ => s + 1, acts := fun _ _ _ _ => [.req (.broadcast "h1")], stop := fun _ _ _ _ => false }

example : (irun (demo.toX.plugged (fun s => decide (s > 0)) ([h1, h0].map LStage.toStage))
      (IW.init demo.toX 3) [(0, .initialize), (4, .timer "t"), (4, .finish)]).2.map
        (fun r => r.ret.map (fun L => L.filterMap (fun c => match c.payload with | .req (.broadcast m) => some m | _ => none))) =
    [some ["hi"], some ["h1", "h0"], some ["h1", "h0", "hi"]] := by
  decide

end C14
