import GradysProofs.Lemmas.MissionStep
/-
  C16 — a mission always targets a valid waypoint and its status flags stay consistent.

  Model: `GradysModel/Mission.lean` (the repaired `MissionMobilityPlugin`).  The theorems quantify over
  every configuration (loop mode, tolerance, speed), every non-empty mission (lengths 1 and 2 are not
  special-cased anywhere) and every history of start / stop / set-waypoint / set-reversed / telemetry
  calls.  The model consults the scalar type only in `reached` (`_has_reached_target`); the lemmas
  are proved for an arbitrary answer of that test (`telemetryB cfg s r`, `r : Bool`), so the theorems
  hold for every `[Scalar S]` — reals, IEEE doubles with any rounding, the integer lattice.

  Guard: missions are non-empty (`Op.valid`).  `start_mission([])` on the real code raises
  `IndexError` after it changed the fields (the model reproduces this as `Out.crash`); the property
  quantifies over lengths ≥ 1.
-/
set_option linter.unusedSectionVars false

namespace C16
open Mission
variable {S : Type}

/-! ### the invariant -/

/-- the telemetry handler preserves the invariant for EVERY outcome of the reached-test: no property
    of the scalar arithmetic (exactness, rounding direction, NaN handling) is used -/
theorem C16_inv_any_reached (cfg : Config S) (s : State S) (h : MInv cfg s) (r : Bool) :
    MInv cfg (telemetryB cfg s r).1 := (telemetryB_inv h r).1

section
variable [Scalar S]

/-- `MInv` (active ⇒ `0 ≤ wp < len`, not idle, last goto = `mission[wp]`; inactive ⇒ no waypoint,
    idle, not reversed; reversed only in REVERSE mode) holds initially, is preserved by every call,
    hence holds after every history; and no call of such a history raises anything but the plugin's
    own exception. -/
theorem C16_inv (cfg : Config S) :
    MInv cfg (init : State S) ∧
    (∀ (s : State S) (op : Op S), MInv cfg s → op.valid →
      MInv cfg (apply cfg s op).1 ∧ (apply cfg s op).2 ≠ .crash) ∧
    (∀ ops : List (Op S), (∀ op ∈ ops, op.valid) → MInv cfg (run cfg init ops)) :=
  ⟨init_inv cfg, fun _ op h hv => apply_inv h op hv, fun ops hv => run_inv ops (init_inv cfg) hv⟩

/-- the invariant spelled out on the three status properties, after every history:
    idle ⇔ no current waypoint ⇔ no mission; never reversed while idle; reversed only in REVERSE mode;
    while a mission is active the current waypoint is one of its indices. -/
theorem C16_status_consistent (cfg : Config S) (ops : List (Op S)) (hv : ∀ op ∈ ops, op.valid) :
    let s := run cfg init ops
    (s.idle = true ↔ s.wp = none) ∧ (s.wp = none ↔ s.mission = none) ∧
    (s.idle = true → s.reversed = false) ∧ (cfg.loop ≠ .reverse → s.reversed = false) ∧
    (∀ m, s.mission = some m → ∃ i : Nat, s.wp = some (i : Int) ∧ i < m.length) := by
  intro s
  have h : MInv cfg s := run_inv ops (init_inv cfg) hv
  have key : (s.mission = none ∧ s.wp = none ∧ s.idle = true ∧ s.reversed = false) ∨
      (∃ m, s.mission = some m ∧ ∃ i : Nat, s.wp = some (i : Int) ∧ i < m.length ∧ s.idle = false) := by
    cases hm : s.mission with
    | none => exact Or.inl ⟨rfl, h.pre.inactive hm⟩
    | some m =>
      obtain ⟨w, hw, h0, h1, hidle⟩ := h.pre.active m hm
      exact Or.inr ⟨m, rfl, w.toNat, by rw [hw]; congr 1; omega, by omega, hidle⟩
  refine ⟨?_, ?_, ?_, h.pre.mode, ?_⟩
  · rcases key with ⟨_, hw, hi, _⟩ | ⟨m, _, i, hw, _, hi⟩ <;> simp [hw, hi]
  · rcases key with ⟨hm, hw, _, _⟩ | ⟨m, hm, i, hw, _, _⟩ <;> simp [hw, hm]
  · rcases key with ⟨_, _, _, hr⟩ | ⟨m, _, i, _, _, hi⟩
    · simp [hr]
    · simp [hi]
  · intro m hm
    rcases key with ⟨hm', _⟩ | ⟨m', hm', i, hw, hi, _⟩
    · simp [hm] at hm'
    · have : m' = m := by simpa [hm] using hm'.symm
      subst this
      exact ⟨i, hw, hi⟩

/-- while a mission is active, the last goto command the plugin issued went to exactly
    `mission[current_waypoint]` — after every history -/
theorem C16_last_command_is_goto_current (cfg : Config S) (ops : List (Op S))
    (hv : ∀ op ∈ ops, op.valid) :
    let s := run cfg init ops
    ∀ m, s.mission = some m →
      ∃ (i : Nat) (p : V3 S), s.wp = some (i : Int) ∧ m[i]? = some p ∧ lastGoto s.log = some p := by
  intro s m hm
  have h : MInv cfg s := run_inv ops (init_inv cfg) hv
  obtain ⟨w, hw, h0, h1, _⟩ := h.pre.active m hm
  obtain ⟨p, hp⟩ := pyGet_of_bounds m w h0 h1
  have hw' : w = ((w.toNat : Nat) : Int) := by omega
  refine ⟨w.toNat, p, by rw [hw]; congr 1, ?_, ?_⟩
  · rw [← pyGet_natCast, ← hw']; exact hp
  · rw [h.goto m w hm hw]; exact hp

end

/-! ### invalid requests -/

/-- `set_current_waypoint` is refused exactly when there is no mission or the index is out of bounds,
    `set_reversed` exactly when there is no mission or the mode is not REVERSE; start / stop are never
    refused; a refused call leaves the plugin — fields and command log — exactly as it was.
    (No invariant is needed: this holds in every state.) -/
theorem C16_errors_noop (cfg : Config S) (s : State S) :
    (∀ i, (setWaypoint s i).2 = .refused ↔
      (s.mission = none ∨ ∃ m, s.mission = some m ∧ (i < 0 ∨ (m.length : Int) ≤ i))) ∧
    (∀ b, (setReversed cfg s b).2 = .refused ↔ (s.mission = none ∨ cfg.loop ≠ .reverse)) ∧
    (∀ i, (setWaypoint s i).2 = .refused → (setWaypoint s i).1 = s) ∧
    (∀ b, (setReversed cfg s b).2 = .refused → (setReversed cfg s b).1 = s) ∧
    (∀ m, (start cfg s m).2 ≠ .refused) ∧ (∀ r, (telemetryB cfg s r).2 ≠ .refused) := by
  obtain ⟨mi, wp, rev, idle, log⟩ := s
  have hout : ∀ x : State S × Bool, (outOf x).2 ≠ .refused := fun x => by
    unfold outOf; cases x.2 <;> simp
  refine ⟨fun i => ?_, fun b => ?_, fun i => ?_, fun b => ?_, fun m => ?_, fun r => ?_⟩
  · cases mi with
    | none => simp [setWaypoint]
    | some m =>
      unfold setWaypoint
      by_cases hb : i < 0 ∨ (m.length : Int) ≤ i
      · simp [hb]
      · simp only [if_neg hb]
        constructor
        · intro h; exact absurd h (hout _)
        · rintro (h | ⟨m', hm', hb'⟩)
          · simp at h
          · have : m' = m := by simpa using hm'.symm
            subst this; exact absurd hb' hb
  · cases mi with
    | none => simp [setReversed, setReversedWith]
    | some m =>
      unfold setReversed setReversedWith
      by_cases hl : cfg.loop = .reverse
      · simp only [hl, ne_eq, not_true_eq_false, if_false]
        constructor
        · intro h
          split at h
          · exact absurd h (hout _)
          · simp at h
        · rintro (h | h) <;> simp at h
      · simp [hl]
  · cases mi with
    | none => simp [setWaypoint]
    | some m =>
      unfold setWaypoint
      by_cases hb : i < 0 ∨ (m.length : Int) ≤ i
      · simp [hb]
      · simp only [if_neg hb]; intro h; exact absurd h (hout _)
  · cases mi with
    | none => simp [setReversed, setReversedWith]
    | some m =>
      unfold setReversed setReversedWith
      by_cases hl : cfg.loop = .reverse
      · simp only [hl, ne_eq, not_true_eq_false, if_false]
        intro h
        split at h
        · exact absurd h (hout _)
        · simp at h
      · simp [hl]
  · unfold start
    simp only
    split <;> simp
  · unfold telemetryB telemetryWith
    cases mi with
    | none => simp
    | some m =>
      cases r with
      | false => simp
      | true => exact hout _

section
variable [Scalar S]

/-- the same at the level of the public calls: whatever call is refused, nothing changed -/
theorem C16_errors_noop_apply (cfg : Config S) (s : State S) (op : Op S)
    (h : (apply cfg s op).2 = .refused) : (apply cfg s op).1 = s := by
  have e := C16_errors_noop cfg s
  cases op with
  | start m => exact absurd h (e.2.2.2.2.1 m)
  | stop => simp [apply] at h
  | setWaypoint i => exact e.2.2.1 i h
  | setReversed b => exact e.2.2.2.1 b h
  | telemetry pos => exact absurd h (e.2.2.2.2.2 _)

end

/-! ### visiting order -/

/-- the loop modes, as equations for `Mission.next` (the function the theorems below refer to):
    NO: `i ↦ i+1`, the mission ends after the last waypoint; RESTART: `i ↦ (i+1) mod len`;
    REVERSE: one step in the current direction; at the last waypoint turn round to `len−2`
    (`0` for a single waypoint); at the first waypoint start over: waypoint 0 again, forwards. -/
theorem C16_next_rules (n i : Nat) :
    next .no n i false = (if i + 1 < n then some (i + 1, false) else none) ∧
    next .restart n i false = some ((i + 1) % n, false) ∧
    next .reverse n i false = (if i + 1 < n then some (i + 1, false) else some (n - 2, true)) ∧
    next .reverse n i true = (if 0 < i then some (i - 1, true) else some (0, false)) ∧
    next .reverse 1 0 false = some (0, true) := by
  simp [next]

/-- a telemetry that does not reach the current waypoint (or arrives while no mission is active) changes
    nothing; one that reaches waypoint `i` moves the index as `next` says, keeps everything else, and
    issues exactly one command, the goto to the new waypoint; when `next` ends the mission the plugin
    is stopped and no command is issued. -/
theorem C16_visit_order (cfg : Config S) (s : State S) (h : MInv cfg s) :
    telemetryB cfg s false = (s, .ok) ∧
    (s.mission = none → ∀ r, telemetryB cfg s r = (s, .ok)) ∧
    (∀ m (i : Nat), s.mission = some m → s.wp = some (i : Int) →
      (next cfg.loop m.length i s.reversed = none →
        telemetryB cfg s true = (stopMission s, .ok)) ∧
      (∀ j r, next cfg.loop m.length i s.reversed = some (j, r) → ∃ p, m[j]? = some p ∧
        telemetryB cfg s true =
          ({ s with wp := some (j : Int), reversed := r, log := .goto p :: s.log }, .ok))) := by
  obtain ⟨mi, wp, rev, idle, log⟩ := s
  refine ⟨?_, ?_, ?_⟩
  · cases mi <;> rfl
  · intro hm r; simp only at hm; subst hm; rfl
  · intro m i hm hw
    simp only at hm hw; subst hm hw
    obtain ⟨w, hw, _, h1, hidle⟩ := h.pre.active m rfl
    simp only [Option.some.injEq] at hw hidle
    subst hw
    have hi : i < m.length := by omega
    have sp := step_spec cfg m i hi rev idle log h.pre.mode
    simp only [telemetryB, telemetryWith, if_true]
    refine ⟨fun hn => ?_, fun j r hj => ?_⟩
    · have := sp.1 hn
      simp only [progress] at this
      rw [this]; simp [stopMission]
    · obtain ⟨p, hp, e⟩ := sp.2 j r hj
      simp only [progress] at e
      exact ⟨p, hp, e⟩

/-- `set_reversed` in REVERSE mode with a mission: the same value changes nothing; a new value takes
    effect at once — the target moves one step in the NEW direction by the same rule, with its goto. -/
theorem C16_set_reversed_steps (cfg : Config S) (s : State S) (h : MInv cfg s)
    (hl : cfg.loop = .reverse) (m : List (V3 S)) (i : Nat) (hm : s.mission = some m)
    (hw : s.wp = some (i : Int)) (b : Bool) :
    (b = s.reversed → setReversed cfg s b = (s, .ok)) ∧
    (b ≠ s.reversed → ∀ j r, next .reverse m.length i b = some (j, r) → ∃ p, m[j]? = some p ∧
      setReversed cfg s b = ({ s with wp := some (j : Int), reversed := r, log := .goto p :: s.log }, .ok)) := by
  obtain ⟨mi, wp, rev, idle, log⟩ := s
  simp only at hm hw; subst hm hw
  obtain ⟨w, hw, _, h1, _⟩ := h.pre.active m rfl
  simp only [Option.some.injEq] at hw
  subst hw
  have hi : i < m.length := by omega
  refine ⟨fun hb => ?_, fun hb j r hj => ?_⟩
  · simp only at hb; subst hb
    simp [setReversed, setReversedWith, hl]
  · have sp := step_spec cfg m i hi b idle log (fun hne => absurd hl hne)
    rw [hl] at sp
    obtain ⟨p, hp, e⟩ := sp.2 j r hj
    refine ⟨p, hp, ?_⟩
    have hc : (rev != b) = true := by
      cases rev <;> cases b <;> simp_all
    simp only [progress] at e
    simp only [setReversed, setReversedWith, hl, ne_eq, not_true_eq_false, if_false, hc, if_true]
    exact e

/-- a valid `set_current_waypoint(i)` makes `i` the current waypoint, keeps the direction, and issues the
    goto to `mission[i]`; `start_mission(m)` targets waypoint 0, forwards, and issues goto then speed -/
theorem C16_set_waypoint_and_start (cfg : Config S) (s : State S) :
    (∀ m (i : Nat), s.mission = some m → i < m.length → ∃ p, m[i]? = some p ∧
      setWaypoint s (i : Int) = ({ s with wp := some (i : Int), log := .goto p :: s.log }, .ok)) ∧
    (∀ m, m ≠ [] → ∃ p, m[0]? = some p ∧
      start cfg s m = (⟨some m, some 0, false, false, .setSpeed cfg.speed :: .goto p :: s.log⟩, .ok)) := by
  obtain ⟨mi, wp, rev, idle, log⟩ := s
  refine ⟨fun m i hm hi => ?_, fun m hm => ?_⟩
  · simp only at hm; subst hm
    refine ⟨m[i], List.getElem?_eq_getElem hi, ?_⟩
    simp [setWaypoint, travel, outOf, pyGet_natCast, hi]
  · have hlen : 0 < m.length := List.length_pos_iff.mpr hm
    refine ⟨m[0], List.getElem?_eq_getElem hlen, ?_⟩
    have : pyGet m 0 = some m[0] := by
      have := pyGet_natCast m 0; simpa [List.getElem?_eq_getElem hlen] using this
    simp [start, travel, this]

/-! ### missions loaded from a waypoint file -/

/-- the parsing loop returns the positions written in the file, in the order of its lines - and nothing
    else: the result depends on this file only, not on any file loaded before, by this plugin or another -/
theorem C16_file_mission_is_the_file (lines : List (V3 S)) : readWaypoints lines = lines := by
  have h : ∀ acc : List (V3 S), lines.foldl (fun mission p => mission ++ [p]) acc = acc ++ lines := by
    induction lines with
    | nil => intro acc; simp
    | cons p ps ih => intro acc; simp [List.foldl_cons, ih]
  simpa [readWaypoints] using h []

/-- `start_mission_with_waypoint_file` is `start_mission` of the file's positions in EVERY state (first
    load or re-planning, whatever mission was flown before): for a non-empty file the mission is the
    file, waypoint 0 of the file is targeted, forwards, with its goto and the speed command; so every
    clause proved for `start` histories holds for histories with file-based starts. -/
theorem C16_file_start (cfg : Config S) (s : State S) (lines : List (V3 S)) :
    startFile cfg s lines = start cfg s lines ∧
    (lines ≠ [] → ∃ p, lines[0]? = some p ∧
      startFile cfg s lines =
        (⟨some lines, some 0, false, false, .setSpeed cfg.speed :: .goto p :: s.log⟩, .ok)) := by
  have e : startFile cfg s lines = start cfg s lines := by
    simp [startFile, C16_file_mission_is_the_file]
  exact ⟨e, fun hne => by rw [e]; exact (C16_set_waypoint_and_start cfg s).2 lines hne⟩

section
variable [Scalar S]

/-- what "reached" means on a state satisfying the invariant: the tolerance test against the CURRENT
    waypoint, `squared_distance(pos, mission[wp]) <= tolerance ** 2`; and the telemetry call is the
    handler applied to that answer -/
theorem C16_reached_is_tolerance_test (cfg : Config S) (s : State S) (pos : V3 S) :
    apply cfg s (.telemetry pos) = telemetryB cfg s (reached cfg s pos) ∧
    (∀ m (i : Nat) p, s.mission = some m → s.wp = some (i : Int) → m[i]? = some p →
      reached cfg s pos = Scalar.le (V3.sqdist pos p) (Scalar.sq cfg.tol)) := by
  refine ⟨rfl, fun m i p hm hw hp => ?_⟩
  simp [reached, hw, hm, pyGet_natCast, hp]

end

/-! ### several plugins alive at the same time

  The nodes of one simulation each own a `MissionMobilityPlugin`.  The model's fleet is a list of
  (configuration, fields) pairs and a call is made on one of them; the theorems say that this is all
  there is: a member is where its own calls alone lead it, whatever the other members were asked in
  between, so every clause of C16 proved above for one plugin holds for each plugin of a fleet. -/

section Fleet
variable [Scalar S]

/-- a call on member `who` leaves every other member - fields and command log - exactly as it was -/
theorem C16_fleet_others_untouched (f : List (Member S)) (who j : Nat) (op : Op S) (h : j ≠ who) :
    (applyAt f who op).1[j]? = f[j]? := by
  unfold applyAt
  cases hw : f[who]? with
  | none => rfl
  | some m => simp [List.getElem?_set_ne (Ne.symm h)]

/-- the member that is called makes exactly the step of a plugin alone, with its own configuration -/
theorem C16_fleet_called_member (f : List (Member S)) (who : Nat) (op : Op S) (m : Member S)
    (hm : f[who]? = some m) :
    (applyAt f who op).1[who]? = some ⟨m.cfg, (apply m.cfg m.st op).1⟩ ∧
    (applyAt f who op).2 = (apply m.cfg m.st op).2 := by
  have hlt : who < f.length := by
    rcases Nat.lt_or_ge who f.length with h | h
    · exact h
    · rw [List.getElem?_eq_none h] at hm; cases hm
  have hget : f[who] = m := by
    have := List.getElem?_eq_getElem hlt
    rw [hm] at this
    exact (Option.some.inj this).symm
  unfold applyAt
  simp [hlt, hget]

/-- after ANY interleaved history every member is in the state its own calls alone lead to -/
theorem C16_fleet_projection (f : List (Member S)) (ops : List (Nat × Op S)) (i : Nat) :
    (runFleet f ops)[i]? = f[i]?.map (fun m => ⟨m.cfg, run m.cfg m.st (callsOn i ops)⟩) := by
  induction ops generalizing f with
  | nil =>
    cases h : f[i]? <;> simp [runFleet, callsOn, run, h]
  | cons o ops ih =>
    have hstep : runFleet f (o :: ops) = runFleet (applyAt f o.1 o.2).1 ops := rfl
    rw [hstep, ih]
    by_cases hi : o.1 = i
    · have hc : callsOn i (o :: ops) = o.2 :: callsOn i ops := by
        simp [callsOn, hi]
      rw [hc]
      cases hm : f[i]? with
      | none =>
        have : (applyAt f o.1 o.2).1 = f := by unfold applyAt; rw [hi, hm]
        rw [this, hm]; rfl
      | some m =>
        have := (C16_fleet_called_member f i o.2 m hm).1
        rw [hi, this]
        simp [run, List.foldl_cons]
    · have hc : callsOn i (o :: ops) = callsOn i ops := by
        simp [callsOn, hi]
      rw [hc, C16_fleet_others_untouched f o.1 i o.2 (fun h => hi h.symm)]

/-- C16's invariant (active ⇒ valid index, not idle, last goto = `mission[index]`; inactive ⇒ no waypoint,
    idle, not reversed) for every member of a fleet of freshly constructed plugins after every interleaved
    history of valid calls; the member still has the configuration it was constructed with and its state
    is the one of a single plugin that received this member's calls -/
theorem C16_fleet_inv (cfgs : List (Config S)) (ops : List (Nat × Op S)) (hv : ∀ o ∈ ops, o.2.valid)
    (i : Nat) (m : Member S) (h : (runFleet (fleetInit cfgs) ops)[i]? = some m) :
    MInv m.cfg m.st ∧ cfgs[i]? = some m.cfg ∧ m.st = run m.cfg init (callsOn i ops) := by
  rw [C16_fleet_projection] at h
  cases hc : cfgs[i]? with
  | none => simp [fleetInit, hc] at h
  | some c =>
    simp only [fleetInit, List.getElem?_map, hc, Option.map_some, Option.some.injEq] at h
    subst h
    refine ⟨run_inv _ (init_inv c) ?_, rfl, rfl⟩
    intro op hop
    simp only [callsOn, List.mem_map, List.mem_filter] at hop
    obtain ⟨o, ⟨ho, _⟩, rfl⟩ := hop
    exact hv o ho

end Fleet

/-! ### F16: the pinned code (`len − 2` without the floor) -/

/-- negative witness for finding F16.  REVERSE mode, a mission of ONE waypoint, one telemetry that reaches
    it: with the pinned bounce `len − 2` the current waypoint becomes `−1` and the invariant is broken
    (the plugin then reports `current_waypoint == -1`); with the repaired `max(len − 2, 0)` it is `0`. -/
theorem C16_pinned_bounce_gives_minus_one :
    let cfg : Config Nat := ⟨5, .reverse, 1⟩
    let s1 : State Nat := (start cfg init [⟨7, 7, 7⟩]).1
    (telemetryWith bouncePinned cfg s1 true).1.wp = some (-1) ∧
    ¬ Pre cfg (telemetryWith bouncePinned cfg s1 true).1 ∧
    (telemetryB cfg s1 true).1.wp = some 0 ∧ (telemetryB cfg s1 true).1.reversed = true := by
  refine ⟨by decide, ?_, by decide, by decide⟩
  intro h
  obtain ⟨w, hw, h0, _⟩ := h.active [⟨7, 7, 7⟩] (by decide)
  have : (some (-1) : Option Int) = some w := by
    rw [← hw]; decide
  have : w = -1 := by simpa using this.symm
  omega

/-! ### non-vacuity -/

section Examples

/-- the integer lattice as a scalar type (only what `reached` uses is meaningful) -/
local instance latticeScalar : Scalar Int where
  ofInt := id
  add := (· + ·)
  sub := (· - ·)
  mul := (· * ·)
  div := (· / ·)
  neg := fun x => -x
  sq := fun x => x * x
  sqrt := id
  sin := id
  cos := id
  acos? := fun _ => none
  atan2 := fun x _ => x
  radians := id
  le := fun a b => decide (a ≤ b)
  lt := fun a b => decide (a < b)

private def A : V3 Int := ⟨0, 0, 0⟩
private def B : V3 Int := ⟨10, 0, 0⟩
private def C : V3 Int := ⟨20, 0, 0⟩
private def rev3 : Config Int := ⟨5, .reverse, 2⟩

/-- REVERSE, three waypoints: forward to the end, bounce to 1, back to 0, start over at 0, then 1;
    telemetry exactly on the tolerance sphere counts as reached, one unit outside does not -/
example : (run rev3 init [.start [A, B, C], .telemetry ⟨2, 0, 0⟩, .telemetry B, .telemetry C]).wp = some 1 ∧
    (run rev3 init [.start [A, B, C], .telemetry A, .telemetry B, .telemetry C]).reversed = true ∧
    (run rev3 init [.start [A, B, C], .telemetry ⟨3, 0, 0⟩]).wp = some 0 ∧
    (run rev3 init [.start [A, B, C], .telemetry A, .telemetry B, .telemetry C, .telemetry B, .telemetry A]).wp = some 0 ∧
    (run rev3 init [.start [A, B, C], .telemetry A, .telemetry B, .telemetry C, .telemetry B, .telemetry A]).reversed = false := by
  decide

/-- the hypotheses of `C16_visit_order` are satisfiable with every branch of `next` taken, and refusals occur -/
example : (apply rev3 (run rev3 init [.start [A, B, C]]) (.setWaypoint 3)).2 = .refused ∧
    (apply rev3 init (.setReversed true)).2 = .refused ∧
    (apply (⟨5, .no, 2⟩ : Config Int) (run ⟨5, .no, 2⟩ init [.start [A]]) (.setReversed true)).2 = .refused ∧
    (run (⟨5, .no, 2⟩ : Config Int) init [.start [A], .telemetry A]).idle = true ∧
    (run (⟨5, .restart, 2⟩ : Config Int) init [.start [A, B], .telemetry A, .telemetry B]).wp = some 0 ∧
    (run rev3 init [.start [A], .telemetry A]).wp = some 0 := by
  decide

/-- the command log after a bounce: newest first -/
example : lastGoto (run rev3 init [.start [A, B, C], .telemetry A, .telemetry B, .telemetry C]).log = some B := by
  decide

/-- re-planning from a second file: the mission is the second file alone (2 positions), its waypoint 0 is
    targeted, and index 2 - valid in the 3-line file loaded before - is refused -/
example :
    let s := (startFile rev3 (startFile rev3 init [A, B, C]).1 [C, B]).1
    s.mission = some [C, B] ∧ s.wp = some 0 ∧ lastGoto s.log = some C ∧ (setWaypoint s 2).2 = .refused := by
  decide

/-- two plugins at once, RESTART and REVERSE on different missions, calls interleaved: each follows its own
    mission (member 1 is sent to ITS waypoint 1, `C`, not to member 0's `B`), a member that is not called does
    not move, and the hypothesis of `C16_fleet_inv` is satisfiable -/
example :
    let f := runFleet (fleetInit [(⟨5, .restart, 2⟩ : Config Int), rev3])
      [(0, .start [A, B]), (1, .start [B, C]), (0, .telemetry A), (1, .telemetry B), (0, .telemetry B)]
    (f[0]?.map (fun m => (m.st.wp, lastGoto m.st.log))) = some (some 0, some A) ∧
    (f[1]?.map (fun m => (m.st.wp, m.st.reversed, lastGoto m.st.log))) = some (some 1, false, some C) := by
  decide

end Examples

end C16
