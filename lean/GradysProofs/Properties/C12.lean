import GradysProofs.Lemmas.SimAcc
/-
  C12 — each node gets one telemetry per mobility update, carrying its own position.
  `C12_tick_spec` gives the exact effect of one mobility update for every node count, every
  movement state and every update interval; composition with C02/C03 (each created event executes
  exactly once, in (ts, seq) order, so all telemetry of a tick is handled before the next tick, which
  is due `dt > 0` later) and `C12_callbacks_never_move` gives the run-level statement.
-/
set_option linter.unusedSectionVars false

namespace C12
open Sim
variable {S σ : Type} [Scalar S]

/-- the per-node part of the update, over an arbitrary duplicate-free list of node ids -/
def tickNodes (cfg : Config S) (ns : List NodeId) (w : World S σ) : World S σ :=
  ns.foldl (fun w n =>
    let p := Mobility.step cfg.dtS (w.pos n) (w.target n) (w.speed n)
    sched w.loop.now (.telemetry n p) { w with pos := upd w.pos n p }) w

/-- new position of node `n` computed from the state before the update -/
def newPos (cfg : Config S) (w : World S σ) (n : NodeId) : V3 S :=
  Mobility.step cfg.dtS (w.pos n) (w.target n) (w.speed n)

theorem tickNodes_spec (cfg : Config S) (ns : List NodeId) (hnd : ns.Nodup) (w : World S σ) :
    (∀ m, (tickNodes cfg ns w).pos m = if m ∈ ns then newPos cfg w m else w.pos m) ∧
    (tickNodes cfg ns w).target = w.target ∧ (tickNodes cfg ns w).speed = w.speed ∧
    (tickNodes cfg ns w).loop.now = w.loop.now ∧
    ∃ new, (tickNodes cfg ns w).raccepted = new ++ w.raccepted ∧
      new.reverse.map (fun e => (e.ts, e.kind)) =
        ns.map (fun n => (w.loop.now, EvKind.telemetry n (newPos cfg w n))) := by
  induction ns generalizing w with
  | nil => exact ⟨fun m => by simp [tickNodes], rfl, rfl, rfl, [], rfl, rfl⟩
  | cons n ns ih =>
    have hnd' := (List.nodup_cons.mp hnd)
    let w1 : World S σ := sched w.loop.now (.telemetry n (newPos cfg w n)) { w with pos := upd w.pos n (newPos cfg w n) }
    have hstep : tickNodes cfg (n :: ns) w = tickNodes cfg ns w1 := rfl
    obtain ⟨hpos, htg, hsp, hnow, new, hacc, hmap⟩ := ih hnd'.2 w1
    have hw1pos : ∀ m, m ≠ n → w1.pos m = w.pos m := by
      intro m hm; show upd w.pos n _ m = _; simp [upd, hm]
    have hnp : ∀ m, m ≠ n → newPos cfg w1 m = newPos cfg w m := by
      intro m hm; unfold newPos; rw [hw1pos m hm]; rfl
    rw [hstep]
    refine ⟨?_, htg, hsp, hnow, new ++ [⟨w.loop.now, w.loop.nextSeq, .telemetry n (newPos cfg w n)⟩], ?_, ?_⟩
    · intro m
      rw [hpos m]
      by_cases hmn : m = n
      · subst hmn
        simp only [hnd'.1, if_false, List.mem_cons, true_or, if_true]
        show upd w.pos m _ m = _
        simp [upd]
      · by_cases hm : m ∈ ns
        · simp only [hm, if_true, List.mem_cons, or_true]; exact hnp m hmn
        · simp only [hm, if_false, List.mem_cons, hmn, or_self]; exact hw1pos m hmn
    · rw [hacc]; simp [w1]
    · rw [List.reverse_append, List.map_append, hmap]
      simp only [List.reverse_cons, List.reverse_nil, List.nil_append, List.map_cons, List.map_nil,
        List.singleton_append, List.cons.injEq, true_and]
      apply List.map_congr_left
      intro m hm
      have : m ≠ n := fun h => hnd'.1 (h ▸ hm)
      rw [hnp m this]; rfl

/-- one mobility update: every node moves by `Mobility.step` from its own state; exactly one
    telemetry event per node is created, in node order, due NOW, carrying that node's own new
    position; then exactly one next update is scheduled `dt` later -/
theorem C12_tick_spec (cfg : Config S) (w : World S σ) :
    (∀ m, (mobTick cfg w).pos m = if m < cfg.nNodes then newPos cfg w m else w.pos m) ∧
    ∃ tel seq, (mobTick cfg w).raccepted = ⟨w.loop.now + cfg.dt, seq, .mobTick⟩ :: (tel ++ w.raccepted) ∧
      tel.reverse.map (fun e => (e.ts, e.kind)) =
        (List.range cfg.nNodes).map (fun n => (w.loop.now, EvKind.telemetry n (newPos cfg w n))) := by
  have h := tickNodes_spec cfg (List.range cfg.nNodes) List.nodup_range w
  obtain ⟨hpos, _, _, hnow, new, hacc, hmap⟩ := h
  have hm : mobTick cfg w = sched ((tickNodes cfg (List.range cfg.nNodes) w).loop.now + cfg.dt) .mobTick
      (tickNodes cfg (List.range cfg.nNodes) w) := rfl
  refine ⟨?_, new, (tickNodes cfg (List.range cfg.nNodes) w).loop.nextSeq, ?_, hmap⟩
  · intro m; rw [hm, sched_pos, hpos m]; simp [List.mem_range]
  · rw [hm, sched_raccepted, hnow, hacc]

/-- telemetry carries the node's own position: the position in the event for node `n` is `n`'s own
    new position, computed from `n`'s own position, target and speed only -/
theorem C12_own_position (cfg : Config S) (w w' : World S σ) (n : NodeId)
    (h1 : w'.pos n = w.pos n) (h2 : w'.target n = w.target n) (h3 : w'.speed n = w.speed n) :
    newPos cfg w' n = newPos cfg w n := by
  unfold newPos; rw [h1, h2, h3]

/-- no request, program or protocol callback ever changes any node's position: between two
    mobility updates a node stays where the last telemetry said it is -/
theorem C12_callbacks_never_move (cfg : Config S) (P : NodeId → Proto S σ) (n : NodeId)
    (cb : Callback S) (w : World S σ) : (callback cfg P n cb w).pos = w.pos :=
  callback_pos cfg P n cb w

/-- executing a telemetry event is exactly one `handle_telemetry` on its node with the recorded
    position, reporting the time of the tick that created it -/
theorem C12_telemetry_callback (cfg : Config S) (P : NodeId → Proto S σ) (ts : Int) (seq : Nat)
    (n : NodeId) (p : V3 S) (w : World S σ) :
    execEv cfg P ⟨ts, seq, .telemetry n p⟩ w = callback cfg P n (.telemetry p) w := rfl

/-- non-vacuity: a static node (no target) keeps its position and still gets its telemetry -/
example (cfg : Config S) (w : World S σ) (n : NodeId) (h : w.target n = none) :
    newPos cfg w n = w.pos n := by
  unfold newPos Mobility.step; rw [h]

end C12
