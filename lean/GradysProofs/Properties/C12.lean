import GradysProofs.Lemmas.SimMob
/-
  C12 — each node gets one telemetry per mobility update, carrying its own position.
  `C12_tick_spec` gives the exact effect of one mobility update for every node count, every
  movement state and every update interval; composition with C02/C03 (each created event executes
  exactly once, in (ts, seq) order, so all telemetry of a tick is handled before the next tick, which
  is due `dt > 0` later) and `C12_callbacks_never_move` gives the run-level statement.
-/
set_option linter.unusedSectionVars false

namespace C12
open Sim
variable {S σ : Type} [Scalar S]

/-- one mobility update: every node moves by `Mobility.step` from its own state; exactly one
    telemetry event per node is created, in node order, due NOW, carrying that node's own new
    position; then exactly one next update is scheduled `dt` later -/
theorem C12_tick_spec (cfg : Config S) (w : World S σ) :
    (∀ m, (mobTick cfg w).pos m = if m < cfg.nNodes then newPos cfg w m else w.pos m) ∧
    ∃ tel seq, (mobTick cfg w).raccepted = ⟨w.loop.now + cfg.dt, seq, .mobTick⟩ :: (tel ++ w.raccepted) ∧
      tel.reverse.map (fun e => (e.ts, e.kind)) =
        (List.range cfg.nNodes).map (fun n => (w.loop.now, EvKind.telemetry n (newPos cfg w n))) := by
  have h := tickNodes_spec cfg (List.range cfg.nNodes) List.nodup_range w
  obtain ⟨hpos, _, _, hnow, new, hacc, hmap⟩ := h
  have hm : mobTick cfg w = sched ((tickNodes cfg (List.range cfg.nNodes) w).loop.now + cfg.dt) .mobTick
      (tickNodes cfg (List.range cfg.nNodes) w) := rfl
  refine ⟨?_, new, (tickNodes cfg (List.range cfg.nNodes) w).loop.nextSeq, ?_, hmap⟩
  · intro m; rw [hm, sched_pos, hpos m]; simp [List.mem_range]
  · rw [hm, sched_raccepted, hnow, hacc]

/-- telemetry carries the node's own position: the position in the event for node `n` is `n`'s own
    new position, computed from `n`'s own position, target and speed only -/
theorem C12_own_position (cfg : Config S) (w w' : World S σ) (n : NodeId)
    (h1 : w'.pos n = w.pos n) (h2 : w'.target n = w.target n) (h3 : w'.speed n = w.speed n) :
    newPos cfg w' n = newPos cfg w n := by
  unfold newPos; rw [h1, h2, h3]

/-- no request, program or protocol callback ever changes any node's position: between two
    mobility updates a node stays where the last telemetry said it is -/
theorem C12_callbacks_never_move (cfg : Config S) (P : NodeId → Proto S σ) (n : NodeId)
    (cb : Callback S) (w : World S σ) : (callback cfg P n cb w).pos = w.pos :=
  callback_pos cfg P n cb w

/-- executing a telemetry event is exactly one `handle_telemetry` on its node with the recorded
    position, reporting the time of the tick that created it -/
theorem C12_telemetry_callback (cfg : Config S) (P : NodeId → Proto S σ) (ts : Int) (seq : Nat)
    (n : NodeId) (p : V3 S) (w : World S σ) :
    execEv cfg P ⟨ts, seq, .telemetry n p⟩ w = callback cfg P n (.telemetry p) w := rfl

/-- in every reachable world (update interval `dt > 0`): exactly one mobility update is queued
    when a mobility handler is configured (none otherwise), and it is due at
    (number of updates executed so far + 1)·dt — the k-th update runs at exactly k·dt -/
theorem C12_tick_times {cfg : Config S} (hdt : 0 < cfg.dt) {P : NodeId → Proto S σ} {w : World S σ}
    (h : Reachable cfg P w) :
    (w.loop.queue.filter (fun e => e.kind.isTick)).length = (if cfg.hasMob then 1 else 0) ∧
    (∀ e ∈ w.loop.queue, e.kind.isTick = true → e.ts = ((tickCount w : Nat) + 1) * cfg.dt) ∧
    (∀ l1 e l2, w.rexecuted = l1 ++ e :: l2 → e.kind.isTick = true →
      e.ts = (((l2.filter (fun e => e.kind.isTick)).length : Nat) + 1) * cfg.dt) :=
  ⟨(reachable_minv hdt h).ticks, (reachable_minv hdt h).tick_time, (reachable_minv hdt h).exec_ticks⟩

/-- every queued telemetry event is due at the current instant (the instant of the update that
    created it), is handled before the next update, and carries the position its node has NOW: when
    it is handled the reported position is the node's own current position -/
theorem C12_own_position_at_delivery {cfg : Config S} (hdt : 0 < cfg.dt) {P : NodeId → Proto S σ}
    {w : World S σ} (h : Reachable cfg P w) :
    (∀ e ∈ w.loop.queue, ∀ n p, e.kind = .telemetry n p → e.ts = w.loop.now ∧ w.pos n = p) ∧
    (∀ e ∈ w.loop.queue, e.kind.isTel = true → ∀ e' ∈ w.loop.queue, e'.kind.isTick = true → e.ts < e'.ts) :=
  ⟨(reachable_minv hdt h).tel_now, (reachable_minv hdt h).tick_after_tel⟩

/-- the same under a tolerant stepped driver (`ReachableT`): an exception that escapes from a telemetry (or any
    other) callback does not disturb the updates that follow - still exactly one update queued, due at (updates
    so far + 1)·dt, every queued telemetry due now and carrying its node's own current position (what seeded
    change C12_K breaks) -/
theorem C12_telemetry_tolerant {cfg : Config S} (hdt : 0 < cfg.dt) {P : NodeId → Proto S σ} {w : World S σ}
    (h : ReachableT cfg P w) :
    (w.loop.queue.filter (fun e => e.kind.isTick)).length = (if cfg.hasMob then 1 else 0) ∧
    (∀ e ∈ w.loop.queue, e.kind.isTick = true → e.ts = ((tickCount w : Nat) + 1) * cfg.dt) ∧
    (∀ e ∈ w.loop.queue, ∀ n p, e.kind = .telemetry n p → e.ts = w.loop.now ∧ w.pos n = p) :=
  ⟨(reachableT_minv hdt h).ticks, (reachableT_minv hdt h).tick_time, (reachableT_minv hdt h).tel_now⟩

/-- non-vacuity: a static node (no target) keeps its position and still gets its telemetry -/
example (cfg : Config S) (w : World S σ) (n : NodeId) (h : w.target n = none) :
    newPos cfg w n = w.pos n := by
  unfold newPos Mobility.step; rw [h]

end C12
