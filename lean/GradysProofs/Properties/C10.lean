import Mathlib.MeasureTheory.Measure.Lebesgue.Basic
import GradysProofs.Lemmas.Medium
import GradysProofs.Lemmas.SimStep
import GradysProofs.RealScalar
/-
  C10 — the medium loses messages only as configured and never duplicates or revives one.

  `Sim.consumeDraw` + `Sim.inRange` are `CommunicationHandler.can_transmit`
  (gradysim/simulator/handler/communication.py:164-174): one `random.random()` per (message, receiver)
  iff `failure_rate > 0`; the copy passes iff `draw > failure_rate`.  The values successive
  `random.random()` calls return are the oracle stream `cfg.draws`; every theorem is for every stream.
  `C10_frequency` is the measure of the losing draws under the uniformity assumption (trusted base T3).
-/
set_option linter.unusedSectionVars false
set_option linter.unusedVariables false

namespace C10
open Sim RealScalar

section anyScalar
variable {S σ : Type} [Scalar S]

/-- lossy medium (`failure_rate > 0`): one copy consumes exactly one draw, `u = draws drawIdx`, and
    its delivery is scheduled (one event, at the normal due time) iff `u > failure_rate` and it is
    in range; otherwise neither the accepted-event list nor the queue changes — a lost copy creates no
    event at all, so by conservation (`C10_never_revived`) it can never appear later. -/
theorem C10_fate (cfg : Config S) (hfr : Scalar.gt cfg.failRate (Scalar.ofInt 0) = true)
    (src dst : NodeId) (msg : String) (w : World S σ) :
    (transmit cfg src dst msg w).drawIdx = w.drawIdx + 1 ∧
    ((transmit cfg src dst msg w).raccepted =
      if Scalar.gt (cfg.draws w.drawIdx) cfg.failRate && inRange w src dst then
        ⟨w.loop.now + max cfg.delay 0, w.loop.nextSeq, .deliver dst src msg⟩ :: w.raccepted
      else w.raccepted) ∧
    ((transmit cfg src dst msg w).loop.queue =
      if Scalar.gt (cfg.draws w.drawIdx) cfg.failRate && inRange w src dst then
        insertEv ⟨w.loop.now + max cfg.delay 0, w.loop.nextSeq, .deliver dst src msg⟩ w.loop.queue
      else w.loop.queue) := by
  have hts : deliverTime cfg w = w.loop.now + max cfg.delay 0 := by
    unfold deliverTime; split <;> omega
  have hev : deliveryEv cfg w src dst msg =
      ⟨w.loop.now + max cfg.delay 0, w.loop.nextSeq, .deliver dst src msg⟩ := by
    unfold deliveryEv; rw [hts]
  have hp : drawPasses cfg w = Scalar.gt (cfg.draws w.drawIdx) cfg.failRate := by
    unfold drawPasses; rw [if_pos hfr]
  have hc : drawCost cfg = 1 := by unfold drawCost; rw [if_pos hfr]
  refine ⟨?_, ?_, ?_⟩
  · rw [(transmit_frameM cfg src dst msg w).2.2.2.2.2.2.2.2, hc]
  · rw [transmit_accepted, hev]; unfold copyDelivered; rw [hp]
  · rw [transmit_queue, hev]; unfold copyDelivered; rw [hp]

/-- a lost copy (draw `≤` rate, or out of range) leaves every event structure as it was -/
theorem C10_lost_no_event (cfg : Config S) (hfr : Scalar.gt cfg.failRate (Scalar.ofInt 0) = true)
    (src dst : NodeId) (msg : String) (w : World S σ)
    (hl : (Scalar.gt (cfg.draws w.drawIdx) cfg.failRate && inRange w src dst) = false) :
    (transmit cfg src dst msg w).raccepted = w.raccepted ∧
    (transmit cfg src dst msg w).loop = w.loop := by
  have hp : drawPasses cfg w = Scalar.gt (cfg.draws w.drawIdx) cfg.failRate := by
    unfold drawPasses; rw [if_pos hfr]
  have hcd : copyDelivered cfg w src dst = false := by unfold copyDelivered; rw [hp]; exact hl
  rw [transmit_eq, hcd]
  exact ⟨rfl, rfl⟩

/-- never duplicated, never revived: at every reachable world, for every protocol program, every
    event that was executed or is queued is one of the accepted scheduling requests, exactly once
    (executed ++ queued is a permutation of the accepted list, which has no repetition).  A lost copy
    added nothing to that list (`C10_fate`), a delivered copy exactly one entry. -/
theorem C10_never_revived {cfg : Config S} (hdt : 0 ≤ cfg.dt) {P : NodeId → Proto S σ}
    {w : World S σ} (h : Reachable cfg P w) :
    (w.rexecuted ++ w.loop.queue).Perm w.raccepted ∧
    (∀ e, e ∈ w.rexecuted ∨ e ∈ w.loop.queue → e ∈ w.raccepted) ∧
    w.raccepted.Pairwise (fun a b => b.seq < a.seq) := by
  have inv := reachable_inv hdt h
  refine ⟨inv.perm, ?_, inv.acc_sorted⟩
  intro e he
  exact inv.perm.subset (List.mem_append.mpr he)

/-- loss-free medium (`failure_rate ≤ 0`): no draw is consumed and the copy is delivered iff it is
    in range — no in-range copy is lost -/
theorem C10_rate_zero (cfg : Config S) (hfr : Scalar.gt cfg.failRate (Scalar.ofInt 0) = false)
    (src dst : NodeId) (msg : String) (w : World S σ) :
    (transmit cfg src dst msg w).drawIdx = w.drawIdx ∧
    ((transmit cfg src dst msg w).raccepted =
      if inRange w src dst then
        ⟨w.loop.now + max cfg.delay 0, w.loop.nextSeq, .deliver dst src msg⟩ :: w.raccepted
      else w.raccepted) := by
  have hts : deliverTime cfg w = w.loop.now + max cfg.delay 0 := by
    unfold deliverTime; split <;> omega
  have hev : deliveryEv cfg w src dst msg =
      ⟨w.loop.now + max cfg.delay 0, w.loop.nextSeq, .deliver dst src msg⟩ := by
    unfold deliveryEv; rw [hts]
  have hp : drawPasses cfg w = true := by unfold drawPasses; simp [hfr]
  have hc : drawCost cfg = 0 := by unfold drawCost; simp [hfr]
  refine ⟨?_, ?_⟩
  · rw [(transmit_frameM cfg src dst msg w).2.2.2.2.2.2.2.2, hc]; rfl
  · rw [transmit_accepted, hev]; unfold copyDelivered; rw [hp, Bool.true_and]

/-- the destinations of a broadcast whose copy is delivered, as a function of the draw stream: the
    copy for the `i`-th destination (counting from the draw index `k`) looks at draw `k + i` only -/
def deliveredDsts (cfg : Config S) (w : World S σ) (src : NodeId) (k : Nat) (dsts : List NodeId) :
    List NodeId :=
  ((dsts.zipIdx k).filter
    (fun p => Scalar.gt (cfg.draws p.2) cfg.failRate && inRange w src p.1)).map Prod.fst

/-- lossy medium, broadcast over destinations `d₁ … d_k` (all `≠ src`): the `i`-th copy consumes
    draw `drawIdx + i` and is delivered iff THAT draw exceeds the rate and ITS destination is in range
    of the sender (geometry of the world at the broadcast) — no copy's fate depends on another copy's
    draw or geometry.  In total `k` draws are consumed and the accepted events grow by exactly the
    deliveries to `deliveredDsts`, in destination order, all due at the normal time. -/
theorem C10_broadcast_independent (cfg : Config S)
    (hfr : Scalar.gt cfg.failRate (Scalar.ofInt 0) = true) (src : NodeId) (msg : String)
    (dsts : List NodeId) (hne : ∀ d ∈ dsts, d ≠ src) (w : World S σ) :
    (broadcastTo cfg src msg dsts w).drawIdx = w.drawIdx + dsts.length ∧
    (broadcastTo cfg src msg dsts w).raccepted.map (fun e => (e.ts, e.kind)) =
      ((deliveredDsts cfg w src w.drawIdx dsts).map
        (fun d => (w.loop.now + max cfg.delay 0, EvKind.deliver d src msg))).reverse ++
      w.raccepted.map (fun e => (e.ts, e.kind)) ∧
    (broadcastTo cfg src msg dsts w).pos = w.pos ∧ (broadcastTo cfg src msg dsts w).range = w.range ∧
    (broadcastTo cfg src msg dsts w).loop.now = w.loop.now := by
  induction dsts generalizing w with
  | nil => simp [broadcastTo_nil, deliveredDsts]
  | cons d ds ih =>
    have hd : d ≠ src := hne d (List.mem_cons_self)
    have hne' : ∀ d ∈ ds, d ≠ src := fun x hx => hne x (List.mem_cons_of_mem _ hx)
    obtain ⟨f1, f2, f3⟩ := C10_fate cfg hfr src d msg w
    obtain ⟨g1, g2, _, _, g5, _⟩ := transmit_frameM cfg src d msg w
    obtain ⟨i1, i2, i3, i4, i5⟩ := ih hne' (transmit cfg src d msg w)
    have hir : ∀ x, inRange (transmit cfg src d msg w) src x = inRange w src x :=
      fun x => inRange_congr (by rw [g1]) (by rw [g1]) (by rw [g2])
    have hdel : deliveredDsts cfg (transmit cfg src d msg w) src (w.drawIdx + 1) ds =
        deliveredDsts cfg w src (w.drawIdx + 1) ds := by
      unfold deliveredDsts; simp only [hir]
    rw [broadcastTo_cons cfg src msg d ds w hd]
    refine ⟨?_, ?_, ?_, ?_, ?_⟩
    · rw [i1, f1, List.length_cons]; omega
    · rw [i2, f1, hdel, g5, f2]
      unfold deliveredDsts
      rw [List.zipIdx_cons, List.filter_cons]
      cases hb : (Scalar.gt (cfg.draws w.drawIdx) cfg.failRate && inRange w src d) <;> simp
    · rw [i3, g1]
    · rw [i4, g2]
    · rw [i5, g5]

/-- the broadcast a protocol issues (`execReq … (.broadcast msg)`) runs over all nodes and skips the
    sender, so it is `C10_broadcast_independent` over the other nodes in id order -/
theorem C10_broadcast_request (cfg : Config S) (hc : cfg.hasComm = true) (n : NodeId) (msg : String)
    (w : World S σ) :
    execReq cfg n (.broadcast msg) w =
      (broadcastTo cfg n msg ((List.range cfg.nNodes).filter (fun d => d ≠ n)) w, true) ∧
    ∀ d ∈ (List.range cfg.nNodes).filter (fun d => d ≠ n), d ≠ n := by
  constructor
  · simp only [execReq, hc]
    rw [broadcastTo_filter]; rfl
  · intro d hd
    simpa using (List.mem_filter.mp hd).2

end anyScalar

/-! ### over ℝ -/

/-- `failure_rate ≥ 1` and every draw in `[0,1)`: no copy is ever delivered, whatever the stream -/
theorem C10_rate_one {σ : Type} (cfg : Config ℝ) (hfr : 1 ≤ cfg.failRate)
    (hdraws : ∀ i, 0 ≤ cfg.draws i ∧ cfg.draws i < 1) (src dst : NodeId) (msg : String)
    (w : World ℝ σ) :
    (transmit cfg src dst msg w).raccepted = w.raccepted ∧
    (transmit cfg src dst msg w).loop = w.loop := by
  have h0 : Scalar.gt cfg.failRate (Scalar.ofInt 0) = true := by
    rw [gt_eq, ofInt_eq]; push_cast; linarith
  have hl : Scalar.gt (cfg.draws w.drawIdx) cfg.failRate = false := by
    cases hb : Scalar.gt (cfg.draws w.drawIdx) cfg.failRate
    · rfl
    · rw [gt_eq] at hb; have := (hdraws w.drawIdx).2; linarith
  exact C10_lost_no_event cfg h0 src dst msg w (by rw [hl]; rfl)

/-- the reading of the guards over ℝ: `failure_rate > 0` / `≤ 0`, `draw > rate` -/
theorem C10_guards_real (fr u : ℝ) :
    (Scalar.gt fr (Scalar.ofInt 0) = true ↔ 0 < fr) ∧
    (Scalar.gt fr (Scalar.ofInt 0) = false ↔ fr ≤ 0) ∧
    (Scalar.gt u fr = true ↔ fr < u) := by
  refine ⟨?_, ?_, ?_⟩
  · rw [gt_eq, ofInt_eq]; push_cast; rfl
  · rw [← not_iff_not, Bool.not_eq_false, gt_eq, ofInt_eq]; push_cast; exact not_le.symm
  · exact gt_eq u fr

open MeasureTheory in
/-- the losing draws: for a rate `0 ≤ r ≤ 1`, the set of `u ∈ [0,1)` with `¬ (u > r)` has Lebesgue
    measure `r` — under the uniformity assumption on `random.random()` (T3) a copy is lost with
    probability exactly the configured rate (and passes with probability `1 − r`) -/
theorem C10_frequency (r : ℝ) (h0 : 0 ≤ r) (h1 : r ≤ 1) :
    volume {u : ℝ | u ∈ Set.Ico (0 : ℝ) 1 ∧ ¬ (Scalar.gt u r = true)} = ENNReal.ofReal r ∧
    volume {u : ℝ | u ∈ Set.Ico (0 : ℝ) 1 ∧ Scalar.gt u r = true} = ENNReal.ofReal (1 - r) := by
  constructor
  · rcases lt_or_eq_of_le h1 with hlt | heq
    · have : {u : ℝ | u ∈ Set.Ico (0 : ℝ) 1 ∧ ¬ (Scalar.gt u r = true)} = Set.Icc 0 r := by
        ext u
        simp only [Set.mem_ofPred_eq, Set.mem_Ico, Set.mem_Icc, gt_eq, not_lt]
        constructor
        · rintro ⟨⟨a, _⟩, c⟩; exact ⟨a, c⟩
        · rintro ⟨a, c⟩; exact ⟨⟨a, lt_of_le_of_lt c hlt⟩, c⟩
      rw [this, Real.volume_Icc, sub_zero]
    · have : {u : ℝ | u ∈ Set.Ico (0 : ℝ) 1 ∧ ¬ (Scalar.gt u r = true)} = Set.Ico 0 1 := by
        ext u
        simp only [Set.mem_ofPred_eq, Set.mem_Ico, gt_eq, not_lt]
        constructor
        · rintro ⟨h, _⟩; exact h
        · rintro ⟨a, b⟩; exact ⟨⟨a, b⟩, by rw [heq]; exact b.le⟩
      rw [this, Real.volume_Ico, heq, sub_zero]
  · have : {u : ℝ | u ∈ Set.Ico (0 : ℝ) 1 ∧ Scalar.gt u r = true} = Set.Ioo r 1 := by
      ext u
      simp only [Set.mem_ofPred_eq, Set.mem_Ico, Set.mem_Ioo, gt_eq]
      constructor
      · rintro ⟨⟨_, b⟩, c⟩; exact ⟨c, b⟩
      · rintro ⟨c, b⟩; exact ⟨⟨le_trans h0 c.le, b⟩, c⟩
    rw [this, Real.volume_Ioo]

/-! ### non-vacuity: a broadcast with mixed fates -/

/-- three nodes, all in range (range 100), failure rate 1/2, draws 0.75, 0.25, 0.5, … -/
noncomputable def exCfg : Config ℝ :=
  { nNodes := 3, hasTimer := true, hasComm := true, hasMob := false, handlers := [],
    duration := none, maxIter := none, delay := 0, failRate := 1 / 2, defaultRange := 100,
    dt := 1, dtS := 1, defaultSpeed := 10, refGeo := ⟨0, 0, 0⟩, initPos := fun _ => ⟨0, 0, 0⟩,
    draws := fun i => if i = 0 then 3 / 4 else if i = 1 then 1 / 4 else 1 / 2 }

/-- in a broadcast from node 0 the copy for node 1 (draw 3/4 > 1/2) passes its draw, the copy for
    node 2 (draw 1/4) and a draw exactly equal to the rate (1/2) do not -/
example : Scalar.gt exCfg.failRate (Scalar.ofInt 0) = true ∧
    Scalar.gt (exCfg.draws 0) exCfg.failRate = true ∧
    Scalar.gt (exCfg.draws 1) exCfg.failRate = false ∧
    Scalar.gt (exCfg.draws 2) exCfg.failRate = false := by
  refine ⟨?_, ?_, ?_, ?_⟩
  · rw [gt_eq, ofInt_eq]; simp [exCfg]
  · rw [gt_eq]; simp [exCfg]; norm_num
  · rw [← Bool.not_eq_true, gt_eq]; simp [exCfg]; norm_num
  · rw [← Bool.not_eq_true, gt_eq]; simp [exCfg]

end C10
