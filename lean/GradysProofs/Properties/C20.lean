import GradysModel.Sim
import GradysProofs.Lemmas.GeoSmall
/-
  C20 — geographic targets map to a metrically faithful local frame.

  Model: `GradysModel/Geo.lean` (`haversine`, `geoToCartesian`; the repaired axis assignment:
  x = east–west leg signed by longitude, y = north–south leg signed by latitude).  Latitudes and
  longitudes are in DEGREES in the model, as in the source; the hypotheses below are about their
  radian values `rad x = x·(π/180) = Scalar.radians x` (`GeoReal.rad_eq`).  `R = 6371000`.

  A position triple `V3` used as a geographic point is (lat, lon, alt) = (x, y, z).

  * `C20_meridian_leg`, `C20_parallel_leg`   the two legs in closed form, two-sided bound of the parallel leg
  * `C20_axes_signs`, `C20_axes_closed_form` which leg goes where, with which sign, all four quadrants
  * `C20_meridian_exact`                     exact distances along the reference meridian (F20's statement)
  * `C20_small_offsets` (`_box`, `C20_within_5km_in_box`)  the general 0.5 % bound, proved with 0.3 %
  * `C20_zero_offsets`                       a target at the reference's latitude and longitude maps to (0, 0, Δalt) —
                                             the altitude difference is kept —; a target on the reference meridian
                                             has x = 0, on the reference parallel y = 0
  * `C20_goto_geo`                           geographic goto = Cartesian goto to the converted point (any scalar)
  * `C20_goto_geo_every_send`                the same geographic command sent repeatedly / by several nodes / after any
                                             history: every sender is headed for the converted original target
  * `C20_pinned_mirror_distance`             what the pinned assignment of the legs does (F20)
-/
open Real

namespace C20
open GeoReal Geo

/-! ### the two legs -/

/-- North–south leg (reference and target on one meridian): exactly `R·|Δφ|`, for `|Δφ| ≤ π`. -/
theorem C20_meridian_leg (lat0 lon0 lat1 : ℝ) (h : |rad lat1 - rad lat0| ≤ π) :
    haversine lat0 lon0 lat1 lon0 = R * |rad lat1 - rad lat0| :=
  meridian_leg lat0 lon0 lat1 h

/-- East–west leg (reference and target on one parallel, `|φ₀| ≤ π/2`): exactly
    `2R·arcsin(cos φ₀·|sin(Δλ/2)|)`; and for `|Δλ| ≤ π` it lies in
    `[R·cos φ₀·|Δλ|·(1 − Δλ²/24), R·cos φ₀·|Δλ|]` — the length of the parallel arc, up to the
    cubic term. -/
theorem C20_parallel_leg (lat0 lon0 lon1 : ℝ) (hφ : |rad lat0| ≤ π / 2) :
    haversine lat0 lon0 lat0 lon1
      = 2 * R * arcsin (cos (rad lat0) * |sin ((rad lon1 - rad lon0) / 2)|) ∧
    (|rad lon1 - rad lon0| ≤ π →
      R * cos (rad lat0) * |rad lon1 - rad lon0| * (1 - (rad lon1 - rad lon0) ^ 2 / 24)
        ≤ haversine lat0 lon0 lat0 lon1 ∧
      haversine lat0 lon0 lat0 lon1 ≤ R * cos (rad lat0) * |rad lon1 - rad lon0|) := by
  have hleg := parallel_leg lat0 lon0 lon1 hφ
  refine ⟨by rw [hleg]; ring, fun hl => ?_⟩
  set dl := rad lon1 - rad lon0 with hdl
  have hc0 : 0 ≤ cos (rad lat0) :=
    cos_nonneg_of_mem_Icc ⟨by linarith [(abs_le.mp hφ).1], (abs_le.mp hφ).2⟩
  have hc1 : cos (rad lat0) ≤ 1 := cos_le_one _
  have ht0 : 0 ≤ |dl| / 2 := by positivity
  have ht1 : |dl| / 2 ≤ π / 2 := by linarith
  have habs : |sin (dl / 2)| = sin (|dl| / 2) := by
    rw [abs_sin_eq_sin_abs_of_abs_le_pi (by rw [abs_div, abs_two]; linarith [pi_pos]), abs_div,
      abs_two]
  rw [hleg, habs]
  have hR : (0:ℝ) ≤ R := by unfold R; norm_num
  have hup := arcsin_mul_sin_le hc0 hc1 ht0 ht1
  have hlo := le_arcsin_mul_sin hc0 hc1 ht0 ht1
  have hsq : (|dl| / 2) ^ 2 = dl ^ 2 / 4 := by rw [div_pow, sq_abs]; norm_num
  rw [hsq] at hlo
  constructor
  · calc R * cos (rad lat0) * |dl| * (1 - dl ^ 2 / 24)
        = R * (2 * (cos (rad lat0) * (|dl| / 2) * (1 - dl ^ 2 / 4 / 6))) := by ring
      _ ≤ R * (2 * arcsin (cos (rad lat0) * sin (|dl| / 2))) := by
          apply mul_le_mul_of_nonneg_left _ hR; linarith
  · calc R * (2 * arcsin (cos (rad lat0) * sin (|dl| / 2)))
        ≤ R * (2 * (cos (rad lat0) * (|dl| / 2))) := by
          apply mul_le_mul_of_nonneg_left _ hR; linarith
      _ = R * cos (rad lat0) * |dl| := by ring

/-! ### axes and signs -/

/-- `x` is the east–west leg signed by the longitude difference, `y` the north–south leg signed
    by the latitude difference, `z` the altitude difference — in all four quadrants; both legs
    are non-negative, so the signs of `x`, `y` are the signs of `Δλ`, `Δφ`. -/
theorem C20_axes_signs (ref tgt : V3 ℝ) :
    0 ≤ haversine ref.x ref.y ref.x tgt.y ∧ 0 ≤ haversine ref.x ref.y tgt.x ref.y ∧
    (geoToCartesian ref tgt).x
      = (if ref.y ≤ tgt.y then 1 else -1) * haversine ref.x ref.y ref.x tgt.y ∧
    (geoToCartesian ref tgt).y
      = (if ref.x ≤ tgt.x then 1 else -1) * haversine ref.x ref.y tgt.x ref.y ∧
    (geoToCartesian ref tgt).z = tgt.z - ref.z ∧
    -- the four quadrants, spelled out
    (ref.x ≤ tgt.x → ref.y ≤ tgt.y →
      0 ≤ (geoToCartesian ref tgt).x ∧ 0 ≤ (geoToCartesian ref tgt).y) ∧
    (ref.x ≤ tgt.x → tgt.y < ref.y →
      (geoToCartesian ref tgt).x ≤ 0 ∧ 0 ≤ (geoToCartesian ref tgt).y) ∧
    (tgt.x < ref.x → ref.y ≤ tgt.y →
      0 ≤ (geoToCartesian ref tgt).x ∧ (geoToCartesian ref tgt).y ≤ 0) ∧
    (tgt.x < ref.x → tgt.y < ref.y →
      (geoToCartesian ref tgt).x ≤ 0 ∧ (geoToCartesian ref tgt).y ≤ 0) := by
  have hew := haversine_nonneg ref.x ref.y ref.x tgt.y
  have hns := haversine_nonneg ref.x ref.y tgt.x ref.y
  have hx : (geoToCartesian ref tgt).x
      = (if ref.y ≤ tgt.y then 1 else -1) * haversine ref.x ref.y ref.x tgt.y := by
    unfold geoToCartesian
    by_cases h : ref.y ≤ tgt.y
    · simp [h]
    · simp [h]
  have hy : (geoToCartesian ref tgt).y
      = (if ref.x ≤ tgt.x then 1 else -1) * haversine ref.x ref.y tgt.x ref.y := by
    unfold geoToCartesian
    by_cases h : ref.x ≤ tgt.x
    · simp [h]
    · simp [h]
  refine ⟨hew, hns, hx, hy, rfl, ?_, ?_, ?_, ?_⟩
  · intro h1 h2; rw [hx, hy, if_pos h1, if_pos h2]; constructor <;> linarith
  · intro h1 h2; rw [hx, hy, if_pos h1, if_neg (not_le.mpr h2)]; constructor <;> linarith
  · intro h1 h2; rw [hx, hy, if_neg (not_le.mpr h1), if_pos h2]; constructor <;> linarith
  · intro h1 h2; rw [hx, hy, if_neg (not_le.mpr h1), if_neg (not_le.mpr h2)]
    constructor <;> linarith

/-- Signed closed form of the conversion (`|φ₀| ≤ π/2`, `|Δφ| ≤ π`, `|Δλ| ≤ π`):
    `x = 2R·arcsin(cos φ₀·sin(Δλ/2))`, `y = R·Δφ`, `z = Δalt` — odd in `Δλ` resp. `Δφ`, which is
    the sign rule of all four quadrants in one formula. -/
theorem C20_axes_closed_form (ref tgt : V3 ℝ) (hφ : |rad ref.x| ≤ π / 2)
    (hdφ : |rad tgt.x - rad ref.x| ≤ π) (hdl : |rad tgt.y - rad ref.y| ≤ π) :
    geoToCartesian ref tgt
      = ⟨2 * R * arcsin (cos (rad ref.x) * sin ((rad tgt.y - rad ref.y) / 2)),
         R * (rad tgt.x - rad ref.x), tgt.z - ref.z⟩ := by
  obtain ⟨_, _, hx, hy, hz, _⟩ := C20_axes_signs ref tgt
  have e : ∀ p q : V3 ℝ, p.x = q.x → p.y = q.y → p.z = q.z → p = q := by
    intro p q h1 h2 h3; cases p; cases q; simp_all
  apply e _ _ _ _ hz
  · rw [hx, (C20_parallel_leg ref.x ref.y tgt.y hφ).1]
    set dl := rad tgt.y - rad ref.y with hdl'
    by_cases h : ref.y ≤ tgt.y
    · have h0 : 0 ≤ dl := (rad_le_iff _ _).mp h
      rw [if_pos h, abs_of_nonneg
        (sin_nonneg_of_nonneg_of_le_pi (by linarith) (by linarith [abs_of_nonneg h0, pi_pos]))]
      ring
    · have h0 : dl < 0 := by
        by_contra hh; exact h ((rad_le_iff _ _).mpr (not_lt.mp hh))
      have hs : sin (dl / 2) ≤ 0 :=
        sin_nonpos_of_nonpos_of_neg_pi_le (by linarith)
          (by linarith [abs_of_neg h0, pi_pos])
      rw [if_neg h, abs_of_nonpos hs, mul_neg, arcsin_neg]
      ring
  · rw [hy, C20_meridian_leg ref.x ref.y tgt.x hdφ]
    by_cases h : ref.x ≤ tgt.x
    · rw [if_pos h, abs_of_nonneg ((rad_le_iff _ _).mp h)]; ring
    · have h0 : rad tgt.x - rad ref.x < 0 := by
        by_contra hh; exact h ((rad_le_iff _ _).mpr (not_lt.mp hh))
      rw [if_neg h, abs_of_neg h0]; ring

/-- Zero offsets (`|φ₀| ≤ π/2`): a target with exactly the reference's latitude and longitude — the
    point straight above or below it, "hover over home" — is converted to `(0, 0, Δalt)`: it lies
    on the vertical axis of the local frame and its altitude difference is preserved.  A target on the
    reference meridian has `x = 0`, a target on the reference parallel has `y = 0`, the other two
    coordinates as in the closed form. -/
theorem C20_zero_offsets (ref : V3 ℝ) (hφ : |rad ref.x| ≤ π / 2) :
    (∀ alt : ℝ, geoToCartesian ref ⟨ref.x, ref.y, alt⟩ = ⟨0, 0, alt - ref.z⟩) ∧
    (∀ lat alt : ℝ, |rad lat - rad ref.x| ≤ π →
        geoToCartesian ref ⟨lat, ref.y, alt⟩ = ⟨0, R * (rad lat - rad ref.x), alt - ref.z⟩) ∧
    (∀ lon alt : ℝ, |rad lon - rad ref.y| ≤ π →
        geoToCartesian ref ⟨ref.x, lon, alt⟩
          = ⟨2 * R * arcsin (cos (rad ref.x) * sin ((rad lon - rad ref.y) / 2)), 0, alt - ref.z⟩) := by
  have h0 : |(0:ℝ)| ≤ π := by rw [abs_zero]; exact pi_pos.le
  refine ⟨fun alt => ?_, fun lat alt h => ?_, fun lon alt h => ?_⟩
  · rw [C20_axes_closed_form ref ⟨ref.x, ref.y, alt⟩ hφ (by simpa using h0) (by simpa using h0)]
    simp
  · rw [C20_axes_closed_form ref ⟨lat, ref.y, alt⟩ hφ h (by simpa using h0)]
    simp
  · rw [C20_axes_closed_form ref ⟨ref.x, lon, alt⟩ hφ (by simpa using h0) h]
    simp

/-- non-vacuity: home at (−22.9°, −43.2°, 10 m), the hover point 50 m above it -/
example : geoToCartesian (⟨-22.9, -43.2, 10⟩ : V3 ℝ) ⟨-22.9, -43.2, 60⟩ = ⟨0, 0, 60 - 10⟩ := by
  have := (C20_zero_offsets (⟨-22.9, -43.2, 10⟩ : V3 ℝ) ?_).1 60
  · exact this
  · show |rad (-22.9)| ≤ π / 2
    unfold rad
    rw [abs_le]
    constructor <;> nlinarith [pi_pos]

/-! ### metric faithfulness along the reference meridian (the statement the pinned code fails) -/

/-- Two targets on the reference meridian — on either side of the reference or on the same —
    convert to points whose distance is exactly the great-circle distance `R·|φ₁ − φ₂|` combined
    with the altitude difference by Pythagoras; with equal altitudes it is `R·|φ₁ − φ₂|`. -/
theorem C20_meridian_exact (ref : V3 ℝ) (lat1 alt1 lat2 alt2 : ℝ)
    (h1 : |rad lat1 - rad ref.x| ≤ π) (h2 : |rad lat2 - rad ref.x| ≤ π) :
    √(V3.sqdist (geoToCartesian ref ⟨lat1, ref.y, alt1⟩) (geoToCartesian ref ⟨lat2, ref.y, alt2⟩))
      = √((R * |rad lat1 - rad lat2|) ^ 2 + (alt1 - alt2) ^ 2) ∧
    (alt1 = alt2 →
      √(V3.sqdist (geoToCartesian ref ⟨lat1, ref.y, alt1⟩)
          (geoToCartesian ref ⟨lat2, ref.y, alt2⟩)) = R * |rad lat1 - rad lat2|) := by
  have conv : ∀ lat alt, |rad lat - rad ref.x| ≤ π →
      geoToCartesian ref ⟨lat, ref.y, alt⟩ = ⟨0, R * (rad lat - rad ref.x), alt - ref.z⟩ := by
    intro lat alt h
    obtain ⟨_, _, hx, hy, hz, _⟩ := C20_axes_signs ref ⟨lat, ref.y, alt⟩
    have e : ∀ p q : V3 ℝ, p.x = q.x → p.y = q.y → p.z = q.z → p = q := by
      intro p q h1 h2 h3; cases p; cases q; simp_all
    apply e _ _ _ _ hz
    · rw [hx]
      have := C20_meridian_leg ref.x ref.y ref.x (by simp [pi_pos.le])
      simp only at this ⊢
      rw [this]; simp
    · rw [hy]
      simp only
      rw [C20_meridian_leg ref.x ref.y lat h]
      by_cases hh : ref.x ≤ lat
      · rw [if_pos hh, abs_of_nonneg ((rad_le_iff _ _).mp hh)]; ring
      · have h0 : rad lat - rad ref.x < 0 := by
          by_contra h'; exact hh ((rad_le_iff _ _).mpr (not_lt.mp h'))
        rw [if_neg hh, abs_of_neg h0]; ring
  have hsq : V3.sqdist (geoToCartesian ref ⟨lat1, ref.y, alt1⟩)
      (geoToCartesian ref ⟨lat2, ref.y, alt2⟩)
      = (R * |rad lat1 - rad lat2|) ^ 2 + (alt1 - alt2) ^ 2 := by
    rw [conv lat1 alt1 h1, conv lat2 alt2 h2]
    unfold V3.sqdist
    simp only [RealScalar.add_eq, RealScalar.sub_eq, RealScalar.sq_eq]
    rw [mul_pow, sq_abs]
    ring
  refine ⟨by rw [hsq], fun ha => ?_⟩
  rw [hsq, ha, sub_self]
  have hR : (0:ℝ) ≤ R := by unfold R; norm_num
  simp only [ne_eq, OfNat.ofNat_ne_zero, not_false_eq_true, zero_pow, add_zero]
  exact sqrt_sq (mul_nonneg hR (abs_nonneg _))

/-- non-vacuity of the hypotheses: 1° north and 1° south of a reference at 10° N -/
example : |rad 11 - rad 10| ≤ π ∧ |rad 9 - rad 10| ≤ π := by
  unfold rad
  constructor <;> rw [abs_le] <;> constructor <;> nlinarith [pi_pos]

/-! ### metric faithfulness near the reference, in every quadrant -/

/-- **0.5 % bound (proved with 0.3 %), box form.**  Reference latitude within ±60° (`|φ₀| ≤ π/3`); two
    targets anywhere — any quadrant, any side of the reference — in the box
    `|Δφ| ≤ 10⁻³ rad`, `cos φ₀·|Δλ| ≤ 10⁻³ rad` around the reference, i.e. north–south and
    east–west offsets up to `R·10⁻³ = 6.371 km` each (the box contains the disc of 5 km around the
    reference: `C20_within_5km_in_box` below).  Then the distance between the converted points differs
    from the true distance — great-circle (haversine) distance combined with the altitude
    difference by Pythagoras — by at most 0.3 % of the latter, hence by less than 0.5 %. -/
theorem C20_small_offsets_box (ref t1 t2 : V3 ℝ) (hφ : |rad ref.x| ≤ π / 3)
    (h1u : |rad t1.x - rad ref.x| ≤ 1 / 1000)
    (h1v : cos (rad ref.x) * |rad t1.y - rad ref.y| ≤ 1 / 1000)
    (h2u : |rad t2.x - rad ref.x| ≤ 1 / 1000)
    (h2v : cos (rad ref.x) * |rad t2.y - rad ref.y| ≤ 1 / 1000) :
    |√(V3.sqdist (geoToCartesian ref t1) (geoToCartesian ref t2))
        - √(haversine t1.x t1.y t2.x t2.y ^ 2 + (t2.z - t1.z) ^ 2)|
      ≤ 3 / 1000 * √(haversine t1.x t1.y t2.x t2.y ^ 2 + (t2.z - t1.z) ^ 2) ∧
    |√(V3.sqdist (geoToCartesian ref t1) (geoToCartesian ref t2))
        - √(haversine t1.x t1.y t2.x t2.y ^ 2 + (t2.z - t1.z) ^ 2)|
      ≤ 5 / 1000 * √(haversine t1.x t1.y t2.x t2.y ^ 2 + (t2.z - t1.z) ^ 2) := by
  have hpi : (2:ℝ) ≤ π := two_le_pi
  have hc : 1 / 2 ≤ cos (rad ref.x) := by
    rw [← cos_abs, ← cos_pi_div_three]
    exact cos_le_cos_of_nonneg_of_le_pi (abs_nonneg _) (by linarith) hφ
  have hvb : ∀ v : ℝ, cos (rad ref.x) * |v| ≤ 1 / 1000 → |v| ≤ π := by
    intro v hv
    have : 1 / 2 * |v| ≤ cos (rad ref.x) * |v| := mul_le_mul_of_nonneg_right hc (abs_nonneg v)
    linarith
  have hφ2 : |rad ref.x| ≤ π / 2 := by linarith
  rw [C20_axes_closed_form ref t1 hφ2 (by linarith) (hvb _ h1v),
    C20_axes_closed_form ref t2 hφ2 (by linarith) (hvb _ h2v)]
  obtain ⟨ha0, ha1, hcore⟩ := GeoSmall.small_offsets_core hc h1u h2u h1v h2v
  have hdl : rad t2.y - rad ref.y - (rad t1.y - rad ref.y) = rad t2.y - rad t1.y := by ring
  rw [hdl] at ha0 ha1 hcore
  rw [haversine_arcsin t1.x t1.y t2.x t2.y ha0 ha1]
  set Hg := 2 * arcsin (√(havA (rad t1.x) (rad t2.x) (rad t2.y - rad t1.y))) with hHg
  set DX := 2 * arcsin (cos (rad ref.x) * sin ((rad t2.y - rad ref.y) / 2))
      - 2 * arcsin (cos (rad ref.x) * sin ((rad t1.y - rad ref.y) / 2)) with hDX
  set Hc := √(DX ^ 2 + (rad t2.x - rad t1.x) ^ 2) with hHc
  have hHc2 : Hc ^ 2 = DX ^ 2 + (rad t2.x - rad t1.x) ^ 2 := sq_sqrt (by positivity)
  have hsq : V3.sqdist
      (⟨2 * R * arcsin (cos (rad ref.x) * sin ((rad t1.y - rad ref.y) / 2)),
        R * (rad t1.x - rad ref.x), t1.z - ref.z⟩ : V3 ℝ)
      ⟨2 * R * arcsin (cos (rad ref.x) * sin ((rad t2.y - rad ref.y) / 2)),
        R * (rad t2.x - rad ref.x), t2.z - ref.z⟩
      = (R * Hc) ^ 2 + (t2.z - t1.z) ^ 2 := by
    unfold V3.sqdist
    simp only [RealScalar.add_eq, RealScalar.sub_eq, RealScalar.sq_eq]
    rw [mul_pow, hHc2, hDX]
    ring
  rw [hsq]
  have hR : (0:ℝ) ≤ R := by unfold R; norm_num
  have hHg0 : 0 ≤ Hg := by
    rw [hHg]
    have := arcsin_nonneg.mpr (sqrt_nonneg (havA (rad t1.x) (rad t2.x) (rad t2.y - rad t1.y)))
    linarith
  have hlip := GeoSmall.abs_sqrt_sq_add_sub_le (R * Hc) (R * Hg) (t2.z - t1.z)
  have h1 : |R * Hc - R * Hg| ≤ 3 / 1000 * (R * Hg) := by
    rw [← mul_sub, abs_mul, abs_of_nonneg hR]
    have := mul_le_mul_of_nonneg_left hcore hR
    linarith
  have h2 : R * Hg ≤ √((R * Hg) ^ 2 + (t2.z - t1.z) ^ 2) := by
    rw [le_sqrt (mul_nonneg hR hHg0) (by positivity)]
    linarith [sq_nonneg (t2.z - t1.z)]
  have h3 : 0 ≤ √((R * Hg) ^ 2 + (t2.z - t1.z) ^ 2) := sqrt_nonneg _
  constructor <;> linarith

/-- non-vacuity: at 45° N, targets 0.02° north-east and 0.03° south-west of the reference
    satisfy the hypotheses -/
example : |rad 45| ≤ π / 3 ∧ |rad 45.02 - rad 45| ≤ 1 / 1000 ∧ |rad 44.97 - rad 45| ≤ 1 / 1000 := by
  unfold rad
  have h3 : π ≤ 4 := pi_le_four
  have h0 := pi_pos
  refine ⟨?_, ?_, ?_⟩ <;> rw [abs_le] <;> constructor <;> nlinarith

/-- A target whose great-circle distance from the reference is at most 5 km (reference latitude
    within ±60°, target latitude a valid latitude, no wrap-around in longitude) lies in the box of
    `C20_small_offsets_box`. -/
theorem C20_within_5km_in_box (ref t : V3 ℝ) (hφ : |rad ref.x| ≤ π / 3) (ht : |rad t.x| ≤ π / 2)
    (hdl : |rad t.y - rad ref.y| ≤ π) (h5 : haversine ref.x ref.y t.x t.y ≤ 5000) :
    |rad t.x - rad ref.x| ≤ 1 / 1000 ∧ cos (rad ref.x) * |rad t.y - rad ref.y| ≤ 1 / 1000 := by
  rw [haversine_real] at h5
  exact GeoSmall.within_5km_box hφ ht hdl h5

/-- **C20, the general bound.**  For every reference with `|φ₀| ≤ 60°` and every two targets
    within 5 km (great-circle) of it — in any quadrants, on any sides of the reference — the
    distance between the converted points is within 0.5 % (indeed 0.3 %) of their true distance:
    great-circle distance combined with the altitude difference by Pythagoras.
    Guards: target latitudes are valid latitudes (`|φ| ≤ 90°`) and longitudes do not wrap around
    (`|Δλ| ≤ 180°`; the source's sign rule compares raw longitudes, so across the antimeridian it
    is not meaningful). -/
theorem C20_small_offsets (ref t1 t2 : V3 ℝ) (hφ : |rad ref.x| ≤ π / 3)
    (hl1 : |rad t1.x| ≤ π / 2) (hw1 : |rad t1.y - rad ref.y| ≤ π)
    (hl2 : |rad t2.x| ≤ π / 2) (hw2 : |rad t2.y - rad ref.y| ≤ π)
    (h1 : haversine ref.x ref.y t1.x t1.y ≤ 5000) (h2 : haversine ref.x ref.y t2.x t2.y ≤ 5000) :
    |√(V3.sqdist (geoToCartesian ref t1) (geoToCartesian ref t2))
        - √(haversine t1.x t1.y t2.x t2.y ^ 2 + (t2.z - t1.z) ^ 2)|
      ≤ 5 / 1000 * √(haversine t1.x t1.y t2.x t2.y ^ 2 + (t2.z - t1.z) ^ 2) := by
  obtain ⟨h1u, h1v⟩ := C20_within_5km_in_box ref t1 hφ hl1 hw1 h1
  obtain ⟨h2u, h2v⟩ := C20_within_5km_in_box ref t2 hφ hl2 hw2 h2
  exact (C20_small_offsets_box ref t1 t2 hφ h1u h1v h2u h2v).2

/-- non-vacuity of the 5 km hypothesis: the reference itself is within 5 km of the reference -/
example (ref : V3 ℝ) : haversine ref.x ref.y ref.x ref.y ≤ 5000 := by
  rw [C20_meridian_leg ref.x ref.y ref.x (by simp [pi_pos.le])]
  simp

/-! ### the geographic goto -/

/-- For every scalar type: a geographic `goto` has exactly the effect of a Cartesian `goto` to
    the converted point (same new world, same acceptance), with or without a mobility handler. -/
theorem C20_goto_geo {S σ : Type} [Scalar S] (cfg : Config S) (n : NodeId) (p : V3 S)
    (w : World S σ) :
    Sim.execReq cfg n (.gotoGeo p) w
      = Sim.execReq cfg n (.goto (geoToCartesian cfg.refGeo p)) w := rfl

/-- **Every send counts on its own.**  A geographic goto carries a VALUE `p` = (lat, lon, alt); handling
    it reads that value and nothing else.  So when the same geographic command is sent again and
    again — by one node (a stored command re-sent from a timer: `ns` with repetitions), by several
    nodes (a rally point kept as a constant: several members of `ns`), after any history `w` (other
    commands, other targets, an earlier handling of the very same command) — every node that sent it
    is headed for the converted point `geoToCartesian refGeo p` of the ORIGINAL (lat, lon, alt), and
    the targets of all other nodes are untouched.  An implementation in which handling a command
    alters the command object (so that a later handling of it starts from other numbers) is not
    this model. -/
theorem C20_goto_geo_every_send {S σ : Type} [Scalar S] (cfg : Config S) (h : cfg.hasMob = true)
    (p : V3 S) (ns : List NodeId) (w : World S σ) (m : NodeId) :
    (ns.foldl (fun w n => (Sim.execReq cfg n (.gotoGeo p) w).1) w).target m
      = if m ∈ ns then some (geoToCartesian cfg.refGeo p) else w.target m := by
  induction ns generalizing w with
  | nil => simp
  | cons a as ih =>
    rw [List.foldl_cons, ih]
    by_cases hm : m ∈ as
    · simp [hm]
    · by_cases hma : m = a
      · subst hma; simp [hm, Sim.execReq, h, Sim.upd]
      · simp [hm, hma, Sim.execReq, h, Sim.upd]

/-- non-vacuity: two nodes sharing the command and one of them sending it twice -/
example {S σ : Type} [Scalar S] (cfg : Config S) (h : cfg.hasMob = true) (p : V3 S) (w : World S σ) :
    ([0, 1, 0].foldl (fun w n => (Sim.execReq cfg n (.gotoGeo p) w).1) w).target 1
      = some (geoToCartesian cfg.refGeo p) := by
  rw [C20_goto_geo_every_send cfg h]; simp

/-! ### the defect F20: the pinned assignment of the legs -/

/-- **F20 on the pinned variant.**  Two targets `a` degrees north (or south) of the reference and
    `b > 0` degrees east resp. west of it (`|a| ≤ 180°`) — mirror images in the reference meridian,
    truly `≈ 2R·cos φ₀·|b|` apart — are converted by the pinned assignment to `(+R|a|, y, 0)` and
    `(−R|a|, y, 0)` with the same `y`: their distance comes out as `2R·|a|`, a function of the
    latitude offset only (for DESIGN's replay `a = 0.001°, b = 0.003°`: 222 m instead of 657 m),
    and is 0 when `a = 0` although the points are distinct.  The repaired model maps the same two
    targets to `(±ew, R·a, 0)` with `ew` the east–west leg, i.e. `2·ew` apart. -/
theorem C20_pinned_mirror_distance (lat0 lon0 a b : ℝ) (ha : |rad a| ≤ π) (hb : 0 < b) :
    let ref : V3 ℝ := ⟨lat0, lon0, 0⟩
    let p1 := geoToCartesianPinned ref ⟨lat0 + a, lon0 + b, 0⟩
    let p2 := geoToCartesianPinned ref ⟨lat0 + a, lon0 - b, 0⟩
    let q1 := geoToCartesian ref ⟨lat0 + a, lon0 + b, 0⟩
    let q2 := geoToCartesian ref ⟨lat0 + a, lon0 - b, 0⟩
    p1.x = R * |rad a| ∧ p2.x = -(R * |rad a|) ∧ p1.y = p2.y ∧ p1.z = p2.z ∧
    √(V3.sqdist p1 p2) = 2 * R * |rad a| ∧
    √(V3.sqdist q1 q2) = 2 * haversine lat0 lon0 lat0 (lon0 + b) := by
  intro ref p1 p2 q1 q2
  have hleg : haversine lat0 lon0 (lat0 + a) lon0 = R * |rad a| := by
    have h : rad (lat0 + a) - rad lat0 = rad a := by unfold rad; ring
    rw [C20_meridian_leg lat0 lon0 (lat0 + a) (by rw [h]; exact ha), h]
  have hge1 : Scalar.ge (lon0 + b) lon0 = true := (RealScalar.ge_eq _ _).mpr (by linarith)
  have hge2 : ¬ (Scalar.ge (lon0 - b) lon0 = true) := by
    rw [RealScalar.ge_eq]; linarith
  have hx1 : p1.x = R * |rad a| := by
    show (if Scalar.ge (lon0 + b) lon0 then haversine lat0 lon0 (lat0 + a) lon0
      else Scalar.neg (haversine lat0 lon0 (lat0 + a) lon0)) = _
    rw [if_pos hge1, hleg]
  have hx2 : p2.x = -(R * |rad a|) := by
    show (if Scalar.ge (lon0 - b) lon0 then haversine lat0 lon0 (lat0 + a) lon0
      else Scalar.neg (haversine lat0 lon0 (lat0 + a) lon0)) = _
    rw [if_neg hge2, hleg]; rfl
  have hy : p1.y = p2.y := by
    show (if Scalar.ge (lat0 + a) lat0 then haversine lat0 lon0 lat0 (lon0 + b)
      else Scalar.neg (haversine lat0 lon0 lat0 (lon0 + b)))
      = (if Scalar.ge (lat0 + a) lat0 then haversine lat0 lon0 lat0 (lon0 - b)
      else Scalar.neg (haversine lat0 lon0 lat0 (lon0 - b)))
    rw [haversine_parallel_symm]
  have hz : p1.z = p2.z := rfl
  have hR : (0:ℝ) ≤ R := by unfold R; norm_num
  refine ⟨hx1, hx2, hy, hz, ?_, ?_⟩
  · unfold V3.sqdist
    simp only [RealScalar.add_eq, RealScalar.sub_eq, RealScalar.sq_eq]
    rw [hx1, hx2, hy, hz]
    rw [show (-(R * |rad a|) - R * |rad a|) ^ 2 + (p2.y - p2.y) ^ 2 + (p2.z - p2.z) ^ 2
      = (2 * R * |rad a|) ^ 2 by ring]
    exact sqrt_sq (by positivity)
  · obtain ⟨hew, _, hqx1, hqy1, hqz1, _⟩ := C20_axes_signs ref ⟨lat0 + a, lon0 + b, 0⟩
    obtain ⟨_, _, hqx2, hqy2, hqz2, _⟩ := C20_axes_signs ref ⟨lat0 + a, lon0 - b, 0⟩
    unfold V3.sqdist
    simp only [RealScalar.add_eq, RealScalar.sub_eq, RealScalar.sq_eq]
    rw [show q1.x = _ from hqx1, show q2.x = _ from hqx2, show q1.y = _ from hqy1,
      show q2.y = _ from hqy2, show q1.z = _ from hqz1, show q2.z = _ from hqz2]
    simp only [ref]
    rw [if_pos (show lon0 ≤ lon0 + b by linarith), if_neg (show ¬ lon0 ≤ lon0 - b by linarith),
      ← haversine_parallel_symm]
    have hnn : 0 ≤ 2 * haversine lat0 lon0 lat0 (lon0 + b) := by
      simp only [ref] at hew; positivity
    conv_rhs => rw [← sqrt_sq hnn]
    congr 1
    ring

end C20
