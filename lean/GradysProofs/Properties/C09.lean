import GradysProofs.Lemmas.Medium
import GradysProofs.Lemmas.RealDist
/-
  C09 — delivery is gated by the SENDER's range and the positions at send time.

  `Sim.inRange` is the range test of `CommunicationHandler.can_transmit`
  (gradysim/simulator/handler/communication.py:164-169): the squared distance against the square of
  `transmission_ranges[sender.id]`.  `Sim.transmit` is `_transmit_message`; `setRange` is
  `CommunicationController.set_transmission_range`.
  Guard `0 ≤ range` for the metric reading: the code squares the range, so a negative medium default
  behaves like its absolute value (`C09_iff_abs` states exactly that); the controller refuses
  negatives (`C09_negative_range_refused`).
-/
set_option linter.unusedSectionVars false
set_option linter.unusedVariables false

namespace C09
open Sim RealScalar

/-! ### the metric reading, over ℝ -/

/-- the copy is in range iff the Euclidean distance between sender and receiver is at most the
    sender's range — all three read in the world at the send; the boundary `=` is in range -/
theorem C09_iff {σ : Type} (w : World ℝ σ) (s d : NodeId) (hr : 0 ≤ w.range s) :
    inRange w s d = true ↔ edist3 (w.pos s) (w.pos d) ≤ w.range s := by
  unfold inRange
  rw [le_eq, sq_eq, edist3_eq_sqrt_sqdist]
  exact (Real.sqrt_le_left hr).symm

/-- without the guard: the code compares against the squared range, i.e. against `|range|` -/
theorem C09_iff_abs {σ : Type} (w : World ℝ σ) (s d : NodeId) :
    inRange w s d = true ↔ edist3 (w.pos s) (w.pos d) ≤ |w.range s| := by
  unfold inRange
  rw [le_eq, sq_eq, edist3_eq_sqrt_sqdist, ← sq_abs (w.range s)]
  exact (Real.sqrt_le_left (abs_nonneg _)).symm

/-- exactly on the boundary: in range -/
theorem C09_boundary_included {σ : Type} (w : World ℝ σ) (s d : NodeId) (hr : 0 ≤ w.range s)
    (h : edist3 (w.pos s) (w.pos d) = w.range s) : inRange w s d = true :=
  (C09_iff w s d hr).mpr h.le

/-- strictly outside: not in range -/
theorem C09_outside_excluded {σ : Type} (w : World ℝ σ) (s d : NodeId) (hr : 0 ≤ w.range s)
    (h : w.range s < edist3 (w.pos s) (w.pos d)) : inRange w s d = false := by
  cases hb : inRange w s d
  · rfl
  · exact absurd ((C09_iff w s d hr).mp hb) (not_le.mpr h)

/-! ### the decision is taken at the send, for every scalar type -/
section anyScalar
variable {S σ : Type} [Scalar S]

/-- `transmit` either leaves the accepted-event list and the queue unchanged or extends them by
    exactly one event, the delivery `(.deliver dst src msg)` due at `now + max delay 0`; which of the
    two is decided by the draw and by `inRange` evaluated in the world AT THE SEND, i.e. only by
    `w.pos src`, `w.pos dst`, `w.range src` and the draw (second part: two worlds that agree on these
    four take the same decision, whatever else differs).  The scheduled event is plain data — it
    carries no position and no range —, so nothing that happens during the delay can change it. -/
theorem C09_decision_at_send (cfg : Config S) (src dst : NodeId) (msg : String) (w : World S σ) :
    ((transmit cfg src dst msg w).raccepted =
        if drawPasses cfg w && inRange w src dst then
          ⟨w.loop.now + max cfg.delay 0, w.loop.nextSeq, .deliver dst src msg⟩ :: w.raccepted
        else w.raccepted) ∧
    ((transmit cfg src dst msg w).loop.queue =
        if drawPasses cfg w && inRange w src dst then
          insertEv ⟨w.loop.now + max cfg.delay 0, w.loop.nextSeq, .deliver dst src msg⟩ w.loop.queue
        else w.loop.queue) ∧
    (∀ w' : World S σ, w'.pos src = w.pos src → w'.pos dst = w.pos dst →
      w'.range src = w.range src → w'.drawIdx = w.drawIdx →
      (drawPasses cfg w' && inRange w' src dst) = (drawPasses cfg w && inRange w src dst)) := by
  have hts : deliverTime cfg w = w.loop.now + max cfg.delay 0 := by
    unfold deliverTime; split <;> omega
  have hev : deliveryEv cfg w src dst msg =
      ⟨w.loop.now + max cfg.delay 0, w.loop.nextSeq, .deliver dst src msg⟩ := by
    unfold deliveryEv; rw [hts]
  refine ⟨?_, ?_, ?_⟩
  · rw [transmit_accepted, hev]; rfl
  · rw [transmit_queue, hev]; rfl
  · intro w' h1 h2 h3 h4
    rw [inRange_congr h1 h2 h3]
    unfold drawPasses; rw [h4]

/-- executing a delivery event is the packet callback on its destination with its payload, whatever
    the positions and ranges have become meanwhile -/
theorem C09_delivery_ignores_geometry (cfg : Config S) (P : NodeId → Proto S σ) (ts : Int) (seq : Nat)
    (dst src : NodeId) (msg : String) (w : World S σ) :
    execEv cfg P ⟨ts, seq, .deliver dst src msg⟩ w = callback cfg P dst (.packet msg) w := rfl

/-- the decision and the delivery do not depend on any position or range change made after (or
    anywhere else than at) the send: two worlds that agree on the sender's and receiver's position, the
    sender's range, the draw index and the event loop end up with the same event loop and accepted
    list after the copy — all other positions, ranges, targets and speeds are irrelevant —, and the
    scheduled event, executed in ANY later world, is the packet callback on `dst` with `msg` -/
theorem C09_send_time_only (cfg : Config S) (P : NodeId → Proto S σ) (src dst : NodeId) (msg : String)
    (w : World S σ) :
    (∀ w' : World S σ, w'.pos src = w.pos src → w'.pos dst = w.pos dst →
      w'.range src = w.range src → w'.drawIdx = w.drawIdx → w'.loop = w.loop →
      w'.raccepted = w.raccepted →
      (transmit cfg src dst msg w').loop = (transmit cfg src dst msg w).loop ∧
      (transmit cfg src dst msg w').raccepted = (transmit cfg src dst msg w).raccepted) ∧
    (∀ (later : World S σ) (ts : Int) (seq : Nat),
      execEv cfg P ⟨ts, seq, .deliver dst src msg⟩ later = callback cfg P dst (.packet msg) later) := by
  refine ⟨?_, fun _ _ _ => rfl⟩
  intro w' h1 h2 h3 h4 h5 h6
  have hc : copyDelivered cfg w' src dst = copyDelivered cfg w src dst := by
    unfold copyDelivered drawPasses
    rw [inRange_congr h1 h2 h3, h4]
  have ht : deliverTime cfg w' = deliverTime cfg w := deliverTime_congrM cfg (by rw [h5])
  have he : deliveryEv cfg w' src dst msg = deliveryEv cfg w src dst msg := by
    unfold deliveryEv; rw [ht, h5]
  rw [transmit_eq cfg src dst msg w', transmit_eq cfg src dst msg w, hc]
  split
  · exact ⟨by simp only [h5, ht], by simp only [he, h6]⟩
  · exact ⟨h5, h6⟩

/-- loss-free medium (`failure_rate ≤ 0`): the copy is scheduled iff in range at the send -/
theorem C09_lossfree (cfg : Config S) (hfr : Scalar.gt cfg.failRate (Scalar.ofInt 0) = false)
    (src dst : NodeId) (msg : String) (w : World S σ) :
    (transmit cfg src dst msg w).raccepted =
      if inRange w src dst then deliveryEv cfg w src dst msg :: w.raccepted else w.raccepted := by
  rw [transmit_accepted]
  unfold copyDelivered drawPasses
  simp [hfr]

/-- `setRange r` by node `n` changes only `range n` — no position, no other node's range, no event —
    and whether a node `d` RECEIVES from `s ≠ d` does not depend on `range d` -/
theorem C09_range_frame (cfg : Config S) (n : NodeId) (r : S) (w : World S σ) :
    ((execReq cfg n (.setRange r) w).1 = w ∨
      (execReq cfg n (.setRange r) w).1 = { w with range := upd w.range n r }) ∧
    (∀ m, m ≠ n → (execReq cfg n (.setRange r) w).1.range m = w.range m) ∧
    (execReq cfg n (.setRange r) w).1.pos = w.pos ∧
    (execReq cfg n (.setRange r) w).1.loop = w.loop ∧
    (execReq cfg n (.setRange r) w).1.raccepted = w.raccepted ∧
    (∀ s d, s ≠ n → inRange (execReq cfg n (.setRange r) w).1 s d = inRange w s d) ∧
    (∀ s d (r' : S), d ≠ s → inRange { w with range := upd w.range d r' } s d = inRange w s d) := by
  have hcases : (execReq cfg n (.setRange r) w).1 = w ∨
      (execReq cfg n (.setRange r) w).1 = { w with range := upd w.range n r } := by
    cases h1 : Scalar.lt r (Scalar.ofInt 0) <;> cases h2 : cfg.hasComm <;> simp [execReq, h1, h2]
  refine ⟨hcases, ?_, ?_, ?_, ?_, ?_, ?_⟩
  · intro m hm
    rcases hcases with h | h <;> rw [h]
    simp [upd, hm]
  · rcases hcases with h | h <;> rw [h]
  · rcases hcases with h | h <;> rw [h]
  · rcases hcases with h | h <;> rw [h]
  · intro s d hs
    rcases hcases with h | h <;> rw [h]
    exact inRange_congr rfl rfl (by simp [upd, hs])
  · intro s d r' hds
    exact inRange_congr rfl rfl (by simp [upd, Ne.symm hds])

/-- an accepted `setRange` really sets the caller's range (communication handler present) -/
theorem C09_setRange_sets (cfg : Config S) (hc : cfg.hasComm = true) (n : NodeId) (r : S)
    (w : World S σ) (h : Scalar.lt r (Scalar.ofInt 0) = false) :
    execReq cfg n (.setRange r) w = ({ w with range := upd w.range n r }, true) ∧
    (execReq cfg n (.setRange r) w).1.range n = r := by
  simp [execReq, h, hc, upd]

/-- a negative range is refused (`ValueError`) and changes nothing -/
theorem C09_negative_range_refused (cfg : Config S) (n : NodeId) (r : S) (w : World S σ)
    (h : Scalar.lt r (Scalar.ofInt 0) = true) : execReq cfg n (.setRange r) w = (w, false) := by
  simp [execReq, h]

end anyScalar

/-- over ℝ: `r < 0` is refused, `0 ≤ r` is accepted -/
theorem C09_negative_range_refused_real {σ : Type} (cfg : Config ℝ) (n : NodeId) (r : ℝ)
    (w : World ℝ σ) :
    (r < 0 → execReq cfg n (.setRange r) w = (w, false)) ∧
    (0 ≤ r → (execReq cfg n (.setRange r) w).2 = true) := by
  constructor
  · intro h
    exact C09_negative_range_refused cfg n r w (by rw [lt_eq, ofInt_eq]; push_cast; exact h)
  · intro h
    have h' : ¬ r < 0 := not_lt.mpr h
    cases hc : cfg.hasComm <;> simp [execReq, hc, h']

/-! ### non-vacuity: an on-boundary, asymmetric pair -/

/-- node 0 at the origin with range 7, node 1 at (2,3,6) — distance exactly 7 — with range 6 -/
noncomputable def exWorld : World ℝ Unit :=
  { loop := EL.empty, iter := 0, initialized := true, finalized := false, pending := [],
    nextTimer := fun _ => 0, range := fun n => if n = 0 then 7 else 6,
    pos := fun n => if n = 0 then ⟨0, 0, 0⟩ else ⟨2, 3, 6⟩,
    target := fun _ => none, speed := fun _ => 10, drawIdx := 0, pstate := fun _ => (),
    rtrace := [], raccepted := [], rexecuted := [] }

example : edist3 (exWorld.pos 0) (exWorld.pos 1) = exWorld.range 0 ∧
    inRange exWorld 0 1 = true ∧ inRange exWorld 1 0 = false := by
  have hd : edist3 (exWorld.pos 0) (exWorld.pos 1) = 7 := by
    show Real.sqrt (((2:ℝ) - 0) ^ 2 + (3 - 0) ^ 2 + (6 - 0) ^ 2) = 7
    rw [show ((2:ℝ) - 0) ^ 2 + (3 - 0) ^ 2 + (6 - 0) ^ 2 = 7 ^ 2 by norm_num]
    exact Real.sqrt_sq (by norm_num)
  have hd' : edist3 (exWorld.pos 1) (exWorld.pos 0) = 7 := by rw [edist3_comm]; exact hd
  have r0 : exWorld.range 0 = 7 := rfl
  have r1 : exWorld.range 1 = 6 := rfl
  refine ⟨by rw [hd, r0], ?_, ?_⟩
  · exact C09_boundary_included exWorld 0 1 (by rw [r0]; norm_num) (by rw [hd, r0])
  · exact C09_outside_excluded exWorld 1 0 (by rw [r1]; norm_num) (by rw [hd', r1]; norm_num)

end C09
