import GradysModel.Queue
/-
  Lemmas about the stable event queue: membership, permutation, sortedness by (ts, seq).
-/

/-- strict lexicographic order on (timestamp, sequence): the repaired `Event.__lt__` -/
def keyLt {K : Type} (a b : Ev K) : Prop := a.ts < b.ts ∨ (a.ts = b.ts ∧ a.seq < b.seq)

theorem keyLt_ts_le {K : Type} {a b : Ev K} (h : keyLt a b) : a.ts ≤ b.ts := by
  rcases h with h | ⟨h, _⟩ <;> omega

theorem keyLt_trans {K : Type} {a b c : Ev K} (h1 : keyLt a b) (h2 : keyLt b c) : keyLt a c := by
  unfold keyLt at *
  omega

theorem keyLt_irrefl {K : Type} (a : Ev K) : ¬ keyLt a a := by
  unfold keyLt; omega

theorem keyLt_asymm {K : Type} {a b : Ev K} (h : keyLt a b) : ¬ keyLt b a := by
  unfold keyLt at *; omega

/-- the order is total on events with distinct sequence numbers -/
theorem keyLt_total {K : Type} (a b : Ev K) (h : a.seq ≠ b.seq) : keyLt a b ∨ keyLt b a := by
  unfold keyLt; omega

theorem mem_insertEv {K : Type} {e x : Ev K} {q : List (Ev K)} :
    x ∈ insertEv e q ↔ x = e ∨ x ∈ q := by
  induction q with
  | nil => simp [insertEv]
  | cons y ys ih =>
    unfold insertEv
    split
    · simp only [List.mem_cons, ih]
      constructor
      · rintro (h | h | h)
        · exact Or.inr (Or.inl h)
        · exact Or.inl h
        · exact Or.inr (Or.inr h)
      · rintro (h | h | h)
        · exact Or.inr (Or.inl h)
        · exact Or.inl h
        · exact Or.inr (Or.inr h)
    · simp only [List.mem_cons]

theorem insertEv_perm {K : Type} (e : Ev K) (q : List (Ev K)) : (insertEv e q).Perm (e :: q) := by
  induction q with
  | nil => simp [insertEv]
  | cons y ys ih =>
    unfold insertEv
    split
    · exact (List.Perm.cons y ih).trans (List.Perm.swap e y ys)
    · exact List.Perm.refl _

theorem insertEv_length {K : Type} (e : Ev K) (q : List (Ev K)) :
    (insertEv e q).length = q.length + 1 := by
  simpa using (insertEv_perm e q).length_eq

/-- inserting an event whose sequence number exceeds every queued one keeps the queue strictly
    sorted by (ts, seq): this is where FIFO among equal timestamps comes from. -/
theorem insertEv_sorted {K : Type} (e : Ev K) (q : List (Ev K))
    (hs : q.Pairwise keyLt) (hseq : ∀ x ∈ q, x.seq < e.seq) : (insertEv e q).Pairwise keyLt := by
  induction q with
  | nil => simp [insertEv]
  | cons x xs ih =>
    have hx := List.pairwise_cons.mp hs
    unfold insertEv
    split
    · rename_i hle
      refine List.pairwise_cons.mpr ⟨?_, ih hx.2 (fun y hy => hseq y (List.mem_cons_of_mem _ hy))⟩
      intro y hy
      rcases mem_insertEv.mp hy with rfl | hy
      · have := hseq x List.mem_cons_self
        unfold keyLt; omega
      · exact hx.1 y hy
    · rename_i hnle
      refine List.pairwise_cons.mpr ⟨?_, hs⟩
      intro y hy
      rcases List.mem_cons.mp hy with rfl | hy
      · unfold keyLt; omega
      · have := keyLt_ts_le (hx.1 y hy)
        unfold keyLt; omega

/-- the head of a sorted queue is the least element: what `heappop` returns -/
theorem sorted_head_least {K : Type} {e : Ev K} {rest : List (Ev K)}
    (hs : (e :: rest).Pairwise keyLt) : ∀ x ∈ rest, keyLt e x :=
  (List.pairwise_cons.mp hs).1
