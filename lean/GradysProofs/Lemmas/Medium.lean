import GradysModel.Sim
/-
  The communication medium (`can_transmit` + `_transmit_message`) as equations: what one copy does to
  the world, for every scalar type.  Shared by C09 (range gating) and C10 (loss).  Mathlib-free.
-/
set_option linter.unusedSectionVars false

namespace Sim
variable {S σ : Type} [Scalar S]

/-- the delivery event a successful copy creates: pure data — destination, source, payload, due time
    (`now`, or `now + delay` for a positive delay) and the request number.  No position, no range. -/
def deliveryEv (cfg : Config S) (w : World S σ) (src dst : NodeId) (msg : String) : Ev (EvKind S) :=
  ⟨deliverTime cfg w, w.loop.nextSeq, .deliver dst src msg⟩

/-- the number of draws one copy consumes: 1 iff `failure_rate > 0` -/
def drawCost (cfg : Config S) : Nat := if Scalar.gt cfg.failRate (Scalar.ofInt 0) then 1 else 0

/-- the loss decision of one copy in world `w` (true = passes) -/
def drawPasses (cfg : Config S) (w : World S σ) : Bool :=
  if Scalar.gt cfg.failRate (Scalar.ofInt 0) then Scalar.gt (cfg.draws w.drawIdx) cfg.failRate else true

/-- the whole decision of `can_transmit` -/
def copyDelivered (cfg : Config S) (w : World S σ) (src dst : NodeId) : Bool :=
  drawPasses cfg w && inRange w src dst

theorem consumeDraw_fst (cfg : Config S) (w : World S σ) : (consumeDraw cfg w).1 = drawPasses cfg w := by
  unfold consumeDraw drawPasses; split <;> rfl

theorem consumeDraw_snd (cfg : Config S) (w : World S σ) :
    (consumeDraw cfg w).2 = { w with drawIdx := w.drawIdx + drawCost cfg } := by
  unfold consumeDraw drawCost; split <;> rfl

/-- `_transmit_message` as one equation -/
theorem transmit_eq (cfg : Config S) (src dst : NodeId) (msg : String) (w : World S σ) :
    transmit cfg src dst msg w =
      if copyDelivered cfg w src dst then
        { w with drawIdx := w.drawIdx + drawCost cfg,
                 loop := w.loop.push (deliverTime cfg w) (.deliver dst src msg),
                 raccepted := deliveryEv cfg w src dst msg :: w.raccepted }
      else { w with drawIdx := w.drawIdx + drawCost cfg } := by
  unfold transmit copyDelivered
  simp only [consumeDraw_fst, consumeDraw_snd]
  split <;> rfl

/-- what a copy leaves untouched -/
theorem transmit_frameM (cfg : Config S) (src dst : NodeId) (msg : String) (w : World S σ) :
    (transmit cfg src dst msg w).pos = w.pos ∧ (transmit cfg src dst msg w).range = w.range ∧
    (transmit cfg src dst msg w).target = w.target ∧ (transmit cfg src dst msg w).speed = w.speed ∧
    (transmit cfg src dst msg w).loop.now = w.loop.now ∧
    (transmit cfg src dst msg w).rexecuted = w.rexecuted ∧
    (transmit cfg src dst msg w).rtrace = w.rtrace ∧
    (transmit cfg src dst msg w).pending = w.pending ∧
    (transmit cfg src dst msg w).drawIdx = w.drawIdx + drawCost cfg := by
  rw [transmit_eq]
  split <;> exact ⟨rfl, rfl, rfl, rfl, rfl, rfl, rfl, rfl, rfl⟩

theorem transmit_accepted (cfg : Config S) (src dst : NodeId) (msg : String) (w : World S σ) :
    (transmit cfg src dst msg w).raccepted =
      if copyDelivered cfg w src dst then deliveryEv cfg w src dst msg :: w.raccepted
      else w.raccepted := by
  rw [transmit_eq]; split <;> rfl

theorem transmit_queue (cfg : Config S) (src dst : NodeId) (msg : String) (w : World S σ) :
    (transmit cfg src dst msg w).loop.queue =
      if copyDelivered cfg w src dst then insertEv (deliveryEv cfg w src dst msg) w.loop.queue
      else w.loop.queue := by
  rw [transmit_eq]; split <;> rfl

/-- `inRange` reads only the two positions and the SENDER's range -/
theorem inRange_congr {w w' : World S σ} {src dst : NodeId} (hs : w'.pos src = w.pos src)
    (hd : w'.pos dst = w.pos dst) (hr : w'.range src = w.range src) :
    inRange w' src dst = inRange w src dst := by
  unfold inRange; rw [hs, hd, hr]

theorem deliverTime_congrM (cfg : Config S) {w w' : World S σ} (h : w'.loop.now = w.loop.now) :
    deliverTime cfg w' = deliverTime cfg w := by
  unfold deliverTime; rw [h]

/-- a broadcast skips the sender: it is the broadcast over the other destinations -/
theorem broadcastTo_filter (cfg : Config S) (src : NodeId) (msg : String) (dsts : List NodeId)
    (w : World S σ) :
    broadcastTo cfg src msg dsts w = broadcastTo cfg src msg (dsts.filter (fun d => d ≠ src)) w := by
  unfold broadcastTo
  induction dsts generalizing w with
  | nil => rfl
  | cons d ds ih =>
    by_cases h : d = src
    · simp [h, ih]
    · simp [h, ih]

theorem broadcastTo_nil (cfg : Config S) (src : NodeId) (msg : String) (w : World S σ) :
    broadcastTo cfg src msg [] w = w := rfl

theorem broadcastTo_cons (cfg : Config S) (src : NodeId) (msg : String) (d : NodeId)
    (ds : List NodeId) (w : World S σ) (h : d ≠ src) :
    broadcastTo cfg src msg (d :: ds) w = broadcastTo cfg src msg ds (transmit cfg src d msg w) := by
  unfold broadcastTo; simp [h]

end Sim
