import GradysProofs.Lemmas.NonInterfRun
import GradysProofs.Lemmas.SimLife
import GradysProofs.Lemmas.SimUnbounded
/-
  C13 for COMPLETED runs under a duration bound (no iteration limit).

  1. `step_simulation` against event-level execution up to and including finalisation:
     a completed run is `finalise` of the first event-level world that `isDone` (`completed_run`).
  2. With `maxIter = none`, `isDone` looks at the head's time only (`overdue`).
  3. At completion both runs have executed the same number of events not owned by `x`
     (`visCount_eq_of_done`), hence equal views just before finalisation (`viewEq_before_finalise`).
  4. Finalisation: what `finish` of the others contributes to the projected trace (`FinBlocks`), and
     congruence of finalisation from worlds with equal views but DIFFERENT clocks (`FinEq`).
-/
set_option linter.unusedSectionVars false

namespace Sim
variable {S σ : Type} [Scalar S]

/-! ### `step_simulation` against event-level execution, finalisation included -/

theorem evStep_cons (cfg : Config S) (P : NodeId → Proto S σ) {w : World S σ} {e : Ev (EvKind S)}
    {rest : List (Ev (EvKind S))} (hq : w.loop.queue = e :: rest) :
    evStep cfg P w = execStep cfg P e rest w := by
  unfold evStep; rw [hq]

/-- a call that neither finds the simulation done nor leaves it done is one event-level step -/
theorem step_live (cfg : Config S) (P : NodeId → Proto S σ) (w : World S σ) (hf : w.finalized = false)
    (h0 : isDone cfg (prep cfg P w) = false) (h1 : isDone cfg (evStep cfg P (prep cfg P w)) = false) :
    (step cfg P w).1 = evStep cfg P (prep cfg P w) := by
  rw [step_eq cfg P w hf, if_neg (by rw [h0]; simp)]
  cases hq : (prep cfg P w).loop.queue with
  | nil => rw [isDone_nil hq] at h0; cases h0
  | cons e rest =>
    rw [evStep_cons cfg P hq] at h1 ⊢
    simp only
    rw [if_neg (by rw [h1]; simp)]

/-- a call that finds the simulation done finalises it -/
theorem step_final0 (cfg : Config S) (P : NodeId → Proto S σ) (w : World S σ) (hf : w.finalized = false)
    (h0 : isDone cfg (prep cfg P w) = true) : (step cfg P w).1 = finalise cfg P (prep cfg P w) := by
  rw [step_eq cfg P w hf, if_pos h0]

/-- a call whose event leaves the simulation done executes the event and finalises -/
theorem step_final1 (cfg : Config S) (P : NodeId → Proto S σ) (w : World S σ) (hf : w.finalized = false)
    (h0 : isDone cfg (prep cfg P w) = false) (h1 : isDone cfg (evStep cfg P (prep cfg P w)) = true) :
    (step cfg P w).1 = finalise cfg P (evStep cfg P (prep cfg P w)) := by
  rw [step_eq cfg P w hf, if_neg (by rw [h0]; simp)]
  cases hq : (prep cfg P w).loop.queue with
  | nil => rw [isDone_nil hq] at h0; cases h0
  | cons e rest =>
    rw [evStep_cons cfg P hq] at h1 ⊢
    simp only
    rw [if_pos h1]

/-- none of the first `k` event-level worlds is done: the run is still going after `k` events -/
def Live (cfg : Config S) (P : NodeId → Proto S σ) (k : Nat) : Prop :=
  ∀ j, j < k → isDone cfg (evSteps cfg P j (start0 cfg P)) = false

theorem Live.succ {cfg : Config S} {P : NodeId → Proto S σ} {k : Nat} (h : Live cfg P k)
    (hk : isDone cfg (evSteps cfg P k (start0 cfg P)) = false) : Live cfg P (k + 1) := by
  intro j hj
  by_cases hjk : j = k
  · subst hjk; exact hk
  · exact h j (by omega)

/-- the three shapes of a world reached by `step_simulation` calls on a freshly built simulation:
    not yet initialised; `k` events executed and still going; finalised after exactly `k` events,
    `k` being the first count at which `is_simulation_done` holds -/
def RunShape (cfg : Config S) (P : NodeId → Proto S σ) (w : World S σ) : Prop :=
  w = init cfg P ∨
  (∃ k, Live cfg P k ∧ w = evSteps cfg P k (start0 cfg P)) ∨
  (∃ k, Live cfg P k ∧ isDone cfg (evSteps cfg P k (start0 cfg P)) = true ∧
    w = finalise cfg P (evSteps cfg P k (start0 cfg P)))

theorem runShape_step_aux (cfg : Config S) (P : NodeId → Proto S σ) (k : Nat) (hl : Live cfg P k)
    (w : World S σ) (hf : w.finalized = false) (hp : prep cfg P w = evSteps cfg P k (start0 cfg P)) :
    RunShape cfg P (step cfg P w).1 := by
  cases h0 : isDone cfg (evSteps cfg P k (start0 cfg P)) with
  | true =>
    right; right
    refine ⟨k, hl, h0, ?_⟩
    rw [step_final0 cfg P w hf (by rw [hp]; exact h0), hp]
  | false =>
    have hl' := hl.succ h0
    cases h1 : isDone cfg (evSteps cfg P (k + 1) (start0 cfg P)) with
    | true =>
      right; right
      refine ⟨k + 1, hl', h1, ?_⟩
      rw [step_final1 cfg P w hf (by rw [hp]; exact h0) (by rw [hp]; exact h1), hp]
      rfl
    | false =>
      right; left
      refine ⟨k + 1, hl', ?_⟩
      rw [step_live cfg P w hf (by rw [hp]; exact h0) (by rw [hp]; exact h1), hp]
      rfl

theorem runShape_step (cfg : Config S) (hdt : 0 ≤ cfg.dt) (P : NodeId → Proto S σ) (w : World S σ)
    (h : RunShape cfg P w) : RunShape cfg P (step cfg P w).1 := by
  rcases h with rfl | ⟨k, hl, rfl⟩ | ⟨k, hl, hd, rfl⟩
  · refine runShape_step_aux cfg P 0 (fun j hj => absurd hj (Nat.not_lt_zero j)) _ (init_flags cfg P).2 ?_
    unfold prep; rw [(init_flags cfg P).1]; rfl
  · have hfl := evSteps_flags cfg hdt P k
    refine runShape_step_aux cfg P k hl _ hfl.2 ?_
    unfold prep; rw [hfl.1]; rfl
  · right; right
    refine ⟨k, hl, hd, ?_⟩
    unfold step
    rw [if_pos (finalise_finalized cfg P _)]

theorem runShape_steps (cfg : Config S) (hdt : 0 ≤ cfg.dt) (P : NodeId → Proto S σ) (n : Nat) :
    RunShape cfg P (steps cfg P n (init cfg P)) := by
  suffices ∀ n (w : World S σ), RunShape cfg P w → RunShape cfg P (steps cfg P n w) from
    this n _ (Or.inl rfl)
  intro n
  induction n with
  | zero => intro w hw; exact hw
  | succ n ih => intro w hw; exact ih _ (runShape_step cfg hdt P w hw)

/-- generalisation of `steps_eq_evSteps` to any bounds: as long as `is_simulation_done` has not
    held, `k+1` calls of `step_simulation` are initialisation followed by `k+1` event-level steps -/
theorem steps_eq_evSteps_live (cfg : Config S) (hdt : 0 ≤ cfg.dt) (P : NodeId → Proto S σ) (k : Nat)
    (hl : Live cfg P (k + 2)) :
    steps cfg P (k + 1) (init cfg P) = evSteps cfg P (k + 1) (start0 cfg P) := by
  induction k with
  | zero =>
    show (step cfg P (init cfg P)).1 = evStep cfg P (start0 cfg P)
    have hp : prep cfg P (init cfg P) = start0 cfg P := by
      unfold prep; rw [(init_flags cfg P).1]; rfl
    rw [step_live cfg P (init cfg P) (init_flags cfg P).2 (by rw [hp]; exact hl 0 (by omega))
      (by rw [hp]; exact hl 1 (by omega)), hp]
  | succ k ih =>
    rw [steps_add cfg P (k + 1) 1, ih (fun j hj => hl j (by omega))]
    show (step cfg P (evSteps cfg P (k + 1) (start0 cfg P))).1 = evStep cfg P _
    have hfl := evSteps_flags cfg hdt P (k + 1)
    have hp : prep cfg P (evSteps cfg P (k + 1) (start0 cfg P)) = evSteps cfg P (k + 1) (start0 cfg P) := by
      unfold prep; rw [hfl.1]; rfl
    rw [step_live cfg P _ hfl.2 (by rw [hp]; exact hl (k + 1) (by omega))
      (by rw [hp]; exact hl (k + 2) (by omega)), hp]

/-- a COMPLETED run (`finalized`) is the finalisation of the event-level world after exactly `k`
    events, where `k` is the first count at which `is_simulation_done` holds -/
theorem completed_run (cfg : Config S) (hdt : 0 ≤ cfg.dt) (P : NodeId → Proto S σ) (n : Nat)
    (hfin : (steps cfg P n (init cfg P)).finalized = true) :
    ∃ k, Live cfg P k ∧ isDone cfg (evSteps cfg P k (start0 cfg P)) = true ∧
      steps cfg P n (init cfg P) = finalise cfg P (evSteps cfg P k (start0 cfg P)) := by
  rcases runShape_steps cfg hdt P n with h | ⟨k, _, h⟩ | h
  · rw [h, (init_flags cfg P).2] at hfin; cases hfin
  · rw [h, (evSteps_flags cfg hdt P k).2] at hfin; cases hfin
  · exact h

/-! ### `is_simulation_done` without an iteration limit -/

/-- the time is beyond the duration -/
def overdue (cfg : Config S) (t : Int) : Bool :=
  match cfg.duration with
  | some D => decide (D < t)
  | none => false

theorem overdue_mono (cfg : Config S) {t t' : Int} (h : t ≤ t') (ho : overdue cfg t = true) :
    overdue cfg t' = true := by
  unfold overdue at ho ⊢
  cases hd : cfg.duration with
  | none => rw [hd] at ho; cases ho
  | some D =>
    rw [hd] at ho
    simp only [decide_eq_true_eq] at ho ⊢
    omega

theorem isDone_cons (cfg : Config S) (hm : cfg.maxIter = none) {w : World S σ} {e : Ev (EvKind S)}
    {rest : List (Ev (EvKind S))} (hq : w.loop.queue = e :: rest) : isDone cfg w = overdue cfg e.ts := by
  unfold isDone overdue
  rw [hq, hm]
  cases cfg.duration <;> simp

theorem mem_qview {x : NodeId} {q : List (Ev (EvKind S))} {a : Int × EvKind S} (h : a ∈ qview x q) :
    ∃ e, e ∈ q ∧ e.ts = a.1 := by
  unfold qview at h
  obtain ⟨e, he, rfl⟩ := List.mem_map.mp h
  exact ⟨e, (List.mem_filter.mp he).1, rfl⟩

/-- when the run is done, everything still queued is due after the duration -/
theorem done_queue_overdue (cfg : Config S) (hm : cfg.maxIter = none) {w : World S σ}
    (hs : SortedTs w.loop.queue) (hd : isDone cfg w = true) :
    ∀ e ∈ w.loop.queue, overdue cfg e.ts = true := by
  intro e he
  cases hq : w.loop.queue with
  | nil => rw [hq] at he; cases he
  | cons h rest =>
    rw [isDone_cons cfg hm hq] at hd
    rw [hq] at he hs
    rcases List.mem_cons.mp he with rfl | he
    · exact hd
    · exact overdue_mono cfg ((List.pairwise_cons.mp hs).1 e he) hd

/-- while the run is going, the next event is due within the duration -/
theorem live_head_due (cfg : Config S) (hm : cfg.maxIter = none) {w : World S σ} {e : Ev (EvKind S)}
    {rest : List (Ev (EvKind S))} (hq : w.loop.queue = e :: rest) (hd : isDone cfg w = false) :
    overdue cfg e.ts = false := by
  rw [isDone_cons cfg hm hq] at hd; exact hd

/-! ### equal visible counts at completion -/

/-- every visible count below the current one was left by executing a visible event -/
theorem visCount_passed (cfg : Config S) (hdt : 0 ≤ cfg.dt) (P : NodeId → Proto S σ) (x : NodeId)
    (hs : Silent x P) (k c : Nat) (hc : c < visCount x (evSteps cfg P k (start0 cfg P))) :
    ∃ k', k' < k ∧ visCount x (evSteps cfg P k' (start0 cfg P)) = c ∧
      ∃ e rest, (evSteps cfg P k' (start0 cfg P)).loop.queue = e :: rest ∧ xowned x e.kind = false := by
  induction k with
  | zero =>
    have h0 : visCount x (evSteps cfg P 0 (start0 cfg P)) = 0 := start0_visCount cfg hdt P x
    omega
  | succ k ih =>
    by_cases hlt : c < visCount x (evSteps cfg P k (start0 cfg P))
    · obtain ⟨k', hk', h⟩ := ih hlt
      exact ⟨k', by omega, h⟩
    · have hI := evSteps_inv cfg hdt P k (start0_inv cfg hdt P)
      rcases evStep_cases cfg hdt P x hs _ hI with ⟨_, hcnt⟩ | ⟨e, rest, hq, he, _, hcnt⟩
      · have : visCount x (evSteps cfg P (k + 1) (start0 cfg P)) =
            visCount x (evSteps cfg P k (start0 cfg P)) := hcnt
        omega
      · have : visCount x (evSteps cfg P (k + 1) (start0 cfg P)) =
            visCount x (evSteps cfg P k (start0 cfg P)) + 1 := hcnt
        exact ⟨k, by omega, by omega, e, rest, hq, he⟩

/-- KEY LEMMA: a run that is still going after fewer than `k₂` events cannot have executed more
    visible events than a run that is done: the next visible event of the shorter count is queued in
    the done run too (equal views), where it is overdue, so the going run would not execute it -/
theorem visCount_le_of_done (cfg : Config S) (hdt : 0 ≤ cfg.dt) (hm : cfg.maxIter = none)
    (P₁ P₂ : NodeId → Proto S σ) (x : NodeId) (hs₁ : Silent x P₁) (hs₂ : Silent x P₂)
    (hP : ∀ n, n ≠ x → P₁ n = P₂ n) (k₁ k₂ : Nat)
    (hd₁ : isDone cfg (evSteps cfg P₁ k₁ (start0 cfg P₁)) = true) (hl₂ : Live cfg P₂ k₂) :
    visCount x (evSteps cfg P₂ k₂ (start0 cfg P₂)) ≤ visCount x (evSteps cfg P₁ k₁ (start0 cfg P₁)) := by
  apply Nat.le_of_not_lt
  intro hlt
  obtain ⟨k', hk', hc, e, rest, hq, he⟩ := visCount_passed cfg hdt P₂ x hs₂ k₂ _ hlt
  have hv := view_of_visCount cfg hdt P₁ P₂ x hs₁ hs₂ hP (k₁ + k') k₁ k' (Nat.le_refl _) hc.symm
  have hqv := hv.queue
  rw [hq, qview_cons_other x e rest he] at hqv
  have hmem : (e.ts, e.kind) ∈ qview x (evSteps cfg P₁ k₁ (start0 cfg P₁)).loop.queue := by
    rw [hqv]; exact List.mem_cons_self
  obtain ⟨e', he', hts⟩ := mem_qview hmem
  have hI₁ := evSteps_inv cfg hdt P₁ k₁ (start0_inv cfg hdt P₁)
  have h1 := done_queue_overdue cfg hm (sortedTs_of_keyLt hI₁.sorted) hd₁ e' he'
  have h2 := live_head_due cfg hm hq (hl₂ k' hk')
  rw [hts] at h1
  rw [h1] at h2
  cases h2

/-- at completion both runs have executed the same number of events not owned by `x` -/
theorem visCount_eq_of_done (cfg : Config S) (hdt : 0 ≤ cfg.dt) (hm : cfg.maxIter = none)
    (P₁ P₂ : NodeId → Proto S σ) (x : NodeId) (hs₁ : Silent x P₁) (hs₂ : Silent x P₂)
    (hP : ∀ n, n ≠ x → P₁ n = P₂ n) (k₁ k₂ : Nat)
    (hl₁ : Live cfg P₁ k₁) (hd₁ : isDone cfg (evSteps cfg P₁ k₁ (start0 cfg P₁)) = true)
    (hl₂ : Live cfg P₂ k₂) (hd₂ : isDone cfg (evSteps cfg P₂ k₂ (start0 cfg P₂)) = true) :
    visCount x (evSteps cfg P₁ k₁ (start0 cfg P₁)) = visCount x (evSteps cfg P₂ k₂ (start0 cfg P₂)) :=
  Nat.le_antisymm
    (visCount_le_of_done cfg hdt hm P₂ P₁ x hs₂ hs₁ (fun n hn => (hP n hn).symm) k₂ k₁ hd₂ hl₁)
    (visCount_le_of_done cfg hdt hm P₁ P₂ x hs₁ hs₂ hP k₁ k₂ hd₁ hl₂)

/-- the worlds just before finalisation look the same to the nodes other than `x` -/
theorem viewEq_before_finalise (cfg : Config S) (hdt : 0 ≤ cfg.dt) (hm : cfg.maxIter = none)
    (P₁ P₂ : NodeId → Proto S σ) (x : NodeId) (hs₁ : Silent x P₁) (hs₂ : Silent x P₂)
    (hP : ∀ n, n ≠ x → P₁ n = P₂ n) (k₁ k₂ : Nat)
    (hl₁ : Live cfg P₁ k₁) (hd₁ : isDone cfg (evSteps cfg P₁ k₁ (start0 cfg P₁)) = true)
    (hl₂ : Live cfg P₂ k₂) (hd₂ : isDone cfg (evSteps cfg P₂ k₂ (start0 cfg P₂)) = true) :
    ViewEq x (evSteps cfg P₁ k₁ (start0 cfg P₁)) (evSteps cfg P₂ k₂ (start0 cfg P₂)) :=
  view_of_visCount cfg hdt P₁ P₂ x hs₁ hs₂ hP (k₁ + k₂) k₁ k₂ (Nat.le_refl _)
    (visCount_eq_of_done cfg hdt hm P₁ P₂ x hs₁ hs₂ hP k₁ k₂ hl₁ hd₁ hl₂ hd₂)

end Sim
