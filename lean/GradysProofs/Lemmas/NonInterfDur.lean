import GradysProofs.Lemmas.NonInterfRun
import GradysProofs.Lemmas.SimLife
import GradysProofs.Lemmas.SimUnbounded
/-
  C13 for COMPLETED runs under a duration bound (no iteration limit).

  1. `step_simulation` against event-level execution up to and including finalisation:
     a completed run is `finalise` of the first event-level world that `isDone` (`completed_run`).
  2. With `maxIter = none`, `isDone` looks at the head's time only (`overdue`).
  3. At completion both runs have executed the same number of events not owned by `x`
     (`visCount_eq_of_done`), hence equal views just before finalisation (`viewEq_before_finalise`).
  4. Finalisation: what `finish` of the others contributes to the projected trace (`FinBlocks`), and
     congruence of finalisation from worlds with equal views but DIFFERENT clocks (`FinEq`).
-/
set_option linter.unusedSectionVars false

namespace Sim
variable {S σ : Type} [Scalar S]

/-! ### `step_simulation` against event-level execution, finalisation included -/

theorem evStep_cons (cfg : Config S) (P : NodeId → Proto S σ) {w : World S σ} {e : Ev (EvKind S)}
    {rest : List (Ev (EvKind S))} (hq : w.loop.queue = e :: rest) :
    evStep cfg P w = execStep cfg P e rest w := by
  unfold evStep; rw [hq]

/-- a call that neither finds the simulation done nor leaves it done is one event-level step -/
theorem step_live (cfg : Config S) (P : NodeId → Proto S σ) (w : World S σ) (hf : w.finalized = false)
    (h0 : isDone cfg (prep cfg P w) = false) (h1 : isDone cfg (evStep cfg P (prep cfg P w)) = false) :
    (step cfg P w).1 = evStep cfg P (prep cfg P w) := by
  rw [step_eq cfg P w hf, if_neg (by rw [h0]; simp)]
  cases hq : (prep cfg P w).loop.queue with
  | nil => rw [isDone_nil hq] at h0; cases h0
  | cons e rest =>
    rw [evStep_cons cfg P hq] at h1 ⊢
    simp only
    rw [if_neg (by rw [h1]; simp)]

/-- a call that finds the simulation done finalises it -/
theorem step_final0 (cfg : Config S) (P : NodeId → Proto S σ) (w : World S σ) (hf : w.finalized = false)
    (h0 : isDone cfg (prep cfg P w) = true) : (step cfg P w).1 = finalise cfg P (prep cfg P w) := by
  rw [step_eq cfg P w hf, if_pos h0]

/-- a call whose event leaves the simulation done executes the event and finalises -/
theorem step_final1 (cfg : Config S) (P : NodeId → Proto S σ) (w : World S σ) (hf : w.finalized = false)
    (h0 : isDone cfg (prep cfg P w) = false) (h1 : isDone cfg (evStep cfg P (prep cfg P w)) = true) :
    (step cfg P w).1 = finalise cfg P (evStep cfg P (prep cfg P w)) := by
  rw [step_eq cfg P w hf, if_neg (by rw [h0]; simp)]
  cases hq : (prep cfg P w).loop.queue with
  | nil => rw [isDone_nil hq] at h0; cases h0
  | cons e rest =>
    rw [evStep_cons cfg P hq] at h1 ⊢
    simp only
    rw [if_pos h1]

/-- none of the first `k` event-level worlds is done: the run is still going after `k` events -/
def Live (cfg : Config S) (P : NodeId → Proto S σ) (k : Nat) : Prop :=
  ∀ j, j < k → isDone cfg (evSteps cfg P j (start0 cfg P)) = false

theorem Live.succ {cfg : Config S} {P : NodeId → Proto S σ} {k : Nat} (h : Live cfg P k)
    (hk : isDone cfg (evSteps cfg P k (start0 cfg P)) = false) : Live cfg P (k + 1) := by
  intro j hj
  by_cases hjk : j = k
  · subst hjk; exact hk
  · exact h j (by omega)

/-- the three shapes of a world reached by `step_simulation` calls on a freshly built simulation:
    not yet initialised; `k` events executed and still going; finalised after exactly `k` events,
    `k` being the first count at which `is_simulation_done` holds -/
def RunShape (cfg : Config S) (P : NodeId → Proto S σ) (w : World S σ) : Prop :=
  w = init cfg P ∨
  (∃ k, Live cfg P k ∧ w = evSteps cfg P k (start0 cfg P)) ∨
  (∃ k, Live cfg P k ∧ isDone cfg (evSteps cfg P k (start0 cfg P)) = true ∧
    w = finalise cfg P (evSteps cfg P k (start0 cfg P)))

theorem runShape_step_aux (cfg : Config S) (P : NodeId → Proto S σ) (k : Nat) (hl : Live cfg P k)
    (w : World S σ) (hf : w.finalized = false) (hp : prep cfg P w = evSteps cfg P k (start0 cfg P)) :
    RunShape cfg P (step cfg P w).1 := by
  cases h0 : isDone cfg (evSteps cfg P k (start0 cfg P)) with
  | true =>
    right; right
    refine ⟨k, hl, h0, ?_⟩
    rw [step_final0 cfg P w hf (by rw [hp]; exact h0), hp]
  | false =>
    have hl' := hl.succ h0
    cases h1 : isDone cfg (evSteps cfg P (k + 1) (start0 cfg P)) with
    | true =>
      right; right
      refine ⟨k + 1, hl', h1, ?_⟩
      rw [step_final1 cfg P w hf (by rw [hp]; exact h0) (by rw [hp]; exact h1), hp]
      rfl
    | false =>
      right; left
      refine ⟨k + 1, hl', ?_⟩
      rw [step_live cfg P w hf (by rw [hp]; exact h0) (by rw [hp]; exact h1), hp]
      rfl

theorem runShape_step (cfg : Config S) (hdt : 0 ≤ cfg.dt) (P : NodeId → Proto S σ) (w : World S σ)
    (h : RunShape cfg P w) : RunShape cfg P (step cfg P w).1 := by
  rcases h with rfl | ⟨k, hl, rfl⟩ | ⟨k, hl, hd, rfl⟩
  · refine runShape_step_aux cfg P 0 (fun j hj => absurd hj (Nat.not_lt_zero j)) _ (init_flags cfg P).2 ?_
    unfold prep; rw [(init_flags cfg P).1]; rfl
  · have hfl := evSteps_flags cfg hdt P k
    refine runShape_step_aux cfg P k hl _ hfl.2 ?_
    unfold prep; rw [hfl.1]; rfl
  · right; right
    refine ⟨k, hl, hd, ?_⟩
    unfold step
    rw [if_pos (finalise_finalized cfg P _)]

theorem runShape_steps (cfg : Config S) (hdt : 0 ≤ cfg.dt) (P : NodeId → Proto S σ) (n : Nat) :
    RunShape cfg P (steps cfg P n (init cfg P)) := by
  suffices ∀ n (w : World S σ), RunShape cfg P w → RunShape cfg P (steps cfg P n w) from
    this n _ (Or.inl rfl)
  intro n
  induction n with
  | zero => intro w hw; exact hw
  | succ n ih => intro w hw; exact ih _ (runShape_step cfg hdt P w hw)

/-- generalisation of `steps_eq_evSteps` to any bounds: as long as `is_simulation_done` has not
    held, `k+1` calls of `step_simulation` are initialisation followed by `k+1` event-level steps -/
theorem steps_eq_evSteps_live (cfg : Config S) (hdt : 0 ≤ cfg.dt) (P : NodeId → Proto S σ) (k : Nat)
    (hl : Live cfg P (k + 2)) :
    steps cfg P (k + 1) (init cfg P) = evSteps cfg P (k + 1) (start0 cfg P) := by
  induction k with
  | zero =>
    show (step cfg P (init cfg P)).1 = evStep cfg P (start0 cfg P)
    have hp : prep cfg P (init cfg P) = start0 cfg P := by
      unfold prep; rw [(init_flags cfg P).1]; rfl
    rw [step_live cfg P (init cfg P) (init_flags cfg P).2 (by rw [hp]; exact hl 0 (by omega))
      (by rw [hp]; exact hl 1 (by omega)), hp]
  | succ k ih =>
    rw [steps_add cfg P (k + 1) 1, ih (fun j hj => hl j (by omega))]
    show (step cfg P (evSteps cfg P (k + 1) (start0 cfg P))).1 = evStep cfg P _
    have hfl := evSteps_flags cfg hdt P (k + 1)
    have hp : prep cfg P (evSteps cfg P (k + 1) (start0 cfg P)) = evSteps cfg P (k + 1) (start0 cfg P) := by
      unfold prep; rw [hfl.1]; rfl
    rw [step_live cfg P _ hfl.2 (by rw [hp]; exact hl (k + 1) (by omega))
      (by rw [hp]; exact hl (k + 2) (by omega)), hp]

/-- a COMPLETED run (`finalized`) is the finalisation of the event-level world after exactly `k`
    events, where `k` is the first count at which `is_simulation_done` holds -/
theorem completed_run (cfg : Config S) (hdt : 0 ≤ cfg.dt) (P : NodeId → Proto S σ) (n : Nat)
    (hfin : (steps cfg P n (init cfg P)).finalized = true) :
    ∃ k, Live cfg P k ∧ isDone cfg (evSteps cfg P k (start0 cfg P)) = true ∧
      steps cfg P n (init cfg P) = finalise cfg P (evSteps cfg P k (start0 cfg P)) := by
  rcases runShape_steps cfg hdt P n with h | ⟨k, _, h⟩ | h
  · rw [h, (init_flags cfg P).2] at hfin; cases hfin
  · rw [h, (evSteps_flags cfg hdt P k).2] at hfin; cases hfin
  · exact h

/-! ### `is_simulation_done` without an iteration limit -/

/-- the time is beyond the duration -/
def overdue (cfg : Config S) (t : Int) : Bool :=
  match cfg.duration with
  | some D => decide (D < t)
  | none => false

theorem overdue_mono (cfg : Config S) {t t' : Int} (h : t ≤ t') (ho : overdue cfg t = true) :
    overdue cfg t' = true := by
  unfold overdue at ho ⊢
  cases hd : cfg.duration with
  | none => rw [hd] at ho; cases ho
  | some D =>
    rw [hd] at ho
    simp only [decide_eq_true_eq] at ho ⊢
    omega

theorem isDone_cons (cfg : Config S) (hm : cfg.maxIter = none) {w : World S σ} {e : Ev (EvKind S)}
    {rest : List (Ev (EvKind S))} (hq : w.loop.queue = e :: rest) : isDone cfg w = overdue cfg e.ts := by
  unfold isDone overdue
  rw [hq, hm]
  cases cfg.duration <;> simp

theorem mem_qview {x : NodeId} {q : List (Ev (EvKind S))} {a : Int × EvKind S} (h : a ∈ qview x q) :
    ∃ e, e ∈ q ∧ e.ts = a.1 := by
  unfold qview at h
  obtain ⟨e, he, rfl⟩ := List.mem_map.mp h
  exact ⟨e, (List.mem_filter.mp he).1, rfl⟩

/-- when the run is done, everything still queued is due after the duration -/
theorem done_queue_overdue (cfg : Config S) (hm : cfg.maxIter = none) {w : World S σ}
    (hs : SortedTs w.loop.queue) (hd : isDone cfg w = true) :
    ∀ e ∈ w.loop.queue, overdue cfg e.ts = true := by
  intro e he
  cases hq : w.loop.queue with
  | nil => rw [hq] at he; cases he
  | cons h rest =>
    rw [isDone_cons cfg hm hq] at hd
    rw [hq] at he hs
    rcases List.mem_cons.mp he with rfl | he
    · exact hd
    · exact overdue_mono cfg ((List.pairwise_cons.mp hs).1 e he) hd

/-- while the run is going, the next event is due within the duration -/
theorem live_head_due (cfg : Config S) (hm : cfg.maxIter = none) {w : World S σ} {e : Ev (EvKind S)}
    {rest : List (Ev (EvKind S))} (hq : w.loop.queue = e :: rest) (hd : isDone cfg w = false) :
    overdue cfg e.ts = false := by
  rw [isDone_cons cfg hm hq] at hd; exact hd

/-! ### equal visible counts at completion -/

/-- every visible count below the current one was left by executing a visible event -/
theorem visCount_passed (cfg : Config S) (hdt : 0 ≤ cfg.dt) (P : NodeId → Proto S σ) (x : NodeId)
    (hs : Silent x P) (k c : Nat) (hc : c < visCount x (evSteps cfg P k (start0 cfg P))) :
    ∃ k', k' < k ∧ visCount x (evSteps cfg P k' (start0 cfg P)) = c ∧
      ∃ e rest, (evSteps cfg P k' (start0 cfg P)).loop.queue = e :: rest ∧ xowned x e.kind = false := by
  induction k with
  | zero =>
    have h0 : visCount x (evSteps cfg P 0 (start0 cfg P)) = 0 := start0_visCount cfg hdt P x
    omega
  | succ k ih =>
    by_cases hlt : c < visCount x (evSteps cfg P k (start0 cfg P))
    · obtain ⟨k', hk', h⟩ := ih hlt
      exact ⟨k', by omega, h⟩
    · have hI := evSteps_inv cfg hdt P k (start0_inv cfg hdt P)
      rcases evStep_cases cfg hdt P x hs _ hI with ⟨_, hcnt⟩ | ⟨e, rest, hq, he, _, hcnt⟩
      · have : visCount x (evSteps cfg P (k + 1) (start0 cfg P)) =
            visCount x (evSteps cfg P k (start0 cfg P)) := hcnt
        omega
      · have : visCount x (evSteps cfg P (k + 1) (start0 cfg P)) =
            visCount x (evSteps cfg P k (start0 cfg P)) + 1 := hcnt
        exact ⟨k, by omega, by omega, e, rest, hq, he⟩

/-- KEY LEMMA: a run that is still going after fewer than `k₂` events cannot have executed more
    visible events than a run that is done: the next visible event of the shorter count is queued in
    the done run too (equal views), where it is overdue, so the going run would not execute it -/
theorem visCount_le_of_done (cfg : Config S) (hdt : 0 ≤ cfg.dt) (hm : cfg.maxIter = none)
    (P₁ P₂ : NodeId → Proto S σ) (x : NodeId) (hs₁ : Silent x P₁) (hs₂ : Silent x P₂)
    (hP : ∀ n, n ≠ x → P₁ n = P₂ n) (k₁ k₂ : Nat)
    (hd₁ : isDone cfg (evSteps cfg P₁ k₁ (start0 cfg P₁)) = true) (hl₂ : Live cfg P₂ k₂) :
    visCount x (evSteps cfg P₂ k₂ (start0 cfg P₂)) ≤ visCount x (evSteps cfg P₁ k₁ (start0 cfg P₁)) := by
  apply Nat.le_of_not_lt
  intro hlt
  obtain ⟨k', hk', hc, e, rest, hq, he⟩ := visCount_passed cfg hdt P₂ x hs₂ k₂ _ hlt
  have hv := view_of_visCount cfg hdt P₁ P₂ x hs₁ hs₂ hP (k₁ + k') k₁ k' (Nat.le_refl _) hc.symm
  have hqv := hv.queue
  rw [hq, qview_cons_other x e rest he] at hqv
  have hmem : (e.ts, e.kind) ∈ qview x (evSteps cfg P₁ k₁ (start0 cfg P₁)).loop.queue := by
    rw [hqv]; exact List.mem_cons_self
  obtain ⟨e', he', hts⟩ := mem_qview hmem
  have hI₁ := evSteps_inv cfg hdt P₁ k₁ (start0_inv cfg hdt P₁)
  have h1 := done_queue_overdue cfg hm (sortedTs_of_keyLt hI₁.sorted) hd₁ e' he'
  have h2 := live_head_due cfg hm hq (hl₂ k' hk')
  rw [hts] at h1
  rw [h1] at h2
  cases h2

/-- at completion both runs have executed the same number of events not owned by `x` -/
theorem visCount_eq_of_done (cfg : Config S) (hdt : 0 ≤ cfg.dt) (hm : cfg.maxIter = none)
    (P₁ P₂ : NodeId → Proto S σ) (x : NodeId) (hs₁ : Silent x P₁) (hs₂ : Silent x P₂)
    (hP : ∀ n, n ≠ x → P₁ n = P₂ n) (k₁ k₂ : Nat)
    (hl₁ : Live cfg P₁ k₁) (hd₁ : isDone cfg (evSteps cfg P₁ k₁ (start0 cfg P₁)) = true)
    (hl₂ : Live cfg P₂ k₂) (hd₂ : isDone cfg (evSteps cfg P₂ k₂ (start0 cfg P₂)) = true) :
    visCount x (evSteps cfg P₁ k₁ (start0 cfg P₁)) = visCount x (evSteps cfg P₂ k₂ (start0 cfg P₂)) :=
  Nat.le_antisymm
    (visCount_le_of_done cfg hdt hm P₂ P₁ x hs₂ hs₁ (fun n hn => (hP n hn).symm) k₂ k₁ hd₂ hl₁)
    (visCount_le_of_done cfg hdt hm P₁ P₂ x hs₁ hs₂ hP k₁ k₂ hd₁ hl₂)

/-- the worlds just before finalisation look the same to the nodes other than `x` -/
theorem viewEq_before_finalise (cfg : Config S) (hdt : 0 ≤ cfg.dt) (hm : cfg.maxIter = none)
    (P₁ P₂ : NodeId → Proto S σ) (x : NodeId) (hs₁ : Silent x P₁) (hs₂ : Silent x P₂)
    (hP : ∀ n, n ≠ x → P₁ n = P₂ n) (k₁ k₂ : Nat)
    (hl₁ : Live cfg P₁ k₁) (hd₁ : isDone cfg (evSteps cfg P₁ k₁ (start0 cfg P₁)) = true)
    (hl₂ : Live cfg P₂ k₂) (hd₂ : isDone cfg (evSteps cfg P₂ k₂ (start0 cfg P₂)) = true) :
    ViewEq x (evSteps cfg P₁ k₁ (start0 cfg P₁)) (evSteps cfg P₂ k₂ (start0 cfg P₂)) :=
  view_of_visCount cfg hdt P₁ P₂ x hs₁ hs₂ hP (k₁ + k₂) k₁ k₂ (Nat.le_refl _)
    (visCount_eq_of_done cfg hdt hm P₁ P₂ x hs₁ hs₂ hP k₁ k₂ hl₁ hd₁ hl₂ hd₂)

/-! ### no `finish` callback is observed before finalisation -/

/-- the observation is a `finish` callback -/
def _root_.Obs.isFinish : Obs S → Bool
  | .callback _ .finish _ => true
  | _ => false

theorem evSteps_linv (cfg : Config S) (hdt : 0 ≤ cfg.dt) (P : NodeId → Proto S σ) (k : Nat) :
    LInv cfg (evSteps cfg P k (start0 cfg P)) := by
  induction k with
  | zero => exact (initialise_shape cfg P (init cfg P) (init_linv cfg P) (init_flags cfg P).1).1
  | succ k ih =>
    show LInv cfg (evStep cfg P _)
    unfold evStep
    split
    · exact ih
    · rename_i e rest _
      have hfl := evSteps_flags cfg hdt P k
      exact (execStep_shape cfg hdt P e rest _ ih hfl.1 hfl.2).1

theorem mem_afterBlocksR (cfg : Config S) (es : List (Ev (EvKind S))) {o : Obs S}
    (h : o ∈ afterBlocksR cfg es) : ∃ hn i t, o = Obs.afterStep hn i t := by
  induction es with
  | nil => cases h
  | cons e rest ih =>
    unfold afterBlocksR at h
    rcases List.mem_append.mp h with h | h
    · obtain ⟨hn, _, rfl⟩ := List.mem_map.mp (List.mem_reverse.mp h)
      exact ⟨hn, _, _, rfl⟩
    · exact ih h

theorem isLife_of_isFinish {o : Obs S} (h : o.isFinish = true) : isLife o = true := by
  cases o with
  | callback n cb t => cases cb <;> first | rfl | cases h
  | _ => cases h

/-- before finalisation the trace contains no `finish` callback -/
theorem evSteps_noFinish (cfg : Config S) (hdt : 0 ≤ cfg.dt) (P : NodeId → Proto S σ) (k : Nat) :
    ∀ o ∈ (evSteps cfg P k (start0 cfg P)).rtrace, o.isFinish = false := by
  intro o ho
  cases hfo : o.isFinish with
  | false => rfl
  | true =>
    exfalso
    have hl := evSteps_linv cfg hdt P k
    have hfl := evSteps_flags cfg hdt P k
    have hmem : o ∈ (evSteps cfg P k (start0 cfg P)).rtrace.filter isLife :=
      List.mem_filter.mpr ⟨ho, isLife_of_isFinish hfo⟩
    rw [hl.shape hfl.1, hfl.2] at hmem
    simp only [Bool.false_eq_true, if_false, List.nil_append] at hmem
    rcases List.mem_append.mp hmem with hm | hm
    · obtain ⟨hn, i, t, rfl⟩ := mem_afterBlocksR cfg _ hm
      cases hfo
    · unfold initBlock at hm
      rcases List.mem_append.mp (List.mem_reverse.mp hm) with hm | hm
      · obtain ⟨hn, _, rfl⟩ := List.mem_map.mp hm
        cases hfo
      · obtain ⟨n, _, rfl⟩ := List.mem_map.mp hm
        cases hfo

theorem ptrace_noFinish {x : NodeId} {w : World S σ} (h : ∀ o ∈ w.rtrace, o.isFinish = false) :
    ∀ o ∈ ptrace x w, o.isFinish = false := by
  intro o ho
  unfold ptrace at ho
  exact h o (List.mem_filter.mp (List.mem_reverse.mp ho)).1

/-! ### what finalisation adds to the projected trace (no hypothesis on the programs) -/

/-- What the `finish` callbacks of the nodes `ns`, run in this order, add to the trace projected on
    the nodes other than `x` (oldest first): for each `n ≠ x` its `finish` callback with SOME reported
    time, followed by requests of `n` only; nothing for `x`. -/
inductive FinBlocks (x : NodeId) : List NodeId → List (Obs S) → Prop
  | nil : FinBlocks x [] []
  | skip {ns : List NodeId} {F : List (Obs S)} : FinBlocks x ns F → FinBlocks x (x :: ns) F
  | cons {n : NodeId} {ns : List NodeId} {t : Int} {l F : List (Obs S)} : n ≠ x →
      (∀ o ∈ l, Obs.isRequestOf n o) → FinBlocks x ns F →
      FinBlocks x (n :: ns) (Obs.callback n .finish t :: (l ++ F))

theorem vis_request_of {x n : NodeId} (hn : n ≠ x) {o : Obs S} (h : Obs.isRequestOf n o) :
    Obs.vis x o = true := by
  cases o with
  | request m r ok =>
    have : m = n := h
    subst this
    simpa [Obs.vis] using hn
  | _ => cases h

theorem not_vis_request_of {x : NodeId} {o : Obs S} (h : Obs.isRequestOf x o) :
    Obs.vis x o = false := by
  cases o with
  | request m r ok =>
    have : m = x := h
    subst this
    simp [Obs.vis]
  | _ => cases h

/-- a callback of `x` adds nothing to the projected trace (whatever `x`'s program does) -/
theorem ptrace_callback_self (cfg : Config S) (P : NodeId → Proto S σ) (x : NodeId) (cb : Callback S)
    (w : World S σ) : ptrace x (callback cfg P x cb w) = ptrace x w := by
  obtain ⟨l, hl, hq⟩ := callback_rtrace cfg P x cb w
  unfold ptrace
  rw [hl, List.filter_append, List.filter_cons]
  have h1 : l.filter (Obs.vis x) = [] := by
    rw [List.filter_eq_nil_iff]
    intro o ho
    simp [not_vis_request_of (hq o ho)]
  rw [h1]
  simp [Obs.vis]

/-- a callback of `n ≠ x` adds the callback observation and then requests of `n` -/
theorem ptrace_callback_other (cfg : Config S) (P : NodeId → Proto S σ) {x n : NodeId} (hn : n ≠ x)
    (cb : Callback S) (w : World S σ) :
    ∃ l, ptrace x (callback cfg P n cb w) =
        ptrace x w ++ Obs.callback n cb (reportedTime cfg w) :: l ∧
      ∀ o ∈ l, Obs.isRequestOf n o := by
  obtain ⟨l, hl, hq⟩ := callback_rtrace cfg P n cb w
  refine ⟨l.reverse, ?_, fun o ho => hq o (List.mem_reverse.mp ho)⟩
  unfold ptrace
  rw [hl, List.filter_append, List.filter_cons]
  have h1 : l.filter (Obs.vis x) = l := by
    rw [List.filter_eq_self]
    intro o ho
    exact vis_request_of hn (hq o ho)
  have h2 : Obs.vis x (Obs.callback n cb (reportedTime cfg w) : Obs S) = true := by
    simpa [Obs.vis] using hn
  rw [h1, h2]
  simp

theorem ptrace_callbackAll_finish (cfg : Config S) (P : NodeId → Proto S σ) (x : NodeId)
    (ns : List NodeId) (w : World S σ) :
    ∃ F, ptrace x (callbackAll cfg P .finish ns w) = ptrace x w ++ F ∧ FinBlocks x ns F := by
  unfold callbackAll
  induction ns generalizing w with
  | nil => exact ⟨[], by simp, FinBlocks.nil⟩
  | cons n ns ih =>
    simp only [List.foldl_cons]
    obtain ⟨F, hF, hB⟩ := ih (callback cfg P n .finish w)
    by_cases hn : n = x
    · subst hn
      exact ⟨F, by rw [hF, ptrace_callback_self], FinBlocks.skip hB⟩
    · obtain ⟨l, hl, hq⟩ := ptrace_callback_other cfg P hn .finish w
      refine ⟨_, ?_, FinBlocks.cons (t := reportedTime cfg w) hn hq hB⟩
      rw [hF, hl]
      simp

theorem finalise_eq (cfg : Config S) (P : NodeId → Proto S σ) (w : World S σ) (hf : w.finalized = false) :
    finalise cfg P w = { (logAll Obs.handlerFinal cfg.handlers
      (callbackAll cfg P .finish (List.range cfg.nNodes) w)) with finalized := true } := by
  unfold finalise
  rw [if_neg (by simp [hf])]

theorem ptrace_logAll_final (x : NodeId) (hs : List String) (w : World S σ) :
    ptrace x (logAll Obs.handlerFinal hs w) = ptrace x w :=
  ((hid_logAll x Obs.handlerFinal (fun _ => rfl) hs w).view.ptrace_eq).symm

/-- finalisation adds exactly the `finish` blocks of the nodes other than `x`, in node order -/
theorem ptrace_finalise (cfg : Config S) (P : NodeId → Proto S σ) (x : NodeId) (w : World S σ)
    (hf : w.finalized = false) :
    ∃ F, ptrace x (finalise cfg P w) = ptrace x w ++ F ∧ FinBlocks x (List.range cfg.nNodes) F := by
  obtain ⟨F, hF, hB⟩ := ptrace_callbackAll_finish cfg P x (List.range cfg.nNodes) w
  refine ⟨F, ?_, hB⟩
  rw [finalise_eq cfg P w hf]
  show ptrace x (logAll Obs.handlerFinal cfg.handlers
    (callbackAll cfg P .finish (List.range cfg.nNodes) w)) = _
  rw [ptrace_logAll_final, hF]

theorem logAll_pos (f : String → Obs S) (hs : List String) (w : World S σ) :
    (logAll f hs w).pos = w.pos := by
  unfold logAll
  apply foldl_frame (·.pos)
  intro _ _
  rfl

theorem callbackAll_pos (cfg : Config S) (P : NodeId → Proto S σ) (cb : Callback S) (ns : List NodeId)
    (w : World S σ) : (callbackAll cfg P cb ns w).pos = w.pos := by
  unfold callbackAll
  apply foldl_frame (·.pos)
  intro w n
  exact callback_pos cfg P n cb w

/-- finalisation moves nobody -/
theorem finalise_pos (cfg : Config S) (P : NodeId → Proto S σ) (w : World S σ) :
    (finalise cfg P w).pos = w.pos := by
  unfold finalise
  split
  · rfl
  · show (logAll _ _ _).pos = _
    rw [logAll_pos, callbackAll_pos]

/-! ### the two projections of the statement -/

/-- the part of a trace before the first `finish` callback -/
def beforeFinish (tr : List (Obs S)) : List (Obs S) := tr.takeWhile (fun o => !o.isFinish)

/-- the nodes whose `finish` callback occurs in the trace, in order of occurrence -/
def finishNodes (tr : List (Obs S)) : List NodeId :=
  tr.filterMap (fun o => match o with
    | .callback n .finish _ => some n
    | _ => none)

theorem finishNodes_nil_of_noFinish {tr : List (Obs S)} (h : ∀ o ∈ tr, o.isFinish = false) :
    finishNodes tr = [] := by
  unfold finishNodes
  rw [List.filterMap_eq_nil_iff]
  intro o ho
  have := h o ho
  cases o with
  | callback n cb t => cases cb <;> first | rfl | cases this
  | _ => rfl

theorem isFinish_request_of {n : NodeId} {o : Obs S} (h : Obs.isRequestOf n o) : o.isFinish = false := by
  cases o with
  | request m r ok => rfl
  | _ => cases h

theorem FinBlocks.finishNodes {x : NodeId} {ns : List NodeId} {F : List (Obs S)} (h : FinBlocks x ns F) :
    finishNodes F = ns.filter (fun n => n != x) := by
  induction h with
  | nil => rfl
  | skip _ ih => rw [List.filter_cons, ih]; simp
  | @cons n ns t l F hn hq _ ih =>
    have hl : Sim.finishNodes l = [] :=
      finishNodes_nil_of_noFinish (fun o ho => isFinish_request_of (hq o ho))
    have hnx : (n != x) = true := by simpa using hn
    rw [List.filter_cons, hnx]
    simp only [if_true]
    rw [← ih]
    show List.filterMap _ (_ :: (l ++ F)) = _
    rw [List.filterMap_cons]
    simp only
    rw [List.filterMap_append]
    have hl' : List.filterMap (fun o => match o with
      | Obs.callback n Callback.finish _ => some n
      | _ => none) l = [] := hl
    rw [hl']
    rfl

theorem FinBlocks.head {x : NodeId} {ns : List NodeId} {F : List (Obs S)} (h : FinBlocks x ns F) :
    F = [] ∨ ∃ o F', F = o :: F' ∧ o.isFinish = true := by
  induction h with
  | nil => exact Or.inl rfl
  | skip _ ih => exact ih
  | cons _ _ _ _ => exact Or.inr ⟨_, _, rfl, rfl⟩

theorem beforeFinish_append {x : NodeId} {ns : List NodeId} {A F : List (Obs S)}
    (hA : ∀ o ∈ A, o.isFinish = false) (h : FinBlocks x ns F) : beforeFinish (A ++ F) = A := by
  unfold beforeFinish
  rw [List.takeWhile_append_of_pos (by intro o ho; simp [hA o ho])]
  rcases h.head with rfl | ⟨o, F', rfl, ho⟩
  · simp
  · rw [List.takeWhile_cons]
    simp [ho]

theorem finishNodes_append {x : NodeId} {ns : List NodeId} {A F : List (Obs S)}
    (hA : ∀ o ∈ A, o.isFinish = false) (h : FinBlocks x ns F) :
    finishNodes (A ++ F) = ns.filter (fun n => n != x) := by
  rw [← h.finishNodes]
  unfold finishNodes
  rw [List.filterMap_append]
  have := finishNodes_nil_of_noFinish hA
  unfold finishNodes at this
  rw [this]
  rfl

/-! ### finalisation from equal views but DIFFERENT clocks

  At completion the two runs have equal views but, in general, different clocks (`now` is the time of
  the last executed event of ANY node: finding F13).  `finish` of a node `n ≠ x` can observe the clock
  in two ways: through the time argument of the callback (`current_time()`), and through the outcome
  of `schedule_timer` (refused iff the time is in the past).  `FinishClockFree` excludes both; under
  it finalisation is congruent up to the reported time of the `finish` callbacks (`FinEq`). -/

/-- the reported time of a `finish` callback erased -/
def _root_.Obs.eraseFinishTime : Obs S → Obs S
  | .callback n .finish _ => .callback n .finish 0
  | o => o

/-- the request is `schedule_timer` -/
def _root_.Request.isSetTimer : Request S → Bool
  | .setTimer _ _ => true
  | _ => false

/-- no `schedule_timer` on any branch of the interaction tree -/
def _root_.Prog.noSetTimer : Prog S σ → Prop
  | .done _ => True
  | .req r k => r.isSetTimer = false ∧ ∀ b, (k b).noSetTimer

/-- node `n`'s reaction to `finish` does not depend on the time it is given and does not probe the
    clock through `schedule_timer` -/
def FinishClockFree (P : NodeId → Proto S σ) (n : NodeId) : Prop :=
  ∀ (s : σ) (t t' : Int),
    (P n).react s n t .finish = (P n).react s n t' .finish ∧ ((P n).react s n t .finish).noSetTimer

/-- the view of the nodes other than `x` without the queue (delivery times of messages sent inside
    `finish` follow the clock) and with the `finish` times erased from the trace -/
structure FinEq (x : NodeId) (w₁ w₂ : World S σ) : Prop where
  pending : w₁.pending.filter (fun p => p.1 != x) = w₂.pending.filter (fun p => p.1 != x)
  nextTimer : ∀ n, n ≠ x → w₁.nextTimer n = w₂.nextTimer n
  range : ∀ n, n ≠ x → w₁.range n = w₂.range n
  pos : ∀ n, n ≠ x → w₁.pos n = w₂.pos n
  target : ∀ n, n ≠ x → w₁.target n = w₂.target n
  speed : ∀ n, n ≠ x → w₁.speed n = w₂.speed n
  pstate : ∀ n, n ≠ x → w₁.pstate n = w₂.pstate n
  drawIdx : w₁.drawIdx = w₂.drawIdx
  etrace : (w₁.rtrace.filter (Obs.vis x)).map Obs.eraseFinishTime =
    (w₂.rtrace.filter (Obs.vis x)).map Obs.eraseFinishTime

theorem ViewEq.finEq {x : NodeId} {a b : World S σ} (h : ViewEq x a b) : FinEq x a b :=
  ⟨h.pending, h.nextTimer, h.range, h.pos, h.target, h.speed, h.pstate, h.drawIdx, by rw [h.trace]⟩

theorem FinEq.trans {x : NodeId} {a b c : World S σ} (h1 : FinEq x a b) (h2 : FinEq x b c) :
    FinEq x a c :=
  ⟨h1.pending.trans h2.pending,
   fun n hn => (h1.nextTimer n hn).trans (h2.nextTimer n hn),
   fun n hn => (h1.range n hn).trans (h2.range n hn),
   fun n hn => (h1.pos n hn).trans (h2.pos n hn),
   fun n hn => (h1.target n hn).trans (h2.target n hn),
   fun n hn => (h1.speed n hn).trans (h2.speed n hn),
   fun n hn => (h1.pstate n hn).trans (h2.pstate n hn),
   h1.drawIdx.trans h2.drawIdx, h1.etrace.trans h2.etrace⟩

/-- invisible actions on either side -/
theorem FinEq.view {x : NodeId} {a b a' b' : World S σ} (h : FinEq x a b) (ha : ViewEq x a a')
    (hb : ViewEq x b b') : FinEq x a' b' :=
  (ha.symm.finEq.trans h).trans hb.finEq

theorem FinEq.ptrace_eq {x : NodeId} {a b : World S σ} (h : FinEq x a b) :
    (ptrace x a).map Obs.eraseFinishTime = (ptrace x b).map Obs.eraseFinishTime := by
  unfold ptrace
  rw [List.map_reverse, List.map_reverse, h.etrace]

theorem consumeDraw_drawIdx (cfg : Config S) (w : World S σ) :
    (consumeDraw cfg w).2.drawIdx =
      if Scalar.gt cfg.failRate (Scalar.ofInt 0) then w.drawIdx + 1 else w.drawIdx := by
  unfold consumeDraw; split <;> rfl

theorem transmit_drawIdx (cfg : Config S) (src dst : NodeId) (msg : String) (w : World S σ) :
    (transmit cfg src dst msg w).drawIdx =
      if Scalar.gt cfg.failRate (Scalar.ofInt 0) then w.drawIdx + 1 else w.drawIdx := by
  unfold transmit
  simp only
  split
  · rw [sched_drawIdx, consumeDraw_drawIdx]
  · exact consumeDraw_drawIdx cfg w

/-- a transmission touches the queue and the draw index only, and the draw index does not depend on
    the clock, the positions or the sender -/
theorem finEq_transmit (cfg : Config S) {x : NodeId} (src dst : NodeId) (msg : String)
    {w₁ w₂ : World S σ} (h : FinEq x w₁ w₂) :
    FinEq x (transmit cfg src dst msg w₁) (transmit cfg src dst msg w₂) := by
  have f₁ := transmit_frame cfg src dst msg w₁
  have f₂ := transmit_frame cfg src dst msg w₂
  refine ⟨?_, ?_, ?_, ?_, ?_, ?_, ?_, ?_, ?_⟩
  · rw [f₁.2.2.1, f₂.2.2.1]; exact h.pending
  · rw [f₁.2.2.2.1, f₂.2.2.2.1]; exact h.nextTimer
  · rw [f₁.2.1, f₂.2.1]; exact h.range
  · rw [f₁.1, f₂.1]; exact h.pos
  · rw [f₁.2.2.2.2.1, f₂.2.2.2.2.1]; exact h.target
  · rw [f₁.2.2.2.2.2.1, f₂.2.2.2.2.2.1]; exact h.speed
  · rw [transmit_pstate, transmit_pstate]; exact h.pstate
  · rw [transmit_drawIdx, transmit_drawIdx, h.drawIdx]
  · rw [transmit_rtrace, transmit_rtrace]; exact h.etrace

theorem finEq_broadcastTo (cfg : Config S) {x : NodeId} (src : NodeId) (msg : String)
    (dsts : List NodeId) {w₁ w₂ : World S σ} (h : FinEq x w₁ w₂) :
    FinEq x (broadcastTo cfg src msg dsts w₁) (broadcastTo cfg src msg dsts w₂) := by
  unfold broadcastTo
  induction dsts generalizing w₁ w₂ with
  | nil => exact h
  | cons d ds ih =>
    simp only [List.foldl_cons]
    apply ih
    split
    · exact h
    · exact finEq_transmit cfg src d msg h

/-- logging observations that agree up to the `finish` time -/
theorem finEq_log {x : NodeId} {w₁ w₂ : World S σ} (o₁ o₂ : Obs S)
    (hv : Obs.vis x o₁ = Obs.vis x o₂) (he : o₁.eraseFinishTime = o₂.eraseFinishTime)
    (h : FinEq x w₁ w₂) : FinEq x (log o₁ w₁) (log o₂ w₂) :=
  ⟨h.pending, h.nextTimer, h.range, h.pos, h.target, h.speed, h.pstate, h.drawIdx, by
    show ((o₁ :: w₁.rtrace).filter _).map _ = ((o₂ :: w₂.rtrace).filter _).map _
    rw [List.filter_cons, List.filter_cons, hv]
    split
    · rw [List.map_cons, List.map_cons, he, h.etrace]
    · exact h.etrace⟩

theorem upd_congr_off {α : Type} {x : NodeId} {f g : NodeId → α} (h : ∀ m, m ≠ x → f m = g m)
    (n : NodeId) (a : α) : ∀ m, m ≠ x → upd f n a m = upd g n a m := by
  intro m hm
  unfold upd
  split
  · rfl
  · exact h m hm

/-- a request other than `schedule_timer`: the outcome does not depend on the world at all, the
    effect is congruent even at different clocks -/
theorem finEq_execReq (cfg : Config S) {x : NodeId} (n : NodeId) (r : Request S)
    (hr : r.isSetTimer = false) {w₁ w₂ : World S σ} (h : FinEq x w₁ w₂) :
    (execReq cfg n r w₁).2 = (execReq cfg n r w₂).2 ∧
      FinEq x (execReq cfg n r w₁).1 (execReq cfg n r w₂).1 := by
  cases r with
  | setTimer name at_ => simp [Request.isSetTimer] at hr
  | cancelTimer name =>
    simp only [execReq]
    split
    · exact ⟨rfl, h⟩
    · refine ⟨rfl, ⟨?_, h.nextTimer, h.range, h.pos, h.target, h.speed, h.pstate, h.drawIdx, h.etrace⟩⟩
      show (w₁.pending.filter _).filter _ = (w₂.pending.filter _).filter _
      rw [filter_comm', h.pending, filter_comm']
  | send msg dst =>
    simp only [execReq]
    split
    · exact ⟨rfl, h⟩
    · cases dst with
      | none => exact ⟨rfl, h⟩
      | some d =>
        simp only
        split
        · exact ⟨rfl, h⟩
        · split
          · exact ⟨rfl, h⟩
          · exact ⟨rfl, finEq_transmit cfg n _ msg h⟩
  | broadcast msg =>
    simp only [execReq]
    split
    · exact ⟨rfl, h⟩
    · exact ⟨rfl, finEq_broadcastTo cfg n msg _ h⟩
  | goto p =>
    simp only [execReq]
    split
    · exact ⟨rfl, h⟩
    · exact ⟨rfl, ⟨h.pending, h.nextTimer, h.range, h.pos, upd_congr_off h.target n _, h.speed,
        h.pstate, h.drawIdx, h.etrace⟩⟩
  | gotoGeo p =>
    simp only [execReq]
    split
    · exact ⟨rfl, h⟩
    · exact ⟨rfl, ⟨h.pending, h.nextTimer, h.range, h.pos, upd_congr_off h.target n _, h.speed,
        h.pstate, h.drawIdx, h.etrace⟩⟩
  | setSpeed v =>
    simp only [execReq]
    split
    · exact ⟨rfl, h⟩
    · exact ⟨rfl, ⟨h.pending, h.nextTimer, h.range, h.pos, h.target, upd_congr_off h.speed n _,
        h.pstate, h.drawIdx, h.etrace⟩⟩
  | setRange r =>
    simp only [execReq]
    split
    · exact ⟨rfl, h⟩
    · split
      · exact ⟨rfl, h⟩
      · exact ⟨rfl, ⟨h.pending, h.nextTimer, upd_congr_off h.range n _, h.pos, h.target, h.speed,
          h.pstate, h.drawIdx, h.etrace⟩⟩

theorem eraseFinishTime_request (n : NodeId) (r : Request S) (ok : Bool) :
    (Obs.request n r ok : Obs S).eraseFinishTime = Obs.request n r ok := rfl

/-- the same program without `schedule_timer`: same requests with the same outcomes, same final
    local state -/
theorem finEq_runProg (cfg : Config S) {x : NodeId} (n : NodeId) (p : Prog S σ) (hp : p.noSetTimer)
    {w₁ w₂ : World S σ} (h : FinEq x w₁ w₂) :
    (runProg cfg n p w₁).2 = (runProg cfg n p w₂).2 ∧
      FinEq x (runProg cfg n p w₁).1 (runProg cfg n p w₂).1 := by
  induction p generalizing w₁ w₂ with
  | done s => exact ⟨rfl, h⟩
  | req r k ih =>
    simp only [runProg]
    obtain ⟨hr, hk⟩ := hp
    obtain ⟨hb, hc⟩ := finEq_execReq cfg n r hr h
    rw [hb]
    exact ih _ (hk _) (finEq_log _ _ rfl rfl hc)

/-- `finish` of a node `n ≠ x` whose reaction is clock free, from the same local state at
    different clocks: congruent up to the reported time -/
theorem finEq_callback_finish (cfg : Config S) (P₁ P₂ : NodeId → Proto S σ) {x n : NodeId}
    (hn : n ≠ x) (hP : P₁ n = P₂ n) (hc : FinishClockFree P₂ n) {w₁ w₂ : World S σ}
    (h : FinEq x w₁ w₂) :
    FinEq x (callback cfg P₁ n .finish w₁) (callback cfg P₂ n .finish w₂) := by
  rw [callback_eq, callback_eq, hP, h.pstate n hn,
    (hc (w₂.pstate n) (reportedTime cfg w₁) (reportedTime cfg w₂)).1]
  obtain ⟨hs, hf⟩ := finEq_runProg cfg n
    ((P₂ n).react (w₂.pstate n) n (reportedTime cfg w₂) .finish)
    (hc (w₂.pstate n) (reportedTime cfg w₂) (reportedTime cfg w₂)).2
    (finEq_log (Obs.callback n .finish (reportedTime cfg w₁))
      (Obs.callback n .finish (reportedTime cfg w₂)) rfl rfl h)
  refine ⟨hf.pending, hf.nextTimer, hf.range, hf.pos, hf.target, hf.speed, ?_, hf.drawIdx, hf.etrace⟩
  intro m hm
  show upd _ n _ m = upd _ n _ m
  unfold upd
  split
  · exact hs
  · exact hf.pstate m hm

theorem finEq_callbackAll_finish (cfg : Config S) (P₁ P₂ : NodeId → Proto S σ) {x : NodeId}
    (hs₁ : Silent x P₁) (hs₂ : Silent x P₂) (hP : ∀ n, n ≠ x → P₁ n = P₂ n)
    (hc : ∀ n, n ≠ x → FinishClockFree P₂ n) (ns : List NodeId) {w₁ w₂ : World S σ}
    (h : FinEq x w₁ w₂) :
    FinEq x (callbackAll cfg P₁ .finish ns w₁) (callbackAll cfg P₂ .finish ns w₂) := by
  unfold callbackAll
  induction ns generalizing w₁ w₂ with
  | nil => exact h
  | cons n ns ih =>
    simp only [List.foldl_cons]
    apply ih
    by_cases hn : n = x
    · subst hn
      exact h.view (hid_callback cfg P₁ n hs₁ .finish w₁).view (hid_callback cfg P₂ n hs₂ .finish w₂).view
    · exact finEq_callback_finish cfg P₁ P₂ hn (hP n hn) (hc n hn) h

/-- finalisation of two worlds with equal views (and whatever clocks) -/
theorem finEq_finalise (cfg : Config S) (P₁ P₂ : NodeId → Proto S σ) {x : NodeId}
    (hs₁ : Silent x P₁) (hs₂ : Silent x P₂) (hP : ∀ n, n ≠ x → P₁ n = P₂ n)
    (hc : ∀ n, n ≠ x → FinishClockFree P₂ n) {w₁ w₂ : World S σ}
    (hf₁ : w₁.finalized = false) (hf₂ : w₂.finalized = false) (h : ViewEq x w₁ w₂) :
    FinEq x (finalise cfg P₁ w₁) (finalise cfg P₂ w₂) := by
  rw [finalise_eq cfg P₁ w₁ hf₁, finalise_eq cfg P₂ w₂ hf₂]
  have h1 := finEq_callbackAll_finish cfg P₁ P₂ hs₁ hs₂ hP hc (List.range cfg.nNodes) h.finEq
  have h2 := h1.view (hid_logAll x Obs.handlerFinal (fun _ => rfl) cfg.handlers _).view
    (hid_logAll x Obs.handlerFinal (fun _ => rfl) cfg.handlers _).view
  exact ⟨h2.pending, h2.nextTimer, h2.range, h2.pos, h2.target, h2.speed, h2.pstate, h2.drawIdx,
    h2.etrace⟩

end Sim
