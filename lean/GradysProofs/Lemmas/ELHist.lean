import GradysProofs.Lemmas.Queue
/-
  Histories of the public `EventLoop` API (schedule / pop / peek / clear / len / now) with ghost
  bookkeeping of what was accepted, popped and dropped; the history invariant.
-/

/-- the loop together with ghost history (all newest first) -/
structure ELG (K : Type) where
  l : EL K
  popped : List (Ev K)
  accepted : List (Ev K)
  dropped : List (Ev K)

namespace ELG
variable {K : Type}

def init : ELG K := ⟨EL.empty, [], [], []⟩

/-- one API call with ghost updates; the loop component is exactly `EL.apply` -/
def apply (g : ELG K) (op : ELOp K) : ELG K :=
  match op with
  | .schedule ts k =>
    if ts < g.l.now then g
    else { g with l := (g.l.apply (.schedule ts k)).1, accepted := ⟨ts, g.l.nextSeq, k⟩ :: g.accepted }
  | .pop =>
    match g.l.queue with
    | [] => g
    | e :: _ => { g with l := (g.l.apply .pop).1, popped := e :: g.popped }
  | .clear => { g with l := g.l.clear, dropped := g.l.queue ++ g.dropped }
  | .peek => g
  | .len => g
  | .now => g

def run (g : ELG K) (ops : List (ELOp K)) : ELG K := ops.foldl apply g

theorem apply_l (g : ELG K) (op : ELOp K) : (g.apply op).l = (g.l.apply op).1 := by
  cases op with
  | schedule ts k =>
    simp only [apply, EL.apply, EL.schedule]
    split <;> rfl
  | pop =>
    simp only [apply, EL.apply, EL.pop]
    split <;> simp_all
  | peek => rfl
  | clear => rfl
  | len => rfl
  | now => rfl

theorem run_l (g : ELG K) (ops : List (ELOp K)) : (g.run ops).l = (g.l.run ops).1 := by
  induction ops generalizing g with
  | nil => rfl
  | cons op ops ih =>
    simp only [run, List.foldl_cons, EL.run]
    have := ih (g.apply op)
    simp only [run] at this
    rw [this, apply_l]

structure Inv (g : ELG K) : Prop where
  sorted : g.l.queue.Pairwise keyLt
  ge_now : ∀ e ∈ g.l.queue, g.l.now ≤ e.ts
  seq_lt : ∀ e ∈ g.l.queue, e.seq < g.l.nextSeq
  /-- conservation: popped ++ queued ++ dropped is a permutation of the accepted requests -/
  perm : (g.popped ++ g.l.queue ++ g.dropped).Perm g.accepted
  popped_lt_queue : ∀ a ∈ g.popped, ∀ b ∈ g.l.queue, keyLt a b
  popped_sorted : g.popped.Pairwise (fun a b => keyLt b a)
  popped_le_now : ∀ a ∈ g.popped, a.ts ≤ g.l.now
  popped_seq_lt : ∀ a ∈ g.popped, a.seq < g.l.nextSeq

theorem init_inv : Inv (init : ELG K) := by
  constructor <;> simp [init, EL.empty]

theorem apply_inv (g : ELG K) (op : ELOp K) (h : Inv g) : Inv (g.apply op) := by
  cases op with
  | schedule ts k =>
    simp only [apply]
    split
    · exact h
    · rename_i hts
      simp only [EL.apply, EL.schedule, if_neg hts]
      constructor
      · exact insertEv_sorted _ _ h.sorted (fun x hx => h.seq_lt x hx)
      · intro e he
        rcases mem_insertEv.mp he with rfl | he
        · show g.l.now ≤ ts; omega
        · exact h.ge_now e he
      · intro e he
        rcases mem_insertEv.mp he with rfl | he
        · exact Nat.lt_succ_self _
        · exact Nat.lt_succ_of_lt (h.seq_lt e he)
      · show (g.popped ++ insertEv _ g.l.queue ++ g.dropped).Perm (_ :: g.accepted)
        have h1 : (g.popped ++ insertEv ⟨ts, g.l.nextSeq, k⟩ g.l.queue ++ g.dropped).Perm
            (g.popped ++ (⟨ts, g.l.nextSeq, k⟩ :: g.l.queue) ++ g.dropped) :=
          List.Perm.append_right _ (List.Perm.append_left _ (insertEv_perm _ _))
        refine h1.trans ?_
        have h2 : (g.popped ++ (⟨ts, g.l.nextSeq, k⟩ :: g.l.queue) ++ g.dropped).Perm
            (⟨ts, g.l.nextSeq, k⟩ :: (g.popped ++ g.l.queue ++ g.dropped)) := by
          rw [List.append_assoc, List.append_assoc]
          exact List.perm_middle
        exact h2.trans (List.Perm.cons _ h.perm)
      · intro a ha b hb
        rcases mem_insertEv.mp hb with rfl | hb
        · have h1 := h.popped_le_now a ha
          have h2 := h.popped_seq_lt a ha
          show a.ts < ts ∨ (a.ts = ts ∧ a.seq < g.l.nextSeq)
          omega
        · exact h.popped_lt_queue a ha b hb
      · exact h.popped_sorted
      · exact h.popped_le_now
      · intro a ha; exact Nat.lt_succ_of_lt (h.popped_seq_lt a ha)
  | pop =>
    simp only [apply]
    split
    · exact h
    · rename_i e rest hq
      have hs : (e :: rest).Pairwise keyLt := hq ▸ h.sorted
      have hhead := sorted_head_least hs
      have hmem : ∀ x, x ∈ rest → x ∈ g.l.queue := fun x hx => by rw [hq]; exact List.mem_cons_of_mem _ hx
      have he : e ∈ g.l.queue := by rw [hq]; exact List.mem_cons_self
      simp only [EL.apply, EL.pop, hq]
      constructor
      · exact (List.pairwise_cons.mp hs).2
      · intro x hx; exact keyLt_ts_le (hhead x hx)
      · intro x hx; exact h.seq_lt x (hmem x hx)
      · show ((e :: g.popped) ++ rest ++ g.dropped).Perm g.accepted
        have := h.perm
        rw [hq] at this
        refine List.Perm.trans ?_ this
        rw [List.append_assoc, List.append_assoc, List.cons_append]
        exact List.perm_middle.symm
      · intro a ha b hb
        rcases List.mem_cons.mp ha with rfl | ha
        · exact hhead b hb
        · exact h.popped_lt_queue a ha b (hmem b hb)
      · exact List.pairwise_cons.mpr ⟨fun a ha => h.popped_lt_queue a ha e he, h.popped_sorted⟩
      · intro a ha
        rcases List.mem_cons.mp ha with rfl | ha
        · exact Int.le_refl _
        · exact keyLt_ts_le (h.popped_lt_queue a ha e he)
      · intro a ha
        rcases List.mem_cons.mp ha with rfl | ha
        · exact h.seq_lt _ he
        · exact h.popped_seq_lt a ha
  | clear =>
    simp only [apply, EL.clear]
    constructor
    · exact List.Pairwise.nil
    · intro e he; cases he
    · intro e he; cases he
    · show (g.popped ++ [] ++ (g.l.queue ++ g.dropped)).Perm g.accepted
      simpa [List.append_assoc] using h.perm
    · intro a _ b hb; cases hb
    · exact h.popped_sorted
    · exact h.popped_le_now
    · exact h.popped_seq_lt
  | peek => exact h
  | len => exact h
  | now => exact h

theorem run_inv (g : ELG K) (ops : List (ELOp K)) (h : Inv g) : Inv (g.run ops) := by
  induction ops generalizing g with
  | nil => exact h
  | cons op ops ih => exact ih _ (apply_inv g op h)

end ELG
