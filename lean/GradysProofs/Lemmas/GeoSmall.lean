import GradysProofs.Lemmas.GeoReal
/-
  Explicit small-angle bounds behind `C20_small_offsets`: everything is algebra on top of
  `sin x ≥ x − x³/6`, `|sin x| ≤ |x|`, `cos x ≥ 1 − x²/2`, `|cos x − cos y| ≤ |x − y|`,
  `2/π·|x| ≤ |sin x|` and the sum-to-product formula for `sin x − sin y` (no calculus).
-/
open Real

namespace GeoSmall
open GeoReal

/-- `|x|·(1 − x²/6) ≤ |sin x|` for `|x| ≤ π` -/
theorem abs_sin_lower {x : ℝ} (hx : |x| ≤ π) : |x| * (1 - x ^ 2 / 6) ≤ |sin x| := by
  rw [abs_sin_eq_sin_abs_of_abs_le_pi hx]
  have := sin_ge_sub_cube (abs_nonneg x)
  have h3 : |x| ^ 3 = |x| * x ^ 2 := by rw [← sq_abs x]; ring
  rw [h3] at this
  linarith

/-- `|arcsin s| ≤ 2·|s|` (from `2/π·|y| ≤ |sin y|` and `π ≤ 4`) -/
theorem abs_arcsin_le {s : ℝ} (h : |s| ≤ 1) : |arcsin s| ≤ 2 * |s| := by
  have hmem : |arcsin s| ≤ π / 2 :=
    abs_le.mpr ⟨neg_pi_div_two_le_arcsin s, arcsin_le_pi_div_two s⟩
  have h1 := mul_abs_le_abs_sin hmem
  rw [sin_arcsin (abs_le.mp h).1 (abs_le.mp h).2] at h1
  have hpi : 0 < π := pi_pos
  have h2 : |arcsin s| ≤ π / 2 * |s| := by
    have : 2 / π * |arcsin s| * (π / 2) ≤ |s| * (π / 2) :=
      mul_le_mul_of_nonneg_right h1 (by positivity)
    have e : 2 / π * |arcsin s| * (π / 2) = |arcsin s| := by field_simp
    rw [e] at this; linarith
  have : π / 2 * |s| ≤ 2 * |s| := by
    apply mul_le_mul_of_nonneg_right _ (abs_nonneg s); linarith [pi_le_four]
  linarith

/-- two-sided Lipschitz bound for `v ↦ arcsin(c·sin(v/2))` near 0, without calculus -/
theorem arcsin_diff_bounds {c v1 v2 : ℝ} (hc0 : 0 ≤ c) (hc1 : c ≤ 1)
    (h1 : |v1| ≤ 4 / 1000) (h2 : |v2| ≤ 4 / 1000) :
    c * |v1 - v2| / 2 * (1 - 1 / 10000)
        ≤ |arcsin (c * sin (v1 / 2)) - arcsin (c * sin (v2 / 2))| ∧
    |arcsin (c * sin (v1 / 2)) - arcsin (c * sin (v2 / 2))|
        ≤ c * |v1 - v2| / 2 * (1 + 1 / 10000) := by
  have hs : ∀ v : ℝ, |v| ≤ 4 / 1000 → |c * sin (v / 2)| ≤ 2 / 1000 := by
    intro v hv
    rw [abs_mul, abs_of_nonneg hc0]
    have : |sin (v / 2)| ≤ |v / 2| := abs_sin_le_abs
    rw [abs_div, abs_two] at this
    have hsn : 0 ≤ |sin (v / 2)| := abs_nonneg _
    nlinarith
  set A1 := arcsin (c * sin (v1 / 2)) with hA1
  set A2 := arcsin (c * sin (v2 / 2)) with hA2
  have hA1b : |A1| ≤ 4 / 1000 := by
    have := abs_arcsin_le (s := c * sin (v1 / 2)) (by linarith [hs v1 h1])
    linarith [hs v1 h1]
  have hA2b : |A2| ≤ 4 / 1000 := by
    have := abs_arcsin_le (s := c * sin (v2 / 2)) (by linarith [hs v2 h2])
    linarith [hs v2 h2]
  have hsin1 : sin A1 = c * sin (v1 / 2) :=
    sin_arcsin (by linarith [(abs_le.mp (hs v1 h1)).1]) (by linarith [(abs_le.mp (hs v1 h1)).2])
  have hsin2 : sin A2 = c * sin (v2 / 2) :=
    sin_arcsin (by linarith [(abs_le.mp (hs v2 h2)).1]) (by linarith [(abs_le.mp (hs v2 h2)).2])
  set a := (A1 - A2) / 2 with ha
  set b := (A1 + A2) / 2 with hb
  set p := (v1 - v2) / 4 with hp
  set q := (v1 + v2) / 4 with hq
  have hab : |a| ≤ 4 / 1000 := by
    rw [ha, abs_div, abs_two]
    have := abs_sub A1 A2
    linarith
  have hbb : |b| ≤ 4 / 1000 := by
    rw [hb, abs_div, abs_two]
    have := abs_add_le A1 A2
    linarith
  have hpb : |p| ≤ 2 / 1000 := by
    rw [hp, abs_div, show |(4:ℝ)| = 4 by norm_num]
    have := abs_sub v1 v2
    linarith
  have hqb : |q| ≤ 2 / 1000 := by
    rw [hq, abs_div, show |(4:ℝ)| = 4 by norm_num]
    have := abs_add_le v1 v2
    linarith
  -- sum-to-product on both sides
  have key : sin a * cos b = c * (sin p * cos q) := by
    have e1 := sin_sub_sin A1 A2
    have e2 := sin_sub_sin (v1 / 2) (v2 / 2)
    rw [hsin1, hsin2] at e1
    have e3 : (v1 / 2 - v2 / 2) / 2 = p := by rw [hp]; ring
    have e4 : (v1 / 2 + v2 / 2) / 2 = q := by rw [hq]; ring
    rw [e3, e4] at e2
    have : c * sin (v1 / 2) - c * sin (v2 / 2) = c * (2 * sin p * cos q) := by
      rw [← e2]; ring
    rw [this] at e1
    linarith
  have hpi : (4:ℝ) / 1000 ≤ π := by linarith [two_le_pi]
  have hcb : 0 < cos b := cos_pos_of_mem_Ioo
    ⟨by linarith [(abs_le.mp hbb).1, two_le_pi], by linarith [(abs_le.mp hbb).2, two_le_pi]⟩
  have hcq : 0 < cos q := cos_pos_of_mem_Ioo
    ⟨by linarith [(abs_le.mp hqb).1, two_le_pi], by linarith [(abs_le.mp hqb).2, two_le_pi]⟩
  have keyabs : |sin a| * cos b = c * (|sin p| * cos q) := by
    have := congrArg abs key
    rw [abs_mul, abs_mul, abs_mul, abs_of_pos hcb, abs_of_pos hcq, abs_of_nonneg hc0] at this
    exact this
  have hcb1 : cos b ≤ 1 := cos_le_one b
  have hcq1 : cos q ≤ 1 := cos_le_one q
  have hcbl : 1 - b ^ 2 / 2 ≤ cos b := one_sub_sq_div_two_le_cos
  have hcql : 1 - q ^ 2 / 2 ≤ cos q := one_sub_sq_div_two_le_cos
  have hsa_lo := abs_sin_lower (x := a) (by linarith)
  have hsa_hi : |sin a| ≤ |a| := abs_sin_le_abs
  have hsp_lo := abs_sin_lower (x := p) (by linarith)
  have hsp_hi : |sin p| ≤ |p| := abs_sin_le_abs
  have ha2 : a ^ 2 ≤ (4 / 1000) ^ 2 := by rw [← sq_abs]; exact pow_le_pow_left₀ (abs_nonneg a) hab 2
  have hb2 : b ^ 2 ≤ (4 / 1000) ^ 2 := by rw [← sq_abs]; exact pow_le_pow_left₀ (abs_nonneg b) hbb 2
  have hp2 : p ^ 2 ≤ (2 / 1000) ^ 2 := by rw [← sq_abs]; exact pow_le_pow_left₀ (abs_nonneg p) hpb 2
  have hq2 : q ^ 2 ≤ (2 / 1000) ^ 2 := by rw [← sq_abs]; exact pow_le_pow_left₀ (abs_nonneg q) hqb 2
  have hdiff : |A1 - A2| = 2 * |a| := by rw [ha, abs_div, abs_two]; ring
  have hvd : c * |v1 - v2| / 2 = 2 * (c * |p|) := by
    rw [hp, abs_div, show |(4:ℝ)| = 4 by norm_num]; ring
  rw [hdiff, hvd]
  have hna : 0 ≤ |a| := abs_nonneg a
  have hnp : 0 ≤ |p| := abs_nonneg p
  have hnsa : 0 ≤ |sin a| := abs_nonneg _
  have hnsp : 0 ≤ |sin p| := abs_nonneg _
  have hcp : 0 ≤ c * |p| := mul_nonneg hc0 hnp
  have hk : (0:ℝ) ≤ 1 - 1 / 100000 := by norm_num
  have keyle : |sin a| * cos b ≤ |sin a| := by
    calc |sin a| * cos b ≤ |sin a| * 1 := mul_le_mul_of_nonneg_left hcb1 hnsa
      _ = |sin a| := mul_one _
  have keyle' : |sin p| * cos q ≤ |p| := by
    calc |sin p| * cos q ≤ |sin p| * 1 := mul_le_mul_of_nonneg_left hcq1 hnsp
      _ = |sin p| := mul_one _
      _ ≤ |p| := hsp_hi
  constructor
  · -- lower: c|p|(1−p²/6)(1−q²/2) ≤ c|sin p|cos q = |sin a| cos b ≤ |sin a| ≤ |a|
    have f1 : 1 - 1 / 100000 ≤ 1 - p ^ 2 / 6 := by linarith
    have s1 : |p| * (1 - 1 / 100000) ≤ |sin p| :=
      le_trans (mul_le_mul_of_nonneg_left f1 hnp) hsp_lo
    have f2 : 1 - 1 / 100000 ≤ cos q := by linarith
    have s2 : |sin p| * (1 - 1 / 100000) ≤ |sin p| * cos q := mul_le_mul_of_nonneg_left f2 hnsp
    have s4 : |p| * (1 - 1 / 100000) * (1 - 1 / 100000) ≤ |sin p| * cos q :=
      le_trans (mul_le_mul_of_nonneg_right s1 hk) s2
    have s3 : c * (|sin p| * cos q) ≤ |a| := by
      rw [← keyabs]; exact le_trans keyle hsa_hi
    have s5 : c * (|p| * (1 - 1 / 100000) * (1 - 1 / 100000)) ≤ |a| :=
      le_trans (mul_le_mul_of_nonneg_left s4 hc0) s3
    have s6 : c * |p| * (1 - 1 / 10000) ≤ c * |p| * ((1 - 1 / 100000) * (1 - 1 / 100000)) :=
      mul_le_mul_of_nonneg_left (by norm_num) hcp
    linarith
  · -- upper: |a|(1−a²/6)(1−b²/2) ≤ |sin a| cos b = c|sin p|cos q ≤ c|p|
    have f1 : 1 - 1 / 100000 ≤ 1 - a ^ 2 / 6 := by linarith
    have s1 : |a| * (1 - 1 / 100000) ≤ |sin a| :=
      le_trans (mul_le_mul_of_nonneg_left f1 hna) hsa_lo
    have f2 : 1 - 1 / 100000 ≤ cos b := by linarith
    have s2 : |sin a| * (1 - 1 / 100000) ≤ |sin a| * cos b := mul_le_mul_of_nonneg_left f2 hnsa
    have s4 : |a| * (1 - 1 / 100000) * (1 - 1 / 100000) ≤ |sin a| * cos b :=
      le_trans (mul_le_mul_of_nonneg_right s1 hk) s2
    have s3 : |sin a| * cos b ≤ c * |p| := by
      rw [keyabs]; exact mul_le_mul_of_nonneg_left keyle' hc0
    have s5 : |a| * ((1 - 1 / 100000) * (1 - 1 / 100000)) ≤ c * |p| := by
      have := le_trans s4 s3
      linarith
    have s6 : |a| * 1 ≤ |a| * (((1 - 1 / 100000) * (1 - 1 / 100000)) * (1 + 1 / 10000)) :=
      mul_le_mul_of_nonneg_left (by norm_num) hna
    have s7 : |a| * ((1 - 1 / 100000) * (1 - 1 / 100000)) * (1 + 1 / 10000)
        ≤ c * |p| * (1 + 1 / 10000) := mul_le_mul_of_nonneg_right s5 (by norm_num)
    linarith

/-- `x ≤ arcsin x ≤ x·(1 + 10⁻⁴)` for `0 ≤ x ≤ 2·10⁻³` -/
theorem arcsin_small {x : ℝ} (h0 : 0 ≤ x) (h1 : x ≤ 2 / 1000) :
    x ≤ arcsin x ∧ arcsin x ≤ x * (1 + 1 / 10000) := by
  have hpi : (2:ℝ) ≤ π := two_le_pi
  constructor
  · rw [le_arcsin_iff_sin_le ⟨by linarith, by linarith⟩ ⟨by linarith, by linarith⟩]
    exact sin_le h0
  · set y := arcsin x with hy
    have hy0 : 0 ≤ y := arcsin_nonneg.mpr h0
    have hyb : |y| ≤ 2 * |x| := abs_arcsin_le (by rw [abs_of_nonneg h0]; linarith)
    rw [abs_of_nonneg hy0, abs_of_nonneg h0] at hyb
    have hlo := abs_sin_lower (x := y) (by rw [abs_of_nonneg hy0]; linarith)
    rw [abs_of_nonneg hy0, hy, sin_arcsin (by linarith) (by linarith), ← hy,
      abs_of_nonneg h0] at hlo
    have hy2 : y ^ 2 ≤ (4 / 1000) ^ 2 := pow_le_pow_left₀ hy0 (by linarith) 2
    have f1 : 1 - 1 / 100000 ≤ 1 - y ^ 2 / 6 := by linarith
    have s1 : y * (1 - 1 / 100000) ≤ x := le_trans (mul_le_mul_of_nonneg_left f1 hy0) hlo
    have s2 : y * 1 ≤ y * ((1 - 1 / 100000) * (1 + 1 / 10000)) :=
      mul_le_mul_of_nonneg_left (by norm_num) hy0
    have s3 : y * (1 - 1 / 100000) * (1 + 1 / 10000) ≤ x * (1 + 1 / 10000) :=
      mul_le_mul_of_nonneg_right s1 (by norm_num)
    linarith

/-- `x²·(1 − 2·10⁻⁵) ≤ sin²x ≤ x²` for `|x| ≤ 2·10⁻³` -/
theorem sin_sq_bounds {x : ℝ} (hx : |x| ≤ 2 / 1000) :
    x ^ 2 * (1 - 2 / 100000) ≤ sin x ^ 2 ∧ sin x ^ 2 ≤ x ^ 2 := by
  refine ⟨?_, sin_sq_le_sq⟩
  have hlo := abs_sin_lower (x := x) (by linarith [two_le_pi])
  have hx2 : x ^ 2 ≤ (2 / 1000) ^ 2 := by
    rw [← sq_abs]; exact pow_le_pow_left₀ (abs_nonneg x) hx 2
  have f1 : 1 - 1 / 100000 ≤ 1 - x ^ 2 / 6 := by linarith
  have s1 : |x| * (1 - 1 / 100000) ≤ |sin x| :=
    le_trans (mul_le_mul_of_nonneg_left f1 (abs_nonneg x)) hlo
  have s2 : (|x| * (1 - 1 / 100000)) ^ 2 ≤ |sin x| ^ 2 :=
    pow_le_pow_left₀ (mul_nonneg (abs_nonneg x) (by norm_num)) s1 2
  rw [sq_abs, mul_pow, sq_abs] at s2
  have s3 : x ^ 2 * (1 - 2 / 100000) ≤ x ^ 2 * (1 - 1 / 100000) ^ 2 :=
    mul_le_mul_of_nonneg_left (by norm_num) (sq_nonneg x)
  linarith

/-- the haversine `a` of two points near the reference against the equirectangular form
    `E² = Δφ² + cos²φ₀·Δλ²`:  `(1 − 0.0041)·E²/4 ≤ a ≤ (1 + 0.0041)·E²/4` -/
theorem havA_bounds {φ0 φ1 φ2 v1 v2 : ℝ} (hc : 1 / 2 ≤ cos φ0)
    (hu1 : |φ1 - φ0| ≤ 1 / 1000) (hu2 : |φ2 - φ0| ≤ 1 / 1000)
    (hv1 : cos φ0 * |v1| ≤ 1 / 1000) (hv2 : cos φ0 * |v2| ≤ 1 / 1000) :
    (1 - 41 / 10000) * (((φ2 - φ1) ^ 2 + cos φ0 ^ 2 * (v2 - v1) ^ 2) / 4) ≤ havA φ1 φ2 (v2 - v1) ∧
    havA φ1 φ2 (v2 - v1) ≤ (1 + 41 / 10000) * (((φ2 - φ1) ^ 2 + cos φ0 ^ 2 * (v2 - v1) ^ 2) / 4) ∧
    (φ2 - φ1) ^ 2 + cos φ0 ^ 2 * (v2 - v1) ^ 2 ≤ 8 / 1000000 := by
  set c0 := cos φ0 with hc0
  have hc1 : c0 ≤ 1 := cos_le_one φ0
  have hvb : ∀ v : ℝ, c0 * |v| ≤ 1 / 1000 → |v| ≤ 2 / 1000 := by
    intro v hv
    have : 1 / 2 * |v| ≤ c0 * |v| := mul_le_mul_of_nonneg_right hc (abs_nonneg v)
    linarith
  have hx : |(φ2 - φ1) / 2| ≤ 2 / 1000 := by
    rw [abs_div, abs_two]
    have : |φ2 - φ1| ≤ |φ2 - φ0| + |φ1 - φ0| := by
      have := abs_sub_le φ2 φ0 φ1
      rw [abs_sub_comm φ0 φ1] at this; exact this
    linarith
  have hy : |(v2 - v1) / 2| ≤ 2 / 1000 := by
    rw [abs_div, abs_two]
    have := abs_sub v2 v1
    linarith [hvb v1 hv1, hvb v2 hv2]
  obtain ⟨sx_lo, sx_hi⟩ := sin_sq_bounds hx
  obtain ⟨sy_lo, sy_hi⟩ := sin_sq_bounds hy
  -- the cosines of the two latitudes against cos φ₀
  have hcos : ∀ φ : ℝ, |φ - φ0| ≤ 1 / 1000 →
      c0 * (1 - 2 / 1000) ≤ cos φ ∧ cos φ ≤ c0 * (1 + 2 / 1000) := by
    intro φ h
    have := abs_le.mp (le_trans (abs_cos_sub_cos_le φ φ0) h)
    constructor <;> linarith [this.1, this.2]
  obtain ⟨c1lo, c1hi⟩ := hcos φ1 hu1
  obtain ⟨c2lo, c2hi⟩ := hcos φ2 hu2
  have hc0pos : 0 < c0 := by linarith
  have hlo0 : 0 ≤ c0 * (1 - 2 / 1000) := mul_nonneg hc0pos.le (by norm_num)
  have hc2' : 0 ≤ c0 ^ 2 := sq_nonneg c0
  have hC_lo : c0 ^ 2 * (1 - 4 / 1000) ≤ cos φ1 * cos φ2 := by
    have : (c0 * (1 - 2 / 1000)) * (c0 * (1 - 2 / 1000)) ≤ cos φ1 * cos φ2 :=
      mul_le_mul c1lo c2lo hlo0 (le_trans hlo0 c1lo)
    have e : (c0 * (1 - 2 / 1000)) * (c0 * (1 - 2 / 1000))
        = c0 ^ 2 * (1 - 4 / 1000) + c0 ^ 2 * (4 / 1000000) := by ring
    have : 0 ≤ c0 ^ 2 * (4 / 1000000) := mul_nonneg hc2' (by norm_num)
    linarith
  have hC_hi : cos φ1 * cos φ2 ≤ c0 ^ 2 * (1 + 41 / 10000) := by
    have : cos φ1 * cos φ2 ≤ (c0 * (1 + 2 / 1000)) * (c0 * (1 + 2 / 1000)) :=
      mul_le_mul c1hi c2hi (le_trans hlo0 c2lo) (mul_nonneg hc0pos.le (by norm_num))
    have e : (c0 * (1 + 2 / 1000)) * (c0 * (1 + 2 / 1000))
        = c0 ^ 2 * (1 + 41 / 10000) - c0 ^ 2 * (96 / 1000000) := by ring
    have : 0 ≤ c0 ^ 2 * (96 / 1000000) := mul_nonneg hc2' (by norm_num)
    linarith
  have hC0 : 0 ≤ cos φ1 * cos φ2 := le_trans (mul_nonneg hc2' (by norm_num)) hC_lo
  set X := ((φ2 - φ1) / 2) ^ 2 with hX
  set Y := ((v2 - v1) / 2) ^ 2 with hY
  have hX0 : 0 ≤ X := sq_nonneg _
  have hY0 : 0 ≤ Y := sq_nonneg _
  have hE : ((φ2 - φ1) ^ 2 + c0 ^ 2 * (v2 - v1) ^ 2) / 4 = X + c0 ^ 2 * Y := by
    rw [hX, hY]; ring
  have hsy0 : 0 ≤ sin ((v2 - v1) / 2) ^ 2 := sq_nonneg _
  have hc2 : 0 ≤ c0 ^ 2 := sq_nonneg c0
  unfold havA
  rw [hE]
  refine ⟨?_, ?_, ?_⟩
  · -- lower
    have t1 : c0 ^ 2 * (1 - 4 / 1000) * (Y * (1 - 2 / 100000))
        ≤ cos φ1 * cos φ2 * sin ((v2 - v1) / 2) ^ 2 :=
      mul_le_mul hC_lo sy_lo (mul_nonneg hY0 (by norm_num)) hC0
    have t2 : (1 - 41 / 10000) * (c0 ^ 2 * Y)
        ≤ c0 ^ 2 * (1 - 4 / 1000) * (Y * (1 - 2 / 100000)) := by
      have hW : 0 ≤ c0 ^ 2 * Y := mul_nonneg hc2 hY0
      have e : c0 ^ 2 * (1 - 4 / 1000) * (Y * (1 - 2 / 100000))
          = c0 ^ 2 * Y * ((1 - 4 / 1000) * (1 - 2 / 100000)) := by ring
      rw [e, mul_comm (1 - 41 / 10000 : ℝ)]
      exact mul_le_mul_of_nonneg_left (by norm_num) hW
    have t3 : (1 - 41 / 10000) * X ≤ X * (1 - 2 / 100000) := by
      rw [mul_comm]; exact mul_le_mul_of_nonneg_left (by norm_num) hX0
    linarith
  · -- upper
    have t1 : cos φ1 * cos φ2 * sin ((v2 - v1) / 2) ^ 2 ≤ c0 ^ 2 * (1 + 41 / 10000) * Y :=
      mul_le_mul hC_hi sy_hi hsy0 (mul_nonneg hc2 (by norm_num))
    have t3 : X * 1 ≤ X * (1 + 41 / 10000) := mul_le_mul_of_nonneg_left (by norm_num) hX0
    linarith
  · -- size of E²
    have hXb : X ≤ (1 / 1000) ^ 2 := by
      rw [hX, ← sq_abs]
      apply pow_le_pow_left₀ (abs_nonneg _)
      rw [abs_div, abs_two]
      have : |φ2 - φ1| ≤ |φ2 - φ0| + |φ1 - φ0| := by
        have := abs_sub_le φ2 φ0 φ1
        rw [abs_sub_comm φ0 φ1] at this; exact this
      linarith
    have hYb : c0 ^ 2 * Y ≤ (1 / 1000) ^ 2 := by
      have : c0 ^ 2 * Y = (c0 * |(v2 - v1) / 2|) ^ 2 := by rw [hY, mul_pow, sq_abs]
      rw [this]
      apply pow_le_pow_left₀ (mul_nonneg hc0pos.le (abs_nonneg _))
      rw [abs_div, abs_two]
      have h3 := abs_sub v2 v1
      have : c0 * |v2 - v1| ≤ c0 * (|v2| + |v1|) := mul_le_mul_of_nonneg_left h3 hc0pos.le
      linarith
    have : (φ2 - φ1) ^ 2 + c0 ^ 2 * (v2 - v1) ^ 2 = 4 * (X + c0 ^ 2 * Y) := by
      rw [hX, hY]; ring
    rw [this]
    norm_num at hXb hYb ⊢
    linarith

/-- from `|sin x| ≤ s` (`s ≤ 5·10⁻⁴`) and `|x| ≤ π/2`: `|x|·(99/100) ≤ s`, scaled by `k ≥ 0` -/
theorem abs_le_of_abs_sin_le {k x s : ℝ} (hk0 : 0 ≤ k) (hx : |x| ≤ π / 2)
    (hs : k * |sin x| ≤ s) (hs5 : s ≤ 5 / 10000) (hk : 1 / 2 ≤ k) :
    k * |x| * (99 / 100) ≤ s := by
  have h1 := mul_abs_le_abs_sin hx
  have hpi : 0 < π := pi_pos
  have hx0 : 0 ≤ |x| := abs_nonneg x
  -- first a crude bound |x| ≤ 2·10⁻³
  have hsin : |sin x| ≤ 1 / 1000 := by
    have : 1 / 2 * |sin x| ≤ k * |sin x| := mul_le_mul_of_nonneg_right hk (abs_nonneg _)
    linarith
  have hcr : |x| ≤ 2 / 1000 := by
    have e : 2 / π * |x| * (π / 2) = |x| := by field_simp
    have : 2 / π * |x| * (π / 2) ≤ |sin x| * (π / 2) :=
      mul_le_mul_of_nonneg_right h1 (by positivity)
    have h4 : |sin x| * (π / 2) ≤ |sin x| * 2 :=
      mul_le_mul_of_nonneg_left (by linarith [pi_le_four]) (abs_nonneg _)
    rw [e] at this
    linarith
  have hlo := abs_sin_lower (x := x) (by linarith)
  have hx2 : x ^ 2 ≤ (2 / 1000) ^ 2 := by
    rw [← sq_abs]; exact pow_le_pow_left₀ hx0 hcr 2
  have f1 : (99:ℝ) / 100 ≤ 1 - x ^ 2 / 6 := by linarith
  have s1 : |x| * (99 / 100) ≤ |sin x| := le_trans (mul_le_mul_of_nonneg_left f1 hx0) hlo
  have s2 : k * (|x| * (99 / 100)) ≤ k * |sin x| := mul_le_mul_of_nonneg_left s1 hk0
  linarith

/-- a target whose great-circle (haversine) distance from the reference is at most 5 km lies in
    the box of `small_offsets_core` (radians; `|φ₀| ≤ π/3`, `|φ₁| ≤ π/2`, `|Δλ| ≤ π`) -/
theorem within_5km_box {φ0 φ1 dl : ℝ} (hφ0 : |φ0| ≤ π / 3) (hφ1 : |φ1| ≤ π / 2) (hdl : |dl| ≤ π)
    (h5 : R * (2 * atan2R (√(havA φ0 φ1 dl)) (√(1 - havA φ0 φ1 dl))) ≤ 5000) :
    |φ1 - φ0| ≤ 1 / 1000 ∧ cos φ0 * |dl| ≤ 1 / 1000 := by
  have hpi2 : (2:ℝ) ≤ π := two_le_pi
  have hc : 1 / 2 ≤ cos φ0 := by
    rw [← cos_abs, ← cos_pi_div_three]
    exact cos_le_cos_of_nonneg_of_le_pi (abs_nonneg _) (by linarith [pi_pos]) hφ0
  have hc1 : 0 ≤ cos φ1 := cos_nonneg_of_mem_Icc ⟨by linarith [(abs_le.mp hφ1).1], (abs_le.mp hφ1).2⟩
  set a := havA φ0 φ1 dl with ha
  have hC0 : 0 ≤ cos φ0 * cos φ1 := mul_nonneg (by linarith) hc1
  have ha0 : 0 ≤ a := by
    rw [ha]; unfold havA
    have := mul_nonneg hC0 (sq_nonneg (sin (dl / 2)))
    positivity
  have hRv : R = 6371000 := rfl
  -- a ≤ 1, else the distance would be πR
  have ha1 : a ≤ 1 := by
    by_contra hgt
    have hgt : 1 < a := not_le.mp hgt
    have h0 : √(1 - a) = 0 := sqrt_eq_zero_of_nonpos (by linarith)
    have hp : 0 < √a := sqrt_pos.mpr (by linarith)
    rw [h0] at h5
    unfold atan2R at h5
    rw [if_neg (lt_irrefl 0), if_neg (lt_irrefl 0), if_pos hp, hRv] at h5
    nlinarith
  rw [atan2R_sqrt ha0 ha1] at h5
  have hsq : √a ≤ 4 / 10000 := by
    have h6 : arcsin (√a) ≤ 4 / 10000 := by rw [hRv] at h5; linarith
    have hmem : (4:ℝ) / 10000 ∈ Set.Icc (-(π / 2)) (π / 2) := ⟨by linarith, by linarith⟩
    have hx : √a ∈ Set.Icc (-1 : ℝ) 1 :=
      ⟨by linarith [sqrt_nonneg a], by rw [sqrt_le_left (by norm_num)]; linarith⟩
    have := (arcsin_le_iff_le_sin hx hmem).mp h6
    exact le_trans this (sin_le (by norm_num))
  have ha_small : a ≤ (4 / 10000) ^ 2 := by
    have := pow_le_pow_left₀ (sqrt_nonneg a) hsq 2
    rwa [sq_sqrt ha0] at this
  -- latitude
  have hs1 : sin ((φ1 - φ0) / 2) ^ 2 ≤ a := by
    rw [ha]; unfold havA
    have := mul_nonneg hC0 (sq_nonneg (sin (dl / 2)))
    linarith
  have hs1' : |sin ((φ1 - φ0) / 2)| ≤ 4 / 10000 := by
    have : sin ((φ1 - φ0) / 2) ^ 2 ≤ (4 / 10000) ^ 2 := le_trans hs1 ha_small
    have := sq_le_sq.mp this
    rwa [abs_of_nonneg (by norm_num : (0:ℝ) ≤ 4 / 10000)] at this
  have hxr : |(φ1 - φ0) / 2| ≤ π / 2 := by
    rw [abs_div, abs_two]
    have := abs_sub φ1 φ0
    linarith
  have hlat := abs_le_of_abs_sin_le (k := 1) (s := 4 / 10000) (by norm_num) hxr (by linarith)
    (by norm_num) (by norm_num)
  have hlat' : |φ1 - φ0| ≤ 1 / 1000 := by
    rw [abs_div, abs_two] at hlat
    linarith
  refine ⟨hlat', ?_⟩
  -- longitude
  have hcos1 : cos φ0 * (1 - 2 / 1000) ≤ cos φ1 := by
    have := abs_le.mp (le_trans (abs_cos_sub_cos_le φ1 φ0) hlat')
    linarith [this.1]
  have hs2 : cos φ0 * cos φ1 * sin (dl / 2) ^ 2 ≤ a := by
    rw [ha]; unfold havA
    linarith [sq_nonneg (sin ((φ1 - φ0) / 2))]
  have hc0n : 0 ≤ cos φ0 := by linarith
  have hs3 : (cos φ0 * |sin (dl / 2)|) ^ 2 * (1 - 2 / 1000) ≤ (4 / 10000) ^ 2 := by
    have e : (cos φ0 * |sin (dl / 2)|) ^ 2 * (1 - 2 / 1000)
        = cos φ0 * (cos φ0 * (1 - 2 / 1000)) * sin (dl / 2) ^ 2 := by
      rw [mul_pow, sq_abs]; ring
    rw [e]
    have : cos φ0 * (cos φ0 * (1 - 2 / 1000)) * sin (dl / 2) ^ 2
        ≤ cos φ0 * cos φ1 * sin (dl / 2) ^ 2 :=
      mul_le_mul_of_nonneg_right (mul_le_mul_of_nonneg_left hcos1 hc0n) (sq_nonneg _)
    linarith
  have hs4 : cos φ0 * |sin (dl / 2)| ≤ 401 / 1000000 := by
    have h0 : 0 ≤ cos φ0 * |sin (dl / 2)| := mul_nonneg hc0n (abs_nonneg _)
    have : (cos φ0 * |sin (dl / 2)|) ^ 2 ≤ (401 / 1000000) ^ 2 := by
      have hq : 0 ≤ (cos φ0 * |sin (dl / 2)|) ^ 2 := sq_nonneg _
      nlinarith
    have := sq_le_sq.mp this
    rwa [abs_of_nonneg h0, abs_of_nonneg (by norm_num : (0:ℝ) ≤ 401 / 1000000)] at this
  have hyr : |dl / 2| ≤ π / 2 := by rw [abs_div, abs_two]; linarith
  have hlon := abs_le_of_abs_sin_le hc0n hyr hs4 (by norm_num) hc
  rw [abs_div, abs_two] at hlon
  linarith

/-- `h ↦ √(x² + h²)` is 1-Lipschitz in `x` -/
theorem abs_sqrt_sq_add_sub_le (a b h : ℝ) : |√(a ^ 2 + h ^ 2) - √(b ^ 2 + h ^ 2)| ≤ |a - b| := by
  have hA : 0 ≤ a ^ 2 + h ^ 2 := by positivity
  have hB : 0 ≤ b ^ 2 + h ^ 2 := by positivity
  apply sq_le_sq.mp
  have hxy : a * b + h ^ 2 ≤ √(a ^ 2 + h ^ 2) * √(b ^ 2 + h ^ 2) := by
    rw [← sqrt_mul hA]
    refine le_trans (le_abs_self _) (abs_le_sqrt ?_)
    nlinarith [sq_nonneg (a - b), sq_nonneg h, mul_nonneg (sq_nonneg h) (sq_nonneg (a - b))]
  have e : (√(a ^ 2 + h ^ 2) - √(b ^ 2 + h ^ 2)) ^ 2
      = (a ^ 2 + h ^ 2) + (b ^ 2 + h ^ 2) - 2 * (√(a ^ 2 + h ^ 2) * √(b ^ 2 + h ^ 2)) := by
    have h1 := sq_sqrt hA
    have h2 := sq_sqrt hB
    ring_nf
    ring_nf at h1 h2
    linarith
  rw [e]
  nlinarith [hxy]

/-- The heart of `C20_small_offsets` in radians, divided by `R`: with `cos φ₀ ≥ 1/2` and both
    targets inside the box `|Δφ| ≤ 10⁻³`, `cos φ₀·|Δλ| ≤ 10⁻³` around the reference, the converted
    horizontal distance `Hc` and the great-circle distance `Hg` differ by at most 0.3 %. -/
theorem small_offsets_core {φ0 φ1 φ2 v1 v2 : ℝ} (hc : 1 / 2 ≤ cos φ0)
    (hu1 : |φ1 - φ0| ≤ 1 / 1000) (hu2 : |φ2 - φ0| ≤ 1 / 1000)
    (hv1 : cos φ0 * |v1| ≤ 1 / 1000) (hv2 : cos φ0 * |v2| ≤ 1 / 1000) :
    0 ≤ havA φ1 φ2 (v2 - v1) ∧ havA φ1 φ2 (v2 - v1) ≤ 1 ∧
    |√((2 * arcsin (cos φ0 * sin (v2 / 2)) - 2 * arcsin (cos φ0 * sin (v1 / 2))) ^ 2
          + (φ2 - φ1) ^ 2)
        - 2 * arcsin (√(havA φ1 φ2 (v2 - v1)))|
      ≤ 3 / 1000 * (2 * arcsin (√(havA φ1 φ2 (v2 - v1)))) := by
  obtain ⟨hlo, hhi, hE8⟩ := havA_bounds hc hu1 hu2 hv1 hv2
  set c0 := cos φ0 with hc0
  set a := havA φ1 φ2 (v2 - v1) with ha
  set E2 := (φ2 - φ1) ^ 2 + c0 ^ 2 * (v2 - v1) ^ 2 with hE2
  have hE2n : 0 ≤ E2 := by positivity
  set E := √E2 with hE
  have hEn : 0 ≤ E := sqrt_nonneg _
  have hEsq : E ^ 2 = E2 := sq_sqrt hE2n
  have hEb : E ≤ 3 / 1000 := by
    rw [hE, sqrt_le_left (by norm_num)]; norm_num; linarith
  have ha0 : 0 ≤ a := le_trans (mul_nonneg (by norm_num) (by positivity)) hlo
  have ha1 : a ≤ 1 := by linarith
  -- √a against E/2
  have hsa_hi : √a ≤ (1 + 21 / 10000) * (E / 2) := by
    rw [sqrt_le_left (by positivity)]
    have : ((1 + 21 / 10000) * (E / 2)) ^ 2 = (1 + 21 / 10000) ^ 2 * (E2 / 4) := by
      rw [mul_pow, div_pow, hEsq]; norm_num
    rw [this]
    have : (1 + 41 / 10000) * (E2 / 4) ≤ (1 + 21 / 10000) ^ 2 * (E2 / 4) :=
      mul_le_mul_of_nonneg_right (by norm_num) (by positivity)
    linarith
  have hsa_lo : (1 - 21 / 10000) * (E / 2) ≤ √a := by
    rw [le_sqrt (by positivity) ha0]
    have : ((1 - 21 / 10000) * (E / 2)) ^ 2 = (1 - 21 / 10000) ^ 2 * (E2 / 4) := by
      rw [mul_pow, div_pow, hEsq]; norm_num
    rw [this]
    have : (1 - 21 / 10000) ^ 2 * (E2 / 4) ≤ (1 - 41 / 10000) * (E2 / 4) :=
      mul_le_mul_of_nonneg_right (by norm_num) (by positivity)
    linarith
  have hsa_small : √a ≤ 2 / 1000 := by linarith
  obtain ⟨has_lo, has_hi⟩ := arcsin_small (sqrt_nonneg a) hsa_small
  -- the great-circle side
  have hg_lo : (1 - 21 / 10000) * E ≤ 2 * arcsin (√a) := by linarith
  have hg_hi : 2 * arcsin (√a) ≤ (1 + 21 / 10000) * (1 + 1 / 10000) * E := by
    have : √a * (1 + 1 / 10000) ≤ (1 + 21 / 10000) * (E / 2) * (1 + 1 / 10000) :=
      mul_le_mul_of_nonneg_right hsa_hi (by norm_num)
    linarith
  -- the converted side
  have hc1 : c0 ≤ 1 := cos_le_one φ0
  have hc0n : 0 ≤ c0 := by linarith
  have hvb : ∀ v : ℝ, c0 * |v| ≤ 1 / 1000 → |v| ≤ 4 / 1000 := by
    intro v hv
    have : 1 / 2 * |v| ≤ c0 * |v| := mul_le_mul_of_nonneg_right hc (abs_nonneg v)
    linarith
  obtain ⟨hd_lo, hd_hi⟩ := arcsin_diff_bounds hc0n hc1 (hvb v2 hv2) (hvb v1 hv1)
  set DX := 2 * arcsin (c0 * sin (v2 / 2)) - 2 * arcsin (c0 * sin (v1 / 2)) with hDX
  have hDXabs : |DX| = 2 * |arcsin (c0 * sin (v2 / 2)) - arcsin (c0 * sin (v1 / 2))| := by
    rw [hDX, ← mul_sub, abs_mul, abs_two]
  set W := c0 * |v2 - v1| with hW
  have hWn : 0 ≤ W := mul_nonneg hc0n (abs_nonneg _)
  have hW2 : W ^ 2 = c0 ^ 2 * (v2 - v1) ^ 2 := by rw [hW, mul_pow, sq_abs]
  have hdx_lo : W * (1 - 1 / 10000) ≤ |DX| := by rw [hDXabs]; linarith
  have hdx_hi : |DX| ≤ W * (1 + 1 / 10000) := by rw [hDXabs]; linarith
  have hdx2_lo : (W * (1 - 1 / 10000)) ^ 2 ≤ DX ^ 2 := by
    rw [← sq_abs DX]; exact pow_le_pow_left₀ (mul_nonneg hWn (by norm_num)) hdx_lo 2
  have hdx2_hi : DX ^ 2 ≤ (W * (1 + 1 / 10000)) ^ 2 := by
    rw [← sq_abs DX]; exact pow_le_pow_left₀ (abs_nonneg _) hdx_hi 2
  have hU : 0 ≤ (φ2 - φ1) ^ 2 := sq_nonneg _
  have hW2n : 0 ≤ W ^ 2 := sq_nonneg _
  have hE2W : E2 = (φ2 - φ1) ^ 2 + W ^ 2 := by rw [hE2, hW2]
  have hc_hi : √(DX ^ 2 + (φ2 - φ1) ^ 2) ≤ (1 + 1 / 10000) * E := by
    rw [sqrt_le_left (by positivity), mul_pow, hEsq, hE2W]
    have e1 : (W * (1 + 1 / 10000)) ^ 2 = (1 + 1 / 10000) ^ 2 * W ^ 2 := by ring
    have e2 : (φ2 - φ1) ^ 2 * 1 ≤ (φ2 - φ1) ^ 2 * (1 + 1 / 10000) ^ 2 :=
      mul_le_mul_of_nonneg_left (by norm_num) hU
    rw [e1] at hdx2_hi
    linarith
  have hc_lo : (1 - 1 / 10000) * E ≤ √(DX ^ 2 + (φ2 - φ1) ^ 2) := by
    rw [le_sqrt (by positivity) (by positivity), mul_pow, hEsq, hE2W]
    have e1 : (W * (1 - 1 / 10000)) ^ 2 = (1 - 1 / 10000) ^ 2 * W ^ 2 := by ring
    have e2 : (φ2 - φ1) ^ 2 * (1 - 1 / 10000) ^ 2 ≤ (φ2 - φ1) ^ 2 * 1 :=
      mul_le_mul_of_nonneg_left (by norm_num) hU
    rw [e1] at hdx2_lo
    linarith
  refine ⟨ha0, ha1, ?_⟩
  rw [abs_le]
  constructor <;> linarith

end GeoSmall
