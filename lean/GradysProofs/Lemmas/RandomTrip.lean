import GradysModel.RandomTrip
import GradysProofs.Lemmas.Dispatch
/-
  Invariant of the random-trip plugin model over every history, generic in the scalar:
  the telemetry chain holds exactly the current trip closure while a trip is ongoing and no closure
  otherwise; every command and every target is a waypoint of the draw stream; three draws per command.
-/
set_option linter.unusedSectionVars false
set_option linter.unusedVariables false

namespace RandomTrip
open Disp
variable {S : Type} [Scalar S]

structure TInv (cfg : Config S) (draws : Nat → S) (s : RT S) : Prop where
  on : s.ongoing = true → ∃ h t, s.handler = some h ∧ s.target = some t ∧ s.chains .telemetry = [.h h, .own]
  off : s.ongoing = false → s.handler = none ∧ s.chains .telemetry = [.own]
  used : s.used = 3 * s.cmds.length
  cmds : ∀ c ∈ s.cmds, ∃ n, c = waypoint cfg draws n
  tgt : ∀ t, s.target = some t → ∃ n, t = waypoint cfg draws n

theorem tinv_init (cfg : Config S) (draws : Nat → S) : TInv cfg draws (RT.init : RT S) := by
  constructor <;> simp [RT.init]

/-- the telemetry dispatch while a trip is ongoing -/
theorem telemetry_on (cfg : Config S) (draws : Nat → S) (s : RT S) (pos : V3 S) {h : Nat} {t : V3 S}
    (hh : s.handler = some h) (ht : s.target = some t) (hc : s.chains .telemetry = [.h h, .own]) :
    telemetry cfg draws s pos =
      if arrived cfg pos t then
        { s with used := s.used + 3, cmds := waypoint cfg draws s.used :: s.cmds,
                 target := some (waypoint cfg draws s.used), ownCalls := s.ownCalls + 1 }
      else { s with ownCalls := s.ownCalls + 1 } := by
  simp only [telemetry, hc, walk_cons, walk_nil, onTelemetry, hh, ht, travel]
  by_cases ha : arrived cfg pos t = true <;> simp [ha, ht, hh]

/-- the telemetry dispatch while no trip is ongoing -/
theorem telemetry_off (cfg : Config S) (draws : Nat → S) (s : RT S) (pos : V3 S)
    (hc : s.chains .telemetry = [.own]) :
    telemetry cfg draws s pos = { s with ownCalls := s.ownCalls + 1 } := by
  simp [telemetry, hc, walk_cons, walk_nil, onTelemetry]

theorem dropHandler_on (s : RT S) {h : Nat} (hh : s.handler = some h) (hc : s.chains .telemetry = [.h h, .own]) :
    (dropHandler s).chains .telemetry = [.own] ∧ (dropHandler s).cmds = s.cmds ∧ (dropHandler s).used = s.used ∧
    (dropHandler s).target = s.target ∧ (dropHandler s).nextH = s.nextH := by
  simp [dropHandler, hh, Chains.unregister, hc]

theorem tinv_travel {cfg : Config S} {draws : Nat → S} {s : RT S} (hs : TInv cfg draws s) :
    TInv cfg draws (travel cfg draws s).1 := by
  constructor
  · exact hs.on
  · exact hs.off
  · show s.used + 3 = 3 * (s.cmds.length + 1)
    have := hs.used; omega
  · intro c hc
    rcases List.mem_cons.mp hc with rfl | hc
    · exact ⟨_, rfl⟩
    · exact hs.cmds c hc
  · exact hs.tgt

theorem tinv_initiate {cfg : Config S} {draws : Nat → S} {s : RT S} (hs : TInv cfg draws s) :
    TInv cfg draws (initiate cfg draws s) := by
  have key : ∀ s1 : RT S, s1.chains .telemetry = [.own] → s1.used = 3 * s1.cmds.length →
      (∀ c ∈ s1.cmds, ∃ n, c = waypoint cfg draws n) →
      TInv cfg draws { (travel cfg draws s1).1 with
        target := some (travel cfg draws s1).2, handler := some (travel cfg draws s1).1.nextH,
        nextH := (travel cfg draws s1).1.nextH + 1,
        chains := (travel cfg draws s1).1.chains.register .telemetry (travel cfg draws s1).1.nextH,
        ongoing := true } := by
    intro s1 hc hu hcm
    constructor
    · intro _
      exact ⟨_, _, rfl, rfl, by simp [travel, Chains.register, hc]⟩
    · intro hf; cases hf
    · show s1.used + 3 = 3 * (s1.cmds.length + 1)
      omega
    · intro c hcc
      rcases List.mem_cons.mp hcc with rfl | hcc
      · exact ⟨_, rfl⟩
      · exact hcm c hcc
    · intro t ht
      cases ht
      exact ⟨_, rfl⟩
  unfold initiate
  cases ho : s.ongoing with
  | false =>
    simp only [Bool.false_eq_true, ↓reduceIte]
    exact key s (hs.off ho).2 hs.used hs.cmds
  | true =>
    simp only [↓reduceIte]
    obtain ⟨h, t, hh, ht, hc⟩ := hs.on ho
    obtain ⟨d1, d2, d3, _, _⟩ := dropHandler_on s hh hc
    exact key (dropHandler s) d1 (by rw [d2, d3]; exact hs.used) (by rw [d2]; exact hs.cmds)

theorem tinv_finish {cfg : Config S} {draws : Nat → S} {s : RT S} (hs : TInv cfg draws s) :
    TInv cfg draws (finish s) := by
  unfold finish
  cases ho : s.ongoing with
  | false => simpa using hs
  | true =>
    simp only [↓reduceIte]
    obtain ⟨h, t, hh, ht, hc⟩ := hs.on ho
    obtain ⟨d1, d2, d3, d4, _⟩ := dropHandler_on s hh hc
    constructor
    · intro hf; cases hf
    · intro _; exact ⟨rfl, d1⟩
    · show (dropHandler s).used = 3 * (dropHandler s).cmds.length
      rw [d2, d3]; exact hs.used
    · show ∀ c ∈ (dropHandler s).cmds, _
      rw [d2]; exact hs.cmds
    · show ∀ t, (dropHandler s).target = some t → _
      rw [d4]; exact hs.tgt

theorem tinv_telemetry {cfg : Config S} {draws : Nat → S} {s : RT S} (hs : TInv cfg draws s) (pos : V3 S) :
    TInv cfg draws (telemetry cfg draws s pos) := by
  cases ho : s.ongoing with
  | false =>
    rw [telemetry_off cfg draws s pos (hs.off ho).2]
    exact ⟨hs.on, hs.off, hs.used, hs.cmds, hs.tgt⟩
  | true =>
    obtain ⟨h, t, hh, ht, hc⟩ := hs.on ho
    rw [telemetry_on cfg draws s pos hh ht hc]
    split
    · constructor
      · intro _; exact ⟨h, _, hh, rfl, hc⟩
      · intro hf; rw [ho] at hf; cases hf
      · show s.used + 3 = 3 * (s.cmds.length + 1)
        have := hs.used; omega
      · intro c hcc
        rcases List.mem_cons.mp hcc with rfl | hcc
        · exact ⟨_, rfl⟩
        · exact hs.cmds c hcc
      · intro t' ht'
        cases ht'
        exact ⟨_, rfl⟩
    · exact ⟨hs.on, hs.off, hs.used, hs.cmds, hs.tgt⟩

theorem tinv_step {cfg : Config S} {draws : Nat → S} {s : RT S} (hs : TInv cfg draws s) (op : Op S) :
    TInv cfg draws (step cfg draws s op).1 := by
  cases op with
  | initiate => exact tinv_initiate hs
  | finish => exact tinv_finish hs
  | telemetry pos => exact tinv_telemetry hs pos
  | travel => exact tinv_travel hs
  | qOngoing => exact hs
  | qTarget => exact hs

theorem tinv_exec {cfg : Config S} {draws : Nat → S} {s : RT S} (hs : TInv cfg draws s) (ops : List (Op S)) :
    TInv cfg draws (exec cfg draws s ops) := by
  induction ops generalizing s with
  | nil => exact hs
  | cons op ops ih => exact ih (tinv_step hs op)

/-- `run` and `exec` agree on the final state -/
theorem run_fst (cfg : Config S) (draws : Nat → S) (s : RT S) (ops : List (Op S)) :
    (run cfg draws s ops).1 = exec cfg draws s ops := by
  induction ops generalizing s with
  | nil => rfl
  | cons op ops ih => simp only [run, exec, List.foldl_cons]; exact ih _

end RandomTrip
