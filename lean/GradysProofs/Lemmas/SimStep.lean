import GradysProofs.Lemmas.SimInv
/-
  Preservation of the run invariant by `init`, `initialise`, `finalise`, `execStep`, `step`,
  `steps`, `start`; reachability.
-/
set_option linter.unusedSectionVars false

namespace Sim
variable {S σ : Type} [Scalar S]

theorem WInv.congr {w w' : World S σ} (hl : w'.loop = w.loop) (he : w'.rexecuted = w.rexecuted)
    (ha : w'.raccepted = w.raccepted) (h : WInv w) : WInv w' := by
  constructor
  · rw [hl]; exact h.sorted
  · rw [hl]; exact h.ge_now
  · rw [hl]; exact h.seq_lt
  · rw [hl, he, ha]; exact h.perm
  · rw [hl, he]; exact h.exec_lt_queue
  · rw [he]; exact h.exec_sorted
  · rw [hl, he]; exact h.exec_le_now
  · rw [hl, he]; exact h.exec_seq_lt
  · rw [ha]; exact h.acc_sorted
  · rw [hl, ha]; exact h.acc_seq_lt

/-- the world before any scheduling -/
def init0 (cfg : Config S) (P : NodeId → Proto S σ) : World S σ :=
  { loop := EL.empty, iter := 0, initialized := false, finalized := false, pending := [],
    nextTimer := fun _ => 0, range := fun _ => cfg.defaultRange, pos := cfg.initPos,
    target := fun _ => none, speed := fun _ => cfg.defaultSpeed, drawIdx := 0,
    pstate := fun n => (P n).init, rtrace := [], raccepted := [], rexecuted := [] }

theorem init0_inv (cfg : Config S) (P : NodeId → Proto S σ) : WInv (init0 cfg P) := by
  constructor <;> simp [init0, EL.empty]

theorem init_eq (cfg : Config S) (P : NodeId → Proto S σ) :
    init cfg P = if cfg.hasMob then sched cfg.dt .mobTick (init0 cfg P) else init0 cfg P := rfl

theorem init_inv (cfg : Config S) (P : NodeId → Proto S σ) (hdt : 0 ≤ cfg.dt) : WInv (init cfg P) := by
  rw [init_eq]
  split
  · exact (ext_sched cfg cfg.dt .mobTick (init0 cfg P) hdt).inv (init0_inv cfg P)
  · exact init0_inv cfg P

theorem initialise_inv (cfg : Config S) (P : NodeId → Proto S σ) (w : World S σ) (h : WInv w) :
    WInv (initialise cfg P w) ∧ (initialise cfg P w).loop.now = w.loop.now
      ∧ (initialise cfg P w).rexecuted = w.rexecuted := by
  unfold initialise
  simp only
  have h0 : WInv { w with initialized := true } := WInv.congr (w := w) rfl rfl rfl h
  have e := (ext_logAll cfg Obs.handlerInit (by intro h n cb t e; cases e) cfg.handlers { w with initialized := true }).trans
    (ext_callbackAll cfg P .initialize (List.range cfg.nNodes) _)
  exact ⟨e.inv h0, e.now_eq, e.exec_eq⟩

theorem finalise_inv (cfg : Config S) (P : NodeId → Proto S σ) (w : World S σ) (h : WInv w) :
    WInv (finalise cfg P w) ∧ (finalise cfg P w).loop.now = w.loop.now
      ∧ (finalise cfg P w).rexecuted = w.rexecuted := by
  unfold finalise
  split
  · exact ⟨h, rfl, rfl⟩
  · simp only
    have e := (ext_callbackAll cfg P .finish (List.range cfg.nNodes) w).trans
      (ext_logAll cfg Obs.handlerFinal (by intro h n cb t e; cases e) cfg.handlers _)
    exact ⟨WInv.congr (w := logAll Obs.handlerFinal cfg.handlers (callbackAll cfg P .finish (List.range cfg.nNodes) w)) rfl rfl rfl (e.inv h), e.now_eq, e.exec_eq⟩

/-- the pop at the start of a step -/
def popped (e : Ev (EvKind S)) (rest : List (Ev (EvKind S))) (w : World S σ) : World S σ :=
  { w with loop := { w.loop with queue := rest, now := e.ts }, rexecuted := e :: w.rexecuted }

theorem popped_inv {e : Ev (EvKind S)} {rest : List (Ev (EvKind S))} {w : World S σ}
    (h : WInv w) (hq : w.loop.queue = e :: rest) : WInv (popped e rest w) := by
  have hs : (e :: rest).Pairwise keyLt := hq ▸ h.sorted
  have hhead := sorted_head_least hs
  have hmem : ∀ x, x ∈ rest → x ∈ w.loop.queue := fun x hx => by rw [hq]; exact List.mem_cons_of_mem _ hx
  have he : e ∈ w.loop.queue := by rw [hq]; exact List.mem_cons_self
  constructor
  · exact (List.pairwise_cons.mp hs).2
  · intro x hx; exact keyLt_ts_le (hhead x hx)
  · intro x hx; exact h.seq_lt x (hmem x hx)
  · show ((e :: w.rexecuted) ++ rest).Perm w.raccepted
    have := h.perm
    rw [hq] at this
    exact (List.perm_middle.symm).trans this |>.symm.symm
  · intro a ha b hb
    rcases List.mem_cons.mp ha with rfl | ha
    · exact hhead b hb
    · exact h.exec_lt_queue a ha b (hmem b hb)
  · show (e :: w.rexecuted).Pairwise _
    exact List.pairwise_cons.mpr ⟨fun a ha => h.exec_lt_queue a ha e he, h.exec_sorted⟩
  · intro a ha
    rcases List.mem_cons.mp ha with rfl | ha
    · exact Int.le_refl _
    · exact keyLt_ts_le (h.exec_lt_queue a ha e he)
  · intro a ha
    rcases List.mem_cons.mp ha with rfl | ha
    · exact h.seq_lt _ he
    · exact h.exec_seq_lt a ha
  · exact h.acc_sorted
  · exact h.acc_seq_lt

theorem execStep_eq (cfg : Config S) (P : NodeId → Proto S σ) (e : Ev (EvKind S))
    (rest : List (Ev (EvKind S))) (w : World S σ) :
    execStep cfg P e rest w =
      let w1 := execEv cfg P e (popped e rest w)
      let w2 := logAll (fun h => .afterStep h w1.iter e.ts) cfg.handlers w1
      { w2 with iter := w2.iter + 1 } := rfl

theorem execStep_inv (cfg : Config S) (hdt : 0 ≤ cfg.dt) (P : NodeId → Proto S σ)
    {e : Ev (EvKind S)} {rest : List (Ev (EvKind S))} {w : World S σ}
    (h : WInv w) (hq : w.loop.queue = e :: rest) :
    WInv (execStep cfg P e rest w) ∧ (execStep cfg P e rest w).loop.now = e.ts
      ∧ (execStep cfg P e rest w).rexecuted = e :: w.rexecuted := by
  rw [execStep_eq]
  simp only
  have e1 := (ext_execEv cfg hdt P e (popped e rest w)).trans
    (ext_logAll cfg (fun h => Obs.afterStep h (execEv cfg P e (popped e rest w)).iter e.ts) (by intro h n cb t e; cases e) cfg.handlers _)
  exact ⟨WInv.congr (w := logAll (fun h => Obs.afterStep h (execEv cfg P e (popped e rest w)).iter e.ts) cfg.handlers (execEv cfg P e (popped e rest w))) rfl rfl rfl (e1.inv (popped_inv h hq)), e1.now_eq, e1.exec_eq⟩

/-- lazy initialisation at the start of a step -/
def prep (cfg : Config S) (P : NodeId → Proto S σ) (w : World S σ) : World S σ :=
  if w.initialized then w else initialise cfg P w

/-- `step` on a world that is not finalised, with the lazily initialised world named -/
theorem step_eq (cfg : Config S) (P : NodeId → Proto S σ) (w : World S σ) (hf : w.finalized = false) :
    step cfg P w =
      if isDone cfg (prep cfg P w) then (finalise cfg P (prep cfg P w), false)
      else match (prep cfg P w).loop.queue with
        | [] => (prep cfg P w, false)
        | e :: rest =>
          if isDone cfg (execStep cfg P e rest (prep cfg P w)) then
            (finalise cfg P (execStep cfg P e rest (prep cfg P w)), false)
          else (execStep cfg P e rest (prep cfg P w), true) := by
  unfold step prep
  rw [if_neg (by simp [hf])]
  simp only
  split
  · rfl
  · split <;> rfl

theorem isDone_nil {cfg : Config S} {w : World S σ} (hq : w.loop.queue = []) : isDone cfg w = true := by
  unfold isDone; rw [hq]

theorem step_inv (cfg : Config S) (hdt : 0 ≤ cfg.dt) (P : NodeId → Proto S σ) (w : World S σ)
    (h : WInv w) : WInv (step cfg P w).1 ∧ w.loop.now ≤ (step cfg P w).1.loop.now := by
  unfold step
  split
  · exact ⟨h, Int.le_refl _⟩
  · have hi : WInv (if w.initialized then w else initialise cfg P w) ∧
        (if w.initialized then w else initialise cfg P w).loop.now = w.loop.now := by
      split
      · exact ⟨h, rfl⟩
      · exact ⟨(initialise_inv cfg P w h).1, (initialise_inv cfg P w h).2.1⟩
    generalize (if w.initialized then w else initialise cfg P w) = w1 at hi
    obtain ⟨hi, hnow⟩ := hi
    simp only
    split
    · have := finalise_inv cfg P w1 hi
      exact ⟨this.1, by rw [this.2.1, hnow]; exact Int.le_refl _⟩
    · split
      · exact ⟨hi, by rw [hnow]; exact Int.le_refl _⟩
      · rename_i e rest hq
        have hs := execStep_inv cfg hdt P hi hq
        have hle : w.loop.now ≤ e.ts := by
          rw [← hnow]; exact hi.ge_now e (by rw [hq]; exact List.mem_cons_self)
        split
        · have := finalise_inv cfg P _ hs.1
          exact ⟨this.1, by rw [this.2.1, hs.2.1]; exact hle⟩
        · exact ⟨hs.1, by rw [hs.2.1]; exact hle⟩

theorem steps_inv (cfg : Config S) (hdt : 0 ≤ cfg.dt) (P : NodeId → Proto S σ) (n : Nat)
    (w : World S σ) (h : WInv w) :
    WInv (steps cfg P n w) ∧ w.loop.now ≤ (steps cfg P n w).loop.now := by
  induction n generalizing w with
  | zero => exact ⟨h, Int.le_refl _⟩
  | succ n ih =>
    have h1 := step_inv cfg hdt P w h
    have h2 := ih _ h1.1
    exact ⟨h2.1, Int.le_trans h1.2 h2.2⟩

/-- `start` is a particular number of steps -/
theorem start_eq_steps (cfg : Config S) (P : NodeId → Proto S σ) (fuel : Nat) (w : World S σ) :
    ∃ n, n ≤ fuel ∧ start cfg P fuel w = steps cfg P n w := by
  induction fuel generalizing w with
  | zero => exact ⟨0, Nat.le_refl _, rfl⟩
  | succ f ih =>
    simp only [start]
    split
    · obtain ⟨n, hn, e⟩ := ih (step cfg P w).1
      exact ⟨n + 1, Nat.succ_le_succ hn, by simpa [steps] using e⟩
    · exact ⟨1, Nat.succ_le_succ (Nat.zero_le _), rfl⟩

theorem initWith_nil (cfg : Config S) (P : NodeId → Proto S σ) : initWith cfg P [] = init cfg P := rfl

theorem initWith_snoc (cfg : Config S) (P : NodeId → Proto S σ) (pre : List (NodeId × Prog S σ))
    (n : NodeId) (p : Prog S σ) :
    initWith cfg P (pre ++ [(n, p)]) = (runProg cfg n p (initWith cfg P pre)).1 := by
  unfold initWith; rw [List.foldl_append]; rfl

/-- induction principle for the worlds `initWith` produces: the freshly built world, closed under one more
    request program issued through a provider -/
theorem initWith_induction {cfg : Config S} {P : NodeId → Proto S σ} {C : World S σ → Prop}
    (h0 : C (init cfg P)) (hs : ∀ n p w, C w → C (runProg cfg n p w).1)
    (pre : List (NodeId × Prog S σ)) : C (initWith cfg P pre) := by
  unfold initWith
  generalize init cfg P = w0 at h0
  induction pre generalizing w0 with
  | nil => exact h0
  | cons np rest ih => exact ih _ (hs _ _ _ h0)

/-- the requests issued before the first step only extend the freshly built world -/
theorem ext_initWith (cfg : Config S) (P : NodeId → Proto S σ) (pre : List (NodeId × Prog S σ)) :
    Ext cfg (init cfg P) (initWith cfg P pre) :=
  initWith_induction (C := fun w => Ext cfg (init cfg P) w) (Ext.refl cfg _)
    (fun n p w h => h.trans (ext_runProg cfg n p w)) pre

theorem initWith_inv (cfg : Config S) (P : NodeId → Proto S σ) (hdt : 0 ≤ cfg.dt)
    (pre : List (NodeId × Prog S σ)) : WInv (initWith cfg P pre) :=
  (ext_initWith cfg P pre).inv (init_inv cfg P hdt)

/-- A world reachable from a freshly built simulation by `step_simulation` calls and requests issued
    through the nodes' providers from OUTSIDE any callback — before the first step, between two steps
    (an external controller driving the simulation step by step), even after the run has ended — in any
    number and any order. Requests issued from inside callbacks are part of `step` itself. -/
inductive Reachable (cfg : Config S) (P : NodeId → Proto S σ) : World S σ → Prop
  | init : Reachable cfg P (init cfg P)
  | step {w : World S σ} : Reachable cfg P w → Reachable cfg P (step cfg P w).1
  | ext {w : World S σ} (n : NodeId) (p : Prog S σ) : Reachable cfg P w → Reachable cfg P (runProg cfg n p w).1

theorem steps_add (cfg : Config S) (P : NodeId → Proto S σ) (m n : Nat) (w : World S σ) :
    steps cfg P (m + n) w = steps cfg P n (steps cfg P m w) := by
  induction m generalizing w with
  | zero => simp [steps]
  | succ m ih => rw [Nat.succ_add]; exact ih _

theorem reachable_step {cfg : Config S} {P : NodeId → Proto S σ} {w : World S σ}
    (h : Reachable cfg P w) : Reachable cfg P (step cfg P w).1 := h.step

theorem reachable_steps {cfg : Config S} {P : NodeId → Proto S σ} {w : World S σ}
    (h : Reachable cfg P w) (n : Nat) : Reachable cfg P (steps cfg P n w) := by
  induction n generalizing w with
  | zero => exact h
  | succ n ih => exact ih h.step

/-- the special case without external requests -/
theorem reachable_of_steps (cfg : Config S) (P : NodeId → Proto S σ) (n : Nat) :
    Reachable cfg P (steps cfg P n (init cfg P)) := reachable_steps .init n

theorem reachable_initWith (cfg : Config S) (P : NodeId → Proto S σ) (pre : List (NodeId × Prog S σ)) :
    Reachable cfg P (initWith cfg P pre) :=
  initWith_induction (C := fun w => Reachable cfg P w) .init (fun n p _ h => h.ext n p) pre

/-- requests before the first step, then any number of steps -/
theorem reachable_of_pre (cfg : Config S) (P : NodeId → Proto S σ) (pre : List (NodeId × Prog S σ)) (n : Nat) :
    Reachable cfg P (steps cfg P n (initWith cfg P pre)) := reachable_steps (reachable_initWith cfg P pre) n

/-- how invariants are lifted to every reachable world: they hold right after `build()`, one
    `step_simulation` keeps them, one externally issued request program keeps them -/
theorem Reachable.rec_inv {cfg : Config S} {P : NodeId → Proto S σ} {I : World S σ → Prop}
    (h0 : I (Sim.init cfg P))
    (hs : ∀ w, Reachable cfg P w → I w → I (Sim.step cfg P w).1)
    (he : ∀ w n p, Reachable cfg P w → I w → I (runProg cfg n p w).1)
    {w : World S σ} (h : Reachable cfg P w) : I w := by
  induction h with
  | init => exact h0
  | step hw ih => exact hs _ hw ih
  | ext n p hw ih => exact he _ n p hw ih

/-- a step out of which the executed event's callback lets an exception escape keeps the world sound and
    does not move the clock back -/
theorem stepRaised_inv (cfg : Config S) (hdt : 0 ≤ cfg.dt) (P : NodeId → Proto S σ) (w : World S σ)
    (hw : WInv w) : WInv (stepRaised cfg P w) ∧ w.loop.now ≤ (stepRaised cfg P w).loop.now := by
  unfold stepRaised
  split
  · exact ⟨hw, Int.le_refl _⟩
  · have hi : WInv (if w.initialized then w else initialise cfg P w) ∧
        (if w.initialized then w else initialise cfg P w).loop.now = w.loop.now := by
      split
      · exact ⟨hw, rfl⟩
      · exact ⟨(initialise_inv cfg P w hw).1, (initialise_inv cfg P w hw).2.1⟩
    generalize (if w.initialized then w else initialise cfg P w) = w1 at hi
    obtain ⟨hw1, hn1⟩ := hi
    simp only
    split
    · have := finalise_inv cfg P w1 hw1
      exact ⟨this.1, by rw [this.2.1, hn1]; exact Int.le_refl _⟩
    · split
      · exact ⟨hw1, by rw [hn1]; exact Int.le_refl _⟩
      · rename_i e rest hq
        have hp : WInv (popped e rest w1) := popped_inv hw1 hq
        have hle : w1.loop.now ≤ e.ts := hw1.ge_now e (by rw [hq]; exact List.mem_cons_self)
        have ex := ext_execEv cfg hdt P e (popped e rest w1)
        refine ⟨ex.inv hp, ?_⟩
        show w.loop.now ≤ (execEv cfg P e (popped e rest w1)).loop.now
        rw [ex.now_eq, ← hn1]
        exact hle

/-- `Reachable` extended by steps out of which a callback's exception escaped while the driver kept going
    (the *tolerant stepped driver*): the closure under `step`, externally issued programs and `stepRaised` -/
inductive ReachableT (cfg : Config S) (P : NodeId → Proto S σ) : World S σ → Prop
  | init : ReachableT cfg P (init cfg P)
  | step {w : World S σ} : ReachableT cfg P w → ReachableT cfg P (step cfg P w).1
  | ext {w : World S σ} (n : NodeId) (p : Prog S σ) : ReachableT cfg P w → ReachableT cfg P (runProg cfg n p w).1
  | raised {w : World S σ} : ReachableT cfg P w → ReachableT cfg P (stepRaised cfg P w)

theorem Reachable.toT {cfg : Config S} {P : NodeId → Proto S σ} {w : World S σ}
    (h : Reachable cfg P w) : ReachableT cfg P w := by
  induction h with
  | init => exact .init
  | step _ ih => exact ih.step
  | ext n p _ ih => exact ih.ext n p

theorem reachableT_inv {cfg : Config S} (hdt : 0 ≤ cfg.dt) {P : NodeId → Proto S σ} {w : World S σ}
    (h : ReachableT cfg P w) : WInv w := by
  induction h with
  | init => exact init_inv cfg P hdt
  | step _ ih => exact (step_inv cfg hdt P _ ih).1
  | ext n p _ ih => exact (ext_runProg cfg n p _).inv ih
  | raised _ ih => exact (stepRaised_inv cfg hdt P _ ih).1

theorem reachable_inv {cfg : Config S} (hdt : 0 ≤ cfg.dt) {P : NodeId → Proto S σ} {w : World S σ}
    (h : Reachable cfg P w) : WInv w :=
  h.rec_inv (init_inv cfg P hdt) (fun w _ hw => (step_inv cfg hdt P w hw).1)
    (fun w n p _ hw => (ext_runProg cfg n p w).inv hw)

end Sim
