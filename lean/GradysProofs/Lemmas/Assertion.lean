import GradysModel.Assertion
/-
  Closed forms for the assertion handler's bookkeeping and the characterisation of a whole run
  (GradysModel/Assertion.lean).
-/
set_option linter.unusedSectionVars false
set_option linter.unusedSimpArgs false

namespace Assertion

/-- the predicate was true after some executed event among iterations 0 … it-1 -/
def everTrue (p : Nat → Bool) (it : Nat) : Bool := (List.range it).any p

theorem everTrue_zero (p : Nat → Bool) : everTrue p 0 = false := rfl

theorem everTrue_succ (p : Nat → Bool) (it : Nat) : everTrue p (it + 1) = (everTrue p it || p it) := by
  simp [everTrue, List.range_succ, List.any_append]

theorem everTrue_eq_true (p : Nat → Bool) (it : Nat) : everTrue p it = true ↔ ∃ j, j < it ∧ p j = true := by
  simp [everTrue, List.any_eq_true, List.mem_range]

theorem everTrue_eq_false (p : Nat → Bool) (it : Nat) : everTrue p it = false ↔ ∀ j, j < it → p j = false := by
  rw [← Bool.not_eq_true, everTrue_eq_true]
  constructor
  · intro h j hj
    cases hp : p j
    · rfl
    · exact absurd ⟨j, hj, hp⟩ h
  · rintro h ⟨j, hj, hp⟩
    rw [h j hj] at hp
    cases hp

/-- an always-assertion is violated after the event of iteration `i` -/
def Spec.violatedAt (ns : Nodes) : Spec → Nat → Bool
  | .alwaysProto T pred, i => (List.range ns.n).any (fun node => ns.isA node T && !pred i node)
  | .alwaysSim pred, i => !pred i
  | _, _ => false

/-- an eventually-assertion fails at the end of a run of `N` events -/
def Spec.neverMet (ns : Nodes) (eager : Bool) : Spec → Nat → Bool
  | .eventuallySim pred, N => !everTrue pred N
  | .eventuallyProto T pred, N =>
    (eager || decide (0 < N)) &&
      (List.range ns.n).any (fun node => ns.isA node T && !everTrue (fun j => pred j node) N)
  | _, _ => false

/-- the state of a test case after the hooks of iterations 0 … it-1 all passed -/
def stateAfter (ns : Nodes) (eager : Bool) : Spec → Nat → TState
  | .alwaysProto _ _, _ => .stateless
  | .alwaysSim _, _ => .stateless
  | .eventuallySim pred, it => .flag (everTrue pred it)
  | .eventuallyProto T pred, it =>
    .perNode (fun node =>
      if decide (node < ns.n) && ns.isA node T && (eager || decide (0 < it))
      then some (everTrue (fun j => pred j node) it) else none)

/-- a loop over distinct nodes in which each round rewrites only its own node's entry -/
theorem foldl_pointwise (c : NodeId → Bool) (g : NodeId → Option Bool → Option Bool) (l : List NodeId)
    (hl : l.Nodup) (d : NodeId → Option Bool) :
    l.foldl (fun d node => if c node then Sim.upd d node (g node (d node)) else d) d =
      fun m => if m ∈ l ∧ c m = true then g m (d m) else d m := by
  induction l generalizing d with
  | nil => funext m; simp
  | cons a l ih =>
    rw [List.nodup_cons] at hl
    rw [List.foldl_cons, ih hl.2]
    funext m
    by_cases hm : m ∈ l
    · have hma : m ≠ a := fun h => hl.1 (h ▸ hm)
      by_cases hc : c a <;> simp [hm, hma, hc, Sim.upd]
    · by_cases hma : m = a
      · subst hma
        by_cases hc : c m <;> simp [hm, hc, Sim.upd]
      · by_cases hc : c a <;> simp [hm, hma, hc, Sim.upd]

theorem registerAll_eq (ns : Nodes) (T : PType) (d : NodeId → Option Bool) :
    registerAll ns T d = fun m => if m < ns.n ∧ (ns.isA m T) = true then some false else d m := by
  have h := foldl_pointwise (fun node => ns.isA node T) (fun _ _ => some false) (List.range ns.n)
    List.nodup_range d
  simp only [List.mem_range] at h
  exact h

theorem noteAll_eq (ns : Nodes) (T : PType) (pred : NodeId → Bool) (d : NodeId → Option Bool) :
    noteAll ns T pred d = fun m => if m < ns.n ∧ (ns.isA m T) = true then
      (if pred m then some true else if (d m).isNone then some false else d m) else d m := by
  have h := foldl_pointwise (fun node => ns.isA node T)
    (fun node x => if pred node then some true else if x.isNone then some false else x) (List.range ns.n)
    List.nodup_range d
  simp only [List.mem_range] at h
  rw [← h]
  rfl

theorem init_eq_stateAfter (ns : Nodes) (eager : Bool) (s : Spec) : s.init ns eager = stateAfter ns eager s 0 := by
  cases s with
  | alwaysProto T pred => rfl
  | alwaysSim pred => rfl
  | eventuallySim pred => rfl
  | eventuallyProto T pred =>
    simp only [Spec.init, stateAfter, everTrue_zero]
    congr 1
    cases eager
    · funext m; simp
    · rw [registerAll_eq]
      funext m
      by_cases h1 : m < ns.n <;> by_cases h2 : (ns.isA m T) = true <;> simp [h1, h2]

/-- one hook call in closed form -/
theorem testIteration_stateAfter (ns : Nodes) (eager : Bool) (s : Spec) (it : Nat) :
    testIteration ns s (stateAfter ns eager s it) it =
      if s.violatedAt ns it then none else some (stateAfter ns eager s (it + 1)) := by
  cases s with
  | alwaysProto T pred =>
    simp only [testIteration, stateAfter, Spec.violatedAt]
    have : ((List.range ns.n).all fun node => !(ns.isA node T) || pred it node) =
        !((List.range ns.n).any fun node => ns.isA node T && !pred it node) := by
      rw [List.all_eq_not_any_not]
      congr 2
      funext node
      cases (ns.isA node T) <;> cases pred it node <;> rfl
    rw [this]
    by_cases h : ((List.range ns.n).any fun node => ns.isA node T && !pred it node) = true <;> simp [h]
  | alwaysSim pred =>
    simp only [testIteration, stateAfter, Spec.violatedAt]
    by_cases h : pred it = true <;> simp [h]
  | eventuallySim pred =>
    simp only [testIteration, stateAfter, Spec.violatedAt, everTrue_succ]
    cases pred it <;> simp
  | eventuallyProto T pred =>
    simp only [testIteration, stateAfter, Spec.violatedAt, noteAll_eq]
    simp only [Bool.false_eq_true, if_false, Option.some.injEq, TState.perNode.injEq]
    funext m
    rw [everTrue_succ]
    rcases Nat.eq_zero_or_pos it with rfl | h0
    · by_cases h1 : m < ns.n <;> by_cases h2 : (ns.isA m T) = true <;>
        cases eager <;> cases hp : pred 0 m <;> simp [h1, h2, hp, everTrue_zero]
    · by_cases h1 : m < ns.n <;> by_cases h2 : (ns.isA m T) = true <;>
        cases eager <;> cases hp : pred it m <;> cases he : everTrue (fun j => pred j m) it <;>
        simp [h1, h2, hp, he, h0]

def viol (ns : Nodes) (specs : List Spec) (i : Nat) : Bool := specs.any (fun s => s.violatedAt ns i)

def endFail (ns : Nodes) (eager : Bool) (specs : List Spec) (N : Nat) : Bool :=
  specs.any (fun s => s.neverMet ns eager N)

def statesAt (ns : Nodes) (eager : Bool) (specs : List Spec) (it : Nat) : List (Spec × TState) :=
  specs.map (fun s => (s, stateAfter ns eager s it))

theorem afterStep_statesAt (ns : Nodes) (eager : Bool) (specs : List Spec) (it : Nat) :
    afterStep ns it (statesAt ns eager specs it) =
      if viol ns specs it then none else some (statesAt ns eager specs (it + 1)) := by
  induction specs with
  | nil => rfl
  | cons s rest ih =>
    simp only [statesAt, List.map_cons, afterStep, viol, List.any_cons] at ih ⊢
    rw [testIteration_stateAfter]
    cases hv : s.violatedAt ns it
    · simp only [Bool.false_eq_true, if_false, Bool.false_or]
      rw [ih]
      by_cases hr : (rest.any fun s => s.violatedAt ns it) = true <;> simp [hr]
    · simp

theorem finalize_stateAfter (ns : Nodes) (eager : Bool) (s : Spec) (N : Nat) :
    finalize ns s (stateAfter ns eager s N) = !s.neverMet ns eager N := by
  cases s with
  | alwaysProto T pred => rfl
  | alwaysSim pred => rfl
  | eventuallySim pred => simp [finalize, stateAfter, Spec.neverMet]
  | eventuallyProto T pred =>
    simp only [finalize, stateAfter, Spec.neverMet]
    rw [Bool.eq_iff_iff]
    simp only [List.all_eq_true, List.mem_range, Bool.not_eq_true', Bool.and_eq_false_imp,
      List.any_eq_true, Bool.and_eq_true, Bool.or_eq_true, decide_eq_true_eq, bne_iff_ne, ne_eq,
      Bool.not_eq_eq_eq_not, Bool.not_true]
    constructor
    · intro h hg
      cases hany : (List.range ns.n).any (fun node => ns.isA node T && !everTrue (fun j => pred j node) N)
      · rfl
      · rw [List.any_eq_true] at hany
        obtain ⟨node, hmem, hnode⟩ := hany
        rw [List.mem_range] at hmem
        simp only [Bool.and_eq_true, Bool.not_eq_true'] at hnode
        have := h node hmem
        cases eager <;> simp_all
    · intro h node hnode
      by_cases hg : (eager = true ∨ 0 < N)
      · have hf := h hg
        rw [← Bool.not_eq_true, List.any_eq_true] at hf
        by_cases hT : (ns.isA node T) = true
        · cases he : everTrue (fun j => pred j node) N
          · exact absurd ⟨node, List.mem_range.mpr hnode, by simp [hT, he]⟩ hf
          · cases eager <;> simp_all
        · simp [hT]
      · have h1 : eager = false := by cases eager <;> simp_all
        have h2 : ¬ 0 < N := fun h0 => hg (Or.inr h0)
        simp [h1, h2]

theorem finalizeAll_statesAt (ns : Nodes) (eager : Bool) (specs : List Spec) (N : Nat) :
    finalizeAll ns (statesAt ns eager specs N) = !endFail ns eager specs N := by
  induction specs with
  | nil => rfl
  | cons s rest ih =>
    simp only [finalizeAll, statesAt, endFail, List.map_cons, List.all_cons, List.any_cons] at ih ⊢
    rw [ih, finalize_stateAfter]
    cases s.neverMet ns eager N <;> simp

/-- the whole run in closed form -/
theorem runLoop_spec (ns : Nodes) (eager : Bool) (specs : List Spec) (r it : Nat) :
    let res := runLoop ns r it (statesAt ns eager specs it)
    (∀ i, res.verdict = .failedAfter i ↔
      (it ≤ i ∧ i < it + r ∧ viol ns specs i = true ∧ ∀ j, it ≤ j → j < i → viol ns specs j = false)) ∧
    (res.verdict = .failedAtEnd ↔
      ((∀ j, it ≤ j → j < it + r → viol ns specs j = false) ∧ endFail ns eager specs (it + r) = true)) ∧
    (∀ i, res.verdict = .failedAfter i → res.executed = i + 1) ∧
    ((∀ i, res.verdict ≠ .failedAfter i) → res.executed = it + r) := by
  induction r generalizing it with
  | zero =>
    simp only [runLoop, finalizeAll_statesAt, Nat.add_zero]
    cases he : endFail ns eager specs it
    · simp only [Bool.not_false, if_true]
      refine ⟨?_, ?_, ?_, ?_⟩
      · intro i; constructor
        · intro h; cases h
        · rintro ⟨h1, h2, _⟩; omega
      · simp
      · intro i h; cases h
      · intro _; trivial
    · simp only [Bool.not_true, Bool.false_eq_true, if_false]
      refine ⟨?_, ?_, ?_, ?_⟩
      · intro i; constructor
        · intro h; cases h
        · rintro ⟨h1, h2, _⟩; omega
      · simp only [true_iff, and_true]
        intro j h1 h2; omega
      · intro i h; cases h
      · intro _; trivial
  | succ r ih =>
    simp only [runLoop, afterStep_statesAt]
    cases hv : viol ns specs it
    · -- the hook of iteration `it` passes
      simp only [Bool.false_eq_true, if_false]
      have ih' := ih (it + 1)
      simp only at ih'
      obtain ⟨ia, ib, ic, id⟩ := ih'
      refine ⟨?_, ?_, ?_, ?_⟩
      · intro i
        rw [ia i]
        constructor
        · rintro ⟨h1, h2, h3, h4⟩
          refine ⟨by omega, by omega, h3, ?_⟩
          intro j hj1 hj2
          by_cases hj : j = it
          · subst hj; exact hv
          · exact h4 j (by omega) hj2
        · rintro ⟨h1, h2, h3, h4⟩
          have hne : i ≠ it := by
            intro h; subst h; rw [hv] at h3; cases h3
          exact ⟨by omega, by omega, h3, fun j hj1 hj2 => h4 j (by omega) hj2⟩
      · rw [ib]
        have e : it + 1 + r = it + (r + 1) := by omega
        rw [e]
        constructor
        · rintro ⟨h1, h2⟩
          refine ⟨?_, h2⟩
          intro j hj1 hj2
          by_cases hj : j = it
          · subst hj; exact hv
          · exact h1 j (by omega) hj2
        · rintro ⟨h1, h2⟩
          exact ⟨fun j hj1 hj2 => h1 j (by omega) hj2, h2⟩
      · exact ic
      · intro h
        rw [id h]; omega
    · -- the hook of iteration `it` raises
      simp only [if_true]
      refine ⟨?_, ?_, ?_, ?_⟩
      · intro i
        constructor
        · intro h
          injection h with h
          subst h
          exact ⟨Nat.le_refl _, by omega, hv, fun j h1 h2 => by omega⟩
        · rintro ⟨h1, h2, h3, h4⟩
          by_cases hi : i = it
          · rw [hi]
          · have := h4 it (Nat.le_refl _) (by omega)
            rw [hv] at this; cases this
      · constructor
        · intro h; cases h
        · rintro ⟨h1, _⟩
          have := h1 it (Nat.le_refl _) (by omega)
          rw [hv] at this; cases this
      · intro i h
        injection h with h
        rw [h]
      · intro h
        exact absurd rfl (h it)

end Assertion
