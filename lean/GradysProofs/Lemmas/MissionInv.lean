import GradysModel.Mission
/-
  The invariant of the mission plugin model and its preservation by every operation.
  Nothing here looks inside a scalar: the outcome of `_has_reached_target` enters as an arbitrary
  Boolean (`telemetryB cfg s r`), so every statement holds for every scalar type and every rounding.
-/
set_option linter.unusedSectionVars false

namespace Mission
variable {S : Type}

/-- the part of the invariant that does not mention the command log -/
structure Pre (cfg : Config S) (s : State S) : Prop where
  /-- a mission is active: the waypoint is a valid index and the plugin is not idle -/
  active : ∀ m, s.mission = some m → ∃ w, s.wp = some w ∧ 0 ≤ w ∧ w < (m.length : Int) ∧ s.idle = false
  /-- no mission: no waypoint, idle, not reversed -/
  inactive : s.mission = none → s.wp = none ∧ s.idle = true ∧ s.reversed = false
  /-- the reversed flag is only ever set in REVERSE mode -/
  mode : cfg.loop ≠ .reverse → s.reversed = false

/-- `MInv` of DESIGN.md: `Pre` + while a mission is active the last goto issued went to `mission[wp]` -/
structure MInv (cfg : Config S) (s : State S) : Prop where
  pre : Pre cfg s
  goto : ∀ m w, s.mission = some m → s.wp = some w → lastGoto s.log = pyGet m w

theorem pyGet_nonneg {α : Type} (l : List α) (w : Int) (h0 : 0 ≤ w) : pyGet l w = l[w.toNat]? := by
  unfold pyGet; rw [if_pos h0]

theorem pyGet_of_bounds {α : Type} (l : List α) (w : Int) (h0 : 0 ≤ w) (h1 : w < (l.length : Int)) :
    ∃ p, pyGet l w = some p := by
  rw [pyGet_nonneg l w h0]
  have h : w.toNat < l.length := by omega
  exact ⟨l[w.toNat], List.getElem?_eq_getElem h⟩

theorem pyGet_natCast {α : Type} (l : List α) (i : Nat) : pyGet l (i : Int) = l[i]? := by
  rw [pyGet_nonneg l _ (Int.natCast_nonneg i)]; simp

theorem init_inv (cfg : Config S) : MInv cfg (init : State S) :=
  ⟨⟨fun m h => by simp [init] at h, fun _ => ⟨rfl, rfl, rfl⟩, fun _ => rfl⟩,
   fun m w h => by simp [init] at h⟩

/-- `_travel_to_current_waypoint` on a state satisfying `Pre`: never raises; without a mission it does
    nothing; with one it appends exactly `goto mission[wp]` -/
theorem travel_spec {cfg : Config S} {s : State S} (h : Pre cfg s) :
    (s.mission = none → travel s = (s, true)) ∧
    (∀ m, s.mission = some m → ∃ w p, s.wp = some w ∧ pyGet m w = some p ∧
      travel s = ({ s with log := .goto p :: s.log }, true)) := by
  refine ⟨fun hn => ?_, fun m hm => ?_⟩
  · have := (h.inactive hn).1
    simp [travel, this]
  · obtain ⟨w, hw, h0, h1, _⟩ := h.active m hm
    obtain ⟨p, hp⟩ := pyGet_of_bounds m w h0 h1
    exact ⟨w, p, hw, hp, by simp [travel, hw, hm, hp]⟩

theorem travel_inv {cfg : Config S} {s : State S} (h : Pre cfg s) :
    MInv cfg (travel s).1 ∧ (travel s).2 = true := by
  have sp := travel_spec h
  cases hm : s.mission with
  | none =>
    rw [sp.1 hm]
    exact ⟨⟨h, fun m w hm' => by simp [hm] at hm'⟩, rfl⟩
  | some m =>
    obtain ⟨w, p, hw, hp, ht⟩ := sp.2 m hm
    rw [ht]
    refine ⟨⟨⟨?_, ?_, ?_⟩, ?_⟩, rfl⟩
    · exact h.active
    · exact h.inactive
    · exact h.mode
    · intro m' w' hm' hw'
      have e1 : m' = m := by simpa [hm] using hm'.symm
      have e2 : w' = w := by simpa [hw] using hw'.symm
      subst e1 e2
      simp [lastGoto, hp]

theorem stop_inv (cfg : Config S) (s : State S) : MInv cfg (stopMission s) :=
  ⟨⟨fun m h => by simp [stopMission] at h, fun _ => ⟨rfl, rfl, rfl⟩, fun _ => rfl⟩,
   fun m w h => by simp [stopMission] at h⟩

theorem stop_pre (cfg : Config S) (s : State S) : Pre cfg (stopMission s) := (stop_inv cfg s).pre

/-- the state `start_mission` builds before travelling -/
theorem started_pre (cfg : Config S) (s : State S) (m : List (V3 S)) (hm : m ≠ []) :
    Pre cfg { s with mission := some m, reversed := false, idle := false, wp := some 0 } := by
  refine ⟨fun m' h' => ?_, fun h' => by simp at h', fun _ => rfl⟩
  have e : m' = m := by simpa using h'.symm
  subst e
  have : 0 < m'.length := List.length_pos_iff.mpr hm
  exact ⟨0, rfl, Int.le_refl 0, by omega, rfl⟩

theorem start_inv (cfg : Config S) (s : State S) (m : List (V3 S)) (hm : m ≠ []) :
    MInv cfg (start cfg s m).1 ∧ (start cfg s m).2 = .ok := by
  have hp := started_pre cfg s m hm
  obtain ⟨w, p, hw, hpg, ht⟩ := (travel_spec hp).2 m rfl
  have hw0 : w = 0 := by simpa using hw.symm
  subst hw0
  simp only [start, ht]
  refine ⟨⟨⟨hp.active, hp.inactive, hp.mode⟩, ?_⟩, trivial⟩
  intro m' w' hm' hw'
  have e1 : m' = m := by simpa using hm'.symm
  have e2 : w' = 0 := by simpa using hw'.symm
  subst e1 e2
  simp [lastGoto, hpg]

theorem bounceFloored_bounds (n : Nat) (hn : 0 < n) :
    0 ≤ bounceFloored (n : Int) ∧ bounceFloored (n : Int) < (n : Int) := by
  unfold bounceFloored; omega

/-- `_progress_current_waypoint` keeps `Pre`.  The reversed flag of the incoming state is arbitrary in
    REVERSE mode (this is what `set_reversed` relies on). -/
theorem progress_pre {cfg : Config S} {s : State S} (h : Pre cfg s) : Pre cfg (progress cfg s) := by
  obtain ⟨mi, wp, rev, idle, log⟩ := s
  cases mi with
  | none => simpa [progress, progressWith] using h
  | some m =>
    obtain ⟨w, hw, h0, h1, hidle⟩ := h.active m rfl
    simp only at hw hidle
    subst hw hidle
    have hlen : 0 < m.length := by omega
    have hmode := h.mode
    simp only at hmode
    have act : ∀ (w' : Int) (r : Bool), 0 ≤ w' → w' < (m.length : Int) → (cfg.loop ≠ .reverse → r = false) →
        Pre cfg (⟨some m, some w', r, false, log⟩ : State S) := fun w' r a b c =>
      ⟨fun m' h' => by
        have e : m' = m := by simpa using h'.symm
        subst e
        exact ⟨w', rfl, a, b, rfl⟩, fun h' => by simp at h', c⟩
    unfold progress progressWith
    cases rev with
    | true =>
      have hrev : cfg.loop = .reverse := by
        cases hl : cfg.loop with
        | reverse => rfl
        | no => have := hmode (by simp [hl]); simp at this
        | restart => have := hmode (by simp [hl]); simp at this
      by_cases hov : w - 1 < 0
      · simp only [Option.map_some, hasOverran, if_true, hov, decide_true, hrev]
        exact act 0 false (Int.le_refl 0) (by omega) (fun _ => rfl)
      · simp only [Option.map_some, hasOverran, if_true, hov, decide_false, Bool.false_eq_true, if_false]
        exact act (w - 1) true (by omega) (by omega) (fun hne => absurd hrev hne)
    | false =>
      by_cases hov : (m.length : Int) ≤ w + 1
      · simp only [Option.map_some, hasOverran, Bool.false_eq_true, if_false, hov, decide_true, if_true]
        cases hl : cfg.loop with
        | no => exact stop_pre cfg _
        | restart => exact act 0 false (Int.le_refl 0) (by omega) (fun _ => rfl)
        | reverse =>
          have hb := bounceFloored_bounds m.length hlen
          exact act _ true hb.1 hb.2 (fun hne => by simp [hl] at hne)
      · simp only [Option.map_some, hasOverran, Bool.false_eq_true, if_false, hov, decide_false]
        exact act (w + 1) false (by omega) (by omega) (fun _ => rfl)

theorem outOf_travel_inv {cfg : Config S} {s : State S} (h : Pre cfg s) :
    MInv cfg (outOf (travel s)).1 ∧ (outOf (travel s)).2 = .ok := by
  have := travel_inv h
  simp [outOf, this.1, this.2]

theorem setWaypoint_inv {cfg : Config S} {s : State S} (h : MInv cfg s) (i : Int) :
    MInv cfg (setWaypoint s i).1 ∧ (setWaypoint s i).2 ≠ .crash := by
  obtain ⟨mi, wp, rev, idle, log⟩ := s
  cases mi with
  | none => exact ⟨h, by simp [setWaypoint]⟩
  | some m =>
    unfold setWaypoint
    simp only
    by_cases hb : i < 0 ∨ (m.length : Int) ≤ i
    · rw [if_pos hb]; exact ⟨h, by simp⟩
    · rw [if_neg hb]
      obtain ⟨w, _, _, _, hidle⟩ := h.pre.active m rfl
      simp only at hidle
      have hp : Pre cfg (⟨some m, some i, rev, idle, log⟩ : State S) :=
        ⟨fun m' h' => by
          have e : m' = m := by simpa using h'.symm
          subst e
          exact ⟨i, rfl, by omega, by omega, hidle⟩,
         fun h' => by simp at h', h.pre.mode⟩
      have := outOf_travel_inv hp
      exact ⟨this.1, by simp [this.2]⟩

/-- flipping the reversed flag of an active REVERSE-mode mission keeps `Pre` -/
theorem flip_pre {cfg : Config S} {s : State S} (h : Pre cfg s) (hl : cfg.loop = .reverse)
    (m : List (V3 S)) (hm : s.mission = some m) (b : Bool) : Pre cfg { s with reversed := b } :=
  ⟨h.active, fun h' => by simp [hm] at h', fun hne => by simp [hl] at hne⟩

theorem setReversed_inv {cfg : Config S} {s : State S} (h : MInv cfg s) (b : Bool) :
    MInv cfg (setReversed cfg s b).1 ∧ (setReversed cfg s b).2 ≠ .crash := by
  obtain ⟨mi, wp, rev, idle, log⟩ := s
  cases mi with
  | none => exact ⟨h, by simp [setReversed, setReversedWith]⟩
  | some m =>
    unfold setReversed setReversedWith
    simp only
    by_cases hl : cfg.loop = .reverse
    · rw [if_neg (by simp [hl])]
      have hf := flip_pre h.pre hl m rfl b
      by_cases hc : (rev != b) = true
      · rw [if_pos hc]
        have := outOf_travel_inv (progress_pre hf)
        exact ⟨this.1, by simp [progress] at this; simp [this.2]⟩
      · rw [if_neg hc]
        exact ⟨⟨hf, h.goto⟩, by simp⟩
    · rw [if_pos hl]; exact ⟨h, by simp⟩

/-- the telemetry handler keeps the invariant whatever `_has_reached_target` answered -/
theorem telemetryB_inv {cfg : Config S} {s : State S} (h : MInv cfg s) (r : Bool) :
    MInv cfg (telemetryB cfg s r).1 ∧ (telemetryB cfg s r).2 = .ok := by
  obtain ⟨mi, wp, rev, idle, log⟩ := s
  cases mi with
  | none => exact ⟨h, rfl⟩
  | some m =>
    cases r with
    | false => exact ⟨h, rfl⟩
    | true =>
      have := outOf_travel_inv (progress_pre h.pre)
      simpa [telemetryB, telemetryWith, progress] using this

section
variable [Scalar S]

theorem apply_inv {cfg : Config S} {s : State S} (h : MInv cfg s) (op : Op S) (hv : op.valid) :
    MInv cfg (apply cfg s op).1 ∧ (apply cfg s op).2 ≠ .crash := by
  cases op with
  | start m => have := start_inv cfg s m hv; exact ⟨this.1, by simp [apply, this.2]⟩
  | stop => exact ⟨stop_inv cfg s, by simp [apply]⟩
  | setWaypoint i => exact setWaypoint_inv h i
  | setReversed b => exact setReversed_inv h b
  | telemetry pos => have := telemetryB_inv h (reached cfg s pos); exact ⟨this.1, by simp [apply, this.2]⟩

theorem run_inv {cfg : Config S} (ops : List (Op S)) {s : State S} (h : MInv cfg s)
    (hv : ∀ op ∈ ops, op.valid) : MInv cfg (run cfg s ops) := by
  induction ops generalizing s with
  | nil => exact h
  | cons op ops ih =>
    simp only [run, List.foldl_cons]
    exact ih (apply_inv h op (hv op List.mem_cons_self)).1 (fun o ho => hv o (List.mem_cons_of_mem _ ho))

theorem run_append (cfg : Config S) (s : State S) (a b : List (Op S)) :
    run cfg s (a ++ b) = run cfg (run cfg s a) b := by
  simp [run, List.foldl_append]

end
end Mission
