import GradysProofs.Lemmas.SimAcc
/-
  The per-node part of one mobility update over an arbitrary duplicate-free list of node ids.
-/
set_option linter.unusedSectionVars false

namespace C12
open Sim
variable {S σ : Type} [Scalar S]

/-- the per-node part of the update, over an arbitrary duplicate-free list of node ids -/
def tickNodes (cfg : Config S) (ns : List NodeId) (w : World S σ) : World S σ :=
  ns.foldl (fun w n =>
    let p := Mobility.step cfg.dtS (w.pos n) (w.target n) (w.speed n)
    sched w.loop.now (.telemetry n p) { w with pos := upd w.pos n p }) w

/-- new position of node `n` computed from the state before the update -/
def newPos (cfg : Config S) (w : World S σ) (n : NodeId) : V3 S :=
  Mobility.step cfg.dtS (w.pos n) (w.target n) (w.speed n)

theorem tickNodes_spec (cfg : Config S) (ns : List NodeId) (hnd : ns.Nodup) (w : World S σ) :
    (∀ m, (tickNodes cfg ns w).pos m = if m ∈ ns then newPos cfg w m else w.pos m) ∧
    (tickNodes cfg ns w).target = w.target ∧ (tickNodes cfg ns w).speed = w.speed ∧
    (tickNodes cfg ns w).loop.now = w.loop.now ∧
    ∃ new, (tickNodes cfg ns w).raccepted = new ++ w.raccepted ∧
      new.reverse.map (fun e => (e.ts, e.kind)) =
        ns.map (fun n => (w.loop.now, EvKind.telemetry n (newPos cfg w n))) := by
  induction ns generalizing w with
  | nil => exact ⟨fun m => by simp [tickNodes], rfl, rfl, rfl, [], rfl, rfl⟩
  | cons n ns ih =>
    have hnd' := (List.nodup_cons.mp hnd)
    let w1 : World S σ := sched w.loop.now (.telemetry n (newPos cfg w n)) { w with pos := upd w.pos n (newPos cfg w n) }
    have hstep : tickNodes cfg (n :: ns) w = tickNodes cfg ns w1 := rfl
    obtain ⟨hpos, htg, hsp, hnow, new, hacc, hmap⟩ := ih hnd'.2 w1
    have hw1pos : ∀ m, m ≠ n → w1.pos m = w.pos m := by
      intro m hm; show upd w.pos n _ m = _; simp [upd, hm]
    have hnp : ∀ m, m ≠ n → newPos cfg w1 m = newPos cfg w m := by
      intro m hm; unfold newPos; rw [hw1pos m hm]; rfl
    rw [hstep]
    refine ⟨?_, htg, hsp, hnow, new ++ [⟨w.loop.now, w.loop.nextSeq, .telemetry n (newPos cfg w n)⟩], ?_, ?_⟩
    · intro m
      rw [hpos m]
      by_cases hmn : m = n
      · subst hmn
        simp only [hnd'.1, if_false, List.mem_cons, true_or, if_true]
        show upd w.pos m _ m = _
        simp [upd]
      · by_cases hm : m ∈ ns
        · simp only [hm, if_true, List.mem_cons, or_true]; exact hnp m hmn
        · simp only [hm, if_false, List.mem_cons, hmn, or_self]; exact hw1pos m hmn
    · rw [hacc]; simp [w1]
    · rw [List.reverse_append, List.map_append, hmap]
      simp only [List.reverse_cons, List.reverse_nil, List.nil_append, List.map_cons, List.map_nil,
        List.singleton_append, List.cons.injEq, true_and]
      apply List.map_congr_left
      intro m hm
      have : m ≠ n := fun h => hnd'.1 (h ▸ hm)
      rw [hnp m this]; rfl

end C12
