import GradysModel.Heap
import GradysProofs.Lemmas.Queue
/-
  The port of `heapq.py` (`GradysModel/Heap.lean`) is a correct priority queue whenever `lt` is a
  strict weak order on the elements present (`StrictWeakOn lt P`: irreflexive, transitive, `¬ >`
  transitive, all three only required of elements satisfying `P`).  Every `lt` that is a strict
  total order on the elements present is one (`StrictWeakOn.of_total`), and so is the (ts, seq) order
  on all events whatever their payload (`keyLtb_strictWeak`).  For the (ts, seq) order the heap
  refines the sorted-list queue of `GradysModel/Queue.lean`.
-/

namespace Heap
variable {α : Type}

/-! ### the order -/

/-- strict weak order on the elements satisfying `P`, as a `Bool`-valued `<` (what
    `Event.__lt__` is) -/
structure StrictWeakOn (lt : α → α → Bool) (P : α → Prop) : Prop where
  irrefl : ∀ a, P a → lt a a = false
  trans : ∀ a b c, P a → P b → P c → lt a b = true → lt b c = true → lt a c = true
  /-- `≤` (i.e. `¬ >`) is transitive -/
  negtrans : ∀ a b c, P a → P b → P c → lt a b = false → lt b c = false → lt a c = false

/-- strict weak order on the whole type -/
abbrev StrictWeak (lt : α → α → Bool) : Prop := StrictWeakOn lt (fun _ => True)

theorem StrictWeakOn.asymm {lt : α → α → Bool} {P : α → Prop} (sw : StrictWeakOn lt P) {a b : α}
    (ha : P a) (hb : P b) (hab : lt a b = true) : lt b a = false := by
  cases hba : lt b a with
  | false => rfl
  | true =>
    have := sw.trans a b a ha hb ha hab hba
    rw [sw.irrefl a ha] at this
    cases this

/-- a strict total order on the elements present (irreflexive, transitive, total on distinct
    elements) is a strict weak order on them -/
theorem StrictWeakOn.of_total {lt : α → α → Bool} {P : α → Prop} (irrefl : ∀ a, P a → lt a a = false)
    (trans : ∀ a b c, P a → P b → P c → lt a b = true → lt b c = true → lt a c = true)
    (total : ∀ a b, P a → P b → a ≠ b → lt a b = true ∨ lt b a = true) : StrictWeakOn lt P where
  irrefl := irrefl
  trans := trans
  negtrans := by
    intro a b c ha hb hc hab hbc
    cases hac : lt a c with
    | false => rfl
    | true =>
      -- a < c, ¬ a < b, ¬ b < c
      have hab' : a = b ∨ lt b a = true := by
        by_cases h : a = b
        · exact Or.inl h
        · rcases total a b ha hb h with h' | h'
          · rw [hab] at h'; cases h'
          · exact Or.inr h'
      rcases hab' with rfl | hba
      · rw [hbc] at hac; cases hac
      · have := trans b a c hb ha hc hba hac
        rw [hbc] at this; cases this

/-- every element of the array satisfies `P` -/
def AllP (P : α → Prop) (a : Array α) : Prop := ∀ i (hi : i < a.size), P a[i]

theorem AllP.of_true (a : Array α) : AllP (fun _ => True) a := fun _ _ => trivial

theorem AllP.set {P : α → Prop} {a : Array α} (h : AllP P a) (i : Nat) {x : α} (hx : P x) :
    AllP P (a.setIfInBounds i x) := by
  intro k hk
  simp only [Array.size_setIfInBounds] at hk
  rw [Array.getElem_setIfInBounds]
  split
  · exact hx
  · exact h k hk

theorem AllP.of_set {P : α → Prop} {a : Array α} {i : Nat} {x y : α}
    (h : AllP P (a.setIfInBounds i x)) (hy : P y) : AllP P (a.setIfInBounds i y) := by
  intro k hk
  by_cases hik : i = k
  · subst hik
    rw [Array.getElem_setIfInBounds_self]
    exact hy
  · have hk' : k < a.size := by simpa using hk
    have := h k (by simpa using hk)
    rw [Array.getElem_setIfInBounds_ne hk' hik] at this
    rw [Array.getElem_setIfInBounds_ne hk' hik]
    exact this

theorem AllP.mem {P : α → Prop} {a : Array α} (h : AllP P a) : ∀ y ∈ a.toList, P y := by
  intro y hy
  obtain ⟨i, hi, rfl⟩ := List.mem_iff_getElem.mp hy
  exact h i (by simpa using hi)

theorem AllP.of_mem {P : α → Prop} {a : Array α} (h : ∀ y ∈ a.toList, P y) : AllP P a := by
  intro i hi
  exact h _ (by simp)

/-! ### the heap invariant -/

/-- parent ≤ child: `∀ i > 0, ¬ a[i] < a[(i-1)/2]` -/
def HeapInv (lt : α → α → Bool) (a : Array α) : Prop :=
  ∀ i (hi : i < a.size), 0 < i → lt a[i] (a[(i - 1) / 2]'(by omega)) = false

theorem HeapInv_empty (lt : α → α → Bool) : HeapInv lt (#[] : Array α) := by
  intro i hi; simp at hi

/-- the root of a valid heap is minimal -/
theorem HeapInv.root_min {lt : α → α → Bool} {P : α → Prop} (sw : StrictWeakOn lt P) {a : Array α}
    (hall : AllP P a) (h : HeapInv lt a) :
    ∀ i (hi : i < a.size), lt a[i] (a[0]'(by omega)) = false := by
  intro i
  induction i using Nat.strongRecOn with
  | _ i ih =>
    intro hi
    by_cases h0 : i = 0
    · subst h0; exact sw.irrefl _ (hall 0 hi)
    · have hp : (i - 1) / 2 < i := by omega
      exact sw.negtrans _ _ _ (hall _ _) (hall _ _) (hall _ _) (h i hi (by omega)) (ih _ hp (by omega))

/-! ### `_siftdown`

  `a` is the logical array (the hole at `pos` filled with `newitem`).  `SDInv a pos`: the heap
  property holds on every edge except the one above `pos`, and the children of `pos` are not
  smaller than the parent of `pos`. -/

structure SDInv (lt : α → α → Bool) (a : Array α) (pos : Nat) : Prop where
  pos_lt : pos < a.size
  up : ∀ i (hi : i < a.size), 0 < i → i ≠ pos → lt a[i] (a[(i - 1) / 2]'(by omega)) = false
  gp : ∀ c (hc : c < a.size), 0 < pos → 0 < c → (c - 1) / 2 = pos →
    lt a[c] (a[(pos - 1) / 2]'(by omega)) = false

theorem SDInv.step {lt : α → α → Bool} {P : α → Prop} (sw : StrictWeakOn lt P) {a : Array α}
    {pos : Nat} (hall : AllP P a) (inv : SDInv lt a pos) (h0 : 0 < pos)
    (hlt : lt (a[pos]'inv.pos_lt) (a[(pos - 1) / 2]'(by have := inv.pos_lt; omega)) = true) :
    SDInv lt (a.swap pos ((pos - 1) / 2) inv.pos_lt (by have := inv.pos_lt; omega)) ((pos - 1) / 2) := by
  have hpl := inv.pos_lt
  have hasym := sw.asymm (hall _ _) (hall _ _) hlt
  refine ⟨by simp; omega, ?_, ?_⟩
  · intro i hi hi0 hne
    simp only [Array.size_swap] at hi
    have e1 := inv.up i hi hi0
    have e2 := inv.gp i hi h0 hi0
    have nt := sw.negtrans a[i] (a[(pos - 1) / 2]'(by omega)) a[pos] (hall _ _) (hall _ _) (hall _ _)
    grind
  · intro c hc hpp hc0 hcp
    simp only [Array.size_swap] at hc
    have e1 := inv.up c hc hc0
    have e2 := inv.up ((pos - 1) / 2) (by omega) hpp (by omega)
    have nt := sw.negtrans a[c] (a[(pos - 1) / 2]'(by omega)) (a[((pos - 1) / 2 - 1) / 2]'(by omega))
      (hall _ _) (hall _ _) (hall _ _)
    grind

/-- the loop stops: the edge above `pos` is in order too (or `pos` is the root) -/
theorem SDInv.close {lt : α → α → Bool} {a : Array α} {pos : Nat} (inv : SDInv lt a pos)
    (h : ∀ (_ : 0 < pos), lt (a[pos]'inv.pos_lt) (a[(pos - 1) / 2]'(by have := inv.pos_lt; omega)) = false) :
    HeapInv lt a := by
  intro i hi hi0
  by_cases hip : i = pos
  · subst hip; exact h hi0
  · exact inv.up i hi hi0 hip

/-- moving the parent (resp. child) into the hole and the hole to the parent (resp. child) is a
    swap of the logical array -/
theorem set_set_eq_swap (g : Array α) (i j : Nat) (x : α) (hi : i < g.size) (hj : j < g.size)
    (hij : i ≠ j) :
    (g.setIfInBounds i g[j]).setIfInBounds j x
      = (g.setIfInBounds i x).swap i j (by simpa using hi) (by simpa using hj) := by
  apply Array.ext
  · simp
  · intro k hk1 hk2
    simp only [Array.size_setIfInBounds] at hk1
    simp only [Array.getElem_swap]
    grind

theorem siftdown_spec {lt : α → α → Bool} {P : α → Prop} (sw : StrictWeakOn lt P) :
    ∀ (fuel : Nat) (g : Array α) (pos : Nat) (x : α), pos ≤ fuel →
      AllP P (g.setIfInBounds pos x) → SDInv lt (g.setIfInBounds pos x) pos →
      HeapInv lt (siftdown lt g 0 pos x fuel) ∧
      (siftdown lt g 0 pos x fuel).toList.Perm (g.setIfInBounds pos x).toList := by
  intro fuel
  induction fuel with
  | zero =>
    intro g pos x hf hall inv
    have : pos = 0 := by omega
    subst this
    exact ⟨inv.close (fun h => absurd h (Nat.lt_irrefl 0)), List.Perm.refl _⟩
  | succ n ih =>
    intro g pos x hf hall inv
    have hpl : pos < g.size := by simpa using inv.pos_lt
    unfold siftdown
    by_cases h0 : pos > 0
    · have hp : (pos - 1) / 2 < g.size := by omega
      rw [if_pos h0, dif_pos hp]
      simp only []
      have hne : pos ≠ (pos - 1) / 2 := by omega
      by_cases hlt : lt x g[(pos - 1) / 2] = true
      · rw [if_pos hlt]
        have hlt' : lt ((g.setIfInBounds pos x)[pos]'inv.pos_lt)
            ((g.setIfInBounds pos x)[(pos - 1) / 2]'(by simpa using hp)) = true := by
          rw [Array.getElem_setIfInBounds_self, Array.getElem_setIfInBounds_ne _ hne]
          exact hlt
        have inv' := inv.step sw hall h0 hlt'
        rw [← set_set_eq_swap g pos ((pos - 1) / 2) x hpl hp hne] at inv'
        have hx : P x := by
          have := hall pos inv.pos_lt
          rwa [Array.getElem_setIfInBounds_self] at this
        have hpp : P g[(pos - 1) / 2] := by
          have := hall ((pos - 1) / 2) (by simpa using hp)
          rwa [Array.getElem_setIfInBounds_ne _ hne] at this
        obtain ⟨r1, r2⟩ := ih (g.setIfInBounds pos g[(pos - 1) / 2]) ((pos - 1) / 2) x (by omega)
          ((hall.of_set hpp).set _ hx) inv'
        refine ⟨r1, r2.trans ?_⟩
        rw [set_set_eq_swap g pos ((pos - 1) / 2) x hpl hp hne]
        exact (Array.swap_perm _ _).toList
      · rw [if_neg hlt]
        refine ⟨inv.close (fun _ => ?_), List.Perm.refl _⟩
        rw [Array.getElem_setIfInBounds_self, Array.getElem_setIfInBounds_ne _ hne]
        exact Bool.not_eq_true _ ▸ hlt
    · rw [if_neg h0]
      exact ⟨inv.close (fun h => absurd h h0), List.Perm.refl _⟩

/-- fuel: once `pos ≤ fuel` the result of `_siftdown` does not depend on the fuel (the loop has
    terminated by itself) -/
theorem siftdown_fuel_succ (lt : α → α → Bool) (sp : Nat) (x : α) :
    ∀ (fuel : Nat) (g : Array α) (pos : Nat), pos ≤ fuel + sp →
      siftdown lt g sp pos x (fuel + 1) = siftdown lt g sp pos x fuel := by
  intro fuel
  induction fuel with
  | zero =>
    intro g pos hf
    have : ¬ pos > sp := by omega
    simp [siftdown, this]
  | succ n ih =>
    intro g pos hf
    rw [siftdown.eq_def lt g sp pos x (n + 1 + 1), siftdown.eq_def lt g sp pos x (n + 1)]
    simp only
    split
    · split
      · split
        · exact ih _ _ (by omega)
        · rfl
      · rfl
    · rfl

theorem siftdown_fuel_irrelevant (lt : α → α → Bool) (g : Array α) (sp pos : Nat) (x : α)
    (f1 f2 : Nat) (h1 : pos ≤ f1 + sp) (h2 : pos ≤ f2 + sp) :
    siftdown lt g sp pos x f1 = siftdown lt g sp pos x f2 := by
  have key : ∀ d f, pos ≤ f + sp → siftdown lt g sp pos x (f + d) = siftdown lt g sp pos x f := by
    intro d
    induction d with
    | zero => intro f _; rfl
    | succ d ihd =>
      intro f hf
      rw [← Nat.add_assoc, siftdown_fuel_succ lt sp x (f + d) g pos (by omega)]
      exact ihd f hf
  rcases Nat.le_total f1 f2 with h | h
  · obtain ⟨d, rfl⟩ := Nat.exists_eq_add_of_le h
    exact (key d f1 h1).symm
  · obtain ⟨d, rfl⟩ := Nat.exists_eq_add_of_le h
    exact key d f2 h2

/-! ### `heappush` -/

theorem heappush_spec_on {lt : α → α → Bool} {P : α → Prop} (sw : StrictWeakOn lt P) {h : Array α}
    (hall : AllP P h) (hinv : HeapInv lt h) (x : α) (hx : P x) :
    HeapInv lt (heappush lt h x) ∧ (heappush lt h x).toList.Perm (x :: h.toList) := by
  have hset : (h.push x).setIfInBounds h.size x = h.push x := by
    apply Array.ext
    · simp
    · intro k hk1 hk2
      simp only [Array.getElem_push]
      grind
  have inv : SDInv lt ((h.push x).setIfInBounds h.size x) h.size := by
    rw [hset]
    refine ⟨by simp, ?_, ?_⟩
    · intro i hi hi0 hne
      simp only [Array.size_push] at hi
      have := hinv i (by omega) hi0
      simp only [Array.getElem_push]
      rw [dif_pos (by omega), dif_pos (by omega)]
      exact this
    · intro c hc hpos hc0 hcp
      simp only [Array.size_push] at hc
      omega
  have hall' : AllP P ((h.push x).setIfInBounds h.size x) := by
    rw [hset]
    intro i hi
    rw [Array.getElem_push]
    split
    · exact hall _ _
    · exact hx
  have := siftdown_spec sw (h.size + 1) (h.push x) h.size x (by omega) hall' inv
  rw [hset] at this
  unfold heappush
  simp only [Array.size_push, Nat.add_sub_cancel]
  refine ⟨this.1, this.2.trans ?_⟩
  simp only [Array.toList_push]
  exact List.perm_append_singleton x h.toList

theorem heappush_spec {lt : α → α → Bool} (sw : StrictWeak lt) {h : Array α} (hinv : HeapInv lt h)
    (x : α) :
    HeapInv lt (heappush lt h x) ∧ (heappush lt h x).toList.Perm (x :: h.toList) :=
  heappush_spec_on sw (AllP.of_true h) hinv x trivial

/-- fuel: `heappush` is `_siftdown` run to completion — any fuel `≥ len(heap) - 1` gives the same result -/
theorem heappush_fuel (lt : α → α → Bool) (h : Array α) (x : α) (fuel : Nat) (hf : h.size ≤ fuel) :
    siftdown lt (h.push x) 0 h.size x fuel = heappush lt h x := by
  unfold heappush
  simp only [Array.size_push, Nat.add_sub_cancel]
  exact siftdown_fuel_irrelevant lt _ 0 _ x _ _ (by omega) (by omega)

/-! ### the loop of `_siftup`

  `g` is the array with a hole at `pos` (the value stored there is never read).  `SUInv g pos`: the
  heap property holds on every edge not touching `pos`, and the children of `pos` are not smaller
  than the parent of `pos`. -/

structure SUInv (lt : α → α → Bool) (g : Array α) (pos : Nat) : Prop where
  pos_lt : pos < g.size
  up : ∀ i (hi : i < g.size), 0 < i → i ≠ pos → (i - 1) / 2 ≠ pos →
    lt g[i] (g[(i - 1) / 2]'(by omega)) = false
  gp : ∀ c (hc : c < g.size), 0 < pos → 0 < c → (c - 1) / 2 = pos →
    lt g[c] (g[(pos - 1) / 2]'(by omega)) = false

/-- the child picked is one of the two, and no child is smaller than it -/
theorem pickChild_spec {lt : α → α → Bool} {P : α → Prop} (sw : StrictWeakOn lt P) (g : Array α)
    (hall : AllP P g) (cp : Nat) (hc : cp < g.size) :
    ∃ c, ∃ hcl : c < g.size, pickChild lt g cp hc = ⟨c, hcl⟩ ∧ (c = cp ∨ c = cp + 1) ∧
      ∀ s (hs : s < g.size), s = cp ∨ s = cp + 1 → lt g[s] g[c] = false := by
  unfold pickChild
  by_cases hr : cp + 1 < g.size
  · by_cases hlt : lt g[cp] g[cp + 1] = true
    · refine ⟨cp, hc, by rw [dif_pos hr, if_pos hlt], Or.inl rfl, ?_⟩
      intro s hs hsc
      rcases hsc with rfl | rfl
      · exact sw.irrefl _ (hall _ _)
      · exact sw.asymm (hall _ _) (hall _ _) hlt
    · refine ⟨cp + 1, hr, by rw [dif_pos hr, if_neg hlt], Or.inr rfl, ?_⟩
      intro s hs hsc
      rcases hsc with rfl | rfl
      · exact Bool.not_eq_true _ ▸ hlt
      · exact sw.irrefl _ (hall _ _)
  · refine ⟨cp, hc, by rw [dif_neg hr], Or.inl rfl, ?_⟩
    intro s hs hsc
    rcases hsc with rfl | rfl
    · exact sw.irrefl _ (hall _ _)
    · omega

/-- (order-free part) the child picked is one of the two -/
theorem pickChild_val (lt : α → α → Bool) (g : Array α) (cp : Nat) (hc : cp < g.size) :
    (pickChild lt g cp hc).val = cp ∨ (pickChild lt g cp hc).val = cp + 1 := by
  unfold pickChild
  split
  · split
    · exact Or.inl rfl
    · exact Or.inr rfl
  · exact Or.inl rfl

theorem SUInv.step {lt : α → α → Bool} {g : Array α} {pos c : Nat}
    (inv : SUInv lt g pos) (hcl : c < g.size) (hcv : c = 2 * pos + 1 ∨ c = 2 * pos + 1 + 1)
    (hmin : ∀ s (hs : s < g.size), s = 2 * pos + 1 ∨ s = 2 * pos + 1 + 1 → lt g[s] g[c] = false) :
    SUInv lt (g.setIfInBounds pos g[c]) c := by
  refine ⟨by simpa using hcl, ?_, ?_⟩
  · intro i hi hi0 hne hpne
    simp only [Array.size_setIfInBounds] at hi
    have e1 := inv.up i hi hi0
    have e2 := inv.gp c hcl
    have e3 := hmin i hi
    grind
  · intro d hd _ hd0 hdp
    simp only [Array.size_setIfInBounds] at hd
    have e1 := inv.up d hd hd0
    grind

theorem siftupLoop_spec {lt : α → α → Bool} {P : α → Prop} (sw : StrictWeakOn lt P) :
    ∀ (fuel : Nat) (g : Array α) (pos : Nat), g.size ≤ fuel + pos → AllP P g → SUInv lt g pos →
      SUInv lt (siftupLoop lt g pos fuel).1 (siftupLoop lt g pos fuel).2 ∧
      (siftupLoop lt g pos fuel).1.size ≤ 2 * (siftupLoop lt g pos fuel).2 + 1 ∧
      (siftupLoop lt g pos fuel).1.size = g.size ∧
      ∀ x, ((siftupLoop lt g pos fuel).1.setIfInBounds (siftupLoop lt g pos fuel).2 x).toList.Perm
        (g.setIfInBounds pos x).toList := by
  intro fuel
  induction fuel with
  | zero =>
    intro g pos hf _ inv
    have := inv.pos_lt
    omega
  | succ n ih =>
    intro g pos hf hall inv
    have hpl := inv.pos_lt
    unfold siftupLoop
    by_cases hc : 2 * pos + 1 < g.size
    · rw [dif_pos hc]
      obtain ⟨c, hcl, he, hcv, hmin⟩ := pickChild_spec sw g hall (2 * pos + 1) hc
      simp only [he]
      have inv' := inv.step hcl hcv hmin
      obtain ⟨r1, r2, r3, r4⟩ := ih (g.setIfInBounds pos g[c]) c (by simp; omega)
        (hall.set _ (hall c hcl)) inv'
      refine ⟨r1, r2, by simpa using r3, ?_⟩
      intro x
      refine (r4 x).trans ?_
      rw [set_set_eq_swap g pos c x hpl hcl (by omega)]
      exact (Array.swap_perm _ _).toList
    · rw [dif_neg hc]
      exact ⟨inv, by simp only []; omega, rfl, fun x => List.Perm.refl _⟩

/-- fuel: once `len(heap) - pos ≤ fuel` the result of the `_siftup` loop does not depend on the fuel -/
theorem siftupLoop_fuel_succ (lt : α → α → Bool) :
    ∀ (fuel : Nat) (g : Array α) (pos : Nat), g.size ≤ fuel + pos →
      siftupLoop lt g pos (fuel + 1) = siftupLoop lt g pos fuel := by
  intro fuel
  induction fuel with
  | zero =>
    intro g pos hf
    have : ¬ 2 * pos + 1 < g.size := by omega
    simp [siftupLoop, this]
  | succ n ih =>
    intro g pos hf
    rw [siftupLoop.eq_def lt g pos (n + 1 + 1), siftupLoop.eq_def lt g pos (n + 1)]
    simp only
    split
    · rename_i hc
      have := pickChild_val lt g (2 * pos + 1) hc
      exact ih _ _ (by simp; omega)
    · rfl

theorem siftupLoop_fuel_irrelevant (lt : α → α → Bool) (g : Array α) (pos : Nat)
    (f1 f2 : Nat) (h1 : g.size ≤ f1 + pos) (h2 : g.size ≤ f2 + pos) :
    siftupLoop lt g pos f1 = siftupLoop lt g pos f2 := by
  have key : ∀ d f, g.size ≤ f + pos → siftupLoop lt g pos (f + d) = siftupLoop lt g pos f := by
    intro d
    induction d with
    | zero => intro f _; rfl
    | succ d ihd =>
      intro f hf
      rw [← Nat.add_assoc, siftupLoop_fuel_succ lt (f + d) g pos (by omega)]
      exact ihd f hf
  rcases Nat.le_total f1 f2 with h | h
  · obtain ⟨d, rfl⟩ := Nat.exists_eq_add_of_le h
    exact (key d f1 h1).symm
  · obtain ⟨d, rfl⟩ := Nat.exists_eq_add_of_le h
    exact key d f2 h2

/-- at a leaf the hole can be filled: the `_siftup` invariant becomes the `_siftdown` invariant -/
theorem SUInv.toSD {lt : α → α → Bool} {g : Array α} {pos : Nat} (inv : SUInv lt g pos)
    (hleaf : g.size ≤ 2 * pos + 1) (x : α) : SDInv lt (g.setIfInBounds pos x) pos := by
  have hpl := inv.pos_lt
  refine ⟨by simpa using hpl, ?_, ?_⟩
  · intro i hi hi0 hne
    simp only [Array.size_setIfInBounds] at hi
    have e1 := inv.up i hi hi0 hne (by omega)
    grind
  · intro c hc _ hc0 hcp
    simp only [Array.size_setIfInBounds] at hc
    omega

/-! ### `heappop` -/

theorem heappop_empty (lt : α → α → Bool) (h : Array α) (hs : h.size = 0) : heappop lt h = none := by
  unfold heappop
  rw [dif_pos hs]

theorem heappop_eq_none_iff (lt : α → α → Bool) (h : Array α) : heappop lt h = none ↔ h.size = 0 := by
  constructor
  · intro hn
    unfold heappop at hn
    by_cases hs : h.size = 0
    · exact hs
    · rw [dif_neg hs] at hn
      simp only [] at hn
      split at hn <;> cases hn
  · exact heappop_empty lt h

theorem pop_push_last (h : Array α) (hne : 0 < h.size) : h.pop.push (h[h.size - 1]) = h := by
  apply Array.ext
  · simp; omega
  · intro k hk1 hk2
    simp only [Array.getElem_push, Array.getElem_pop]
    grind

theorem perm_replace_head (l : List α) (hl : 0 < l.length) (last : α) :
    (last :: l).Perm (l[0] :: l.set 0 last) := by
  cases l with
  | nil => simp at hl
  | cons a t =>
    simp only [List.set_cons_zero, List.getElem_cons_zero]
    exact List.Perm.swap _ _ _

/-- `heappop` on a non-empty valid heap returns the root, leaves a valid heap, and the old contents
    are the returned element plus the new contents -/
theorem heappop_spec_on {lt : α → α → Bool} {P : α → Prop} (sw : StrictWeakOn lt P) {h : Array α}
    (hall : AllP P h) (hinv : HeapInv lt h) (hne : 0 < h.size) :
    ∃ h', heappop lt h = some (h[0], h') ∧ HeapInv lt h' ∧ h.toList.Perm (h[0] :: h'.toList) := by
  have hpp := pop_push_last h hne
  have hperm0 : h.toList.Perm (h[h.size - 1] :: h.pop.toList) := by
    conv => lhs; rw [← hpp]
    simp only [Array.toList_push]
    exact List.perm_append_singleton _ _
  unfold heappop
  rw [dif_neg (by omega)]
  simp only []
  by_cases hs' : h.pop.size = 0
  · rw [dif_pos hs']
    have h1 : h.size = 1 := by simp at hs'; omega
    have e : h[h.size - 1] = h[0] := by simp [h1]
    refine ⟨h.pop, by rw [e], ?_, by rw [← e]; exact hperm0⟩
    intro i hi; omega
  · rw [dif_neg hs']
    have hgs : h.pop.size = h.size - 1 := by simp
    have hg0 : h.pop[0] = h[0] := by simp
    rw [hg0]
    refine ⟨_, rfl, ?_⟩
    -- the `_siftup` loop from the root
    have inv0 : SUInv lt (h.pop.setIfInBounds 0 h[h.size - 1]) 0 := by
      refine ⟨by simp; omega, ?_, ?_⟩
      · intro i hi hi0 _ hp0
        simp only [Array.size_setIfInBounds, Array.size_pop] at hi
        have := hinv i (by omega) hi0
        grind
      · intro c hc h00; omega
    have hlast : P h[h.size - 1] := hall _ _
    have hall0 : AllP P (h.pop.setIfInBounds 0 h[h.size - 1]) := by
      refine AllP.set ?_ _ hlast
      intro i hi
      rw [Array.getElem_pop]
      exact hall _ _
    obtain ⟨r1, r2, r3, r4⟩ := siftupLoop_spec sw h.pop.size (h.pop.setIfInBounds 0 h[h.size - 1]) 0
      (by simp) hall0 inv0
    generalize siftupLoop lt (h.pop.setIfInBounds 0 h[h.size - 1]) 0 h.pop.size = r at r1 r2 r3 r4 ⊢
    have hidem : (r.1.setIfInBounds r.2 h[h.size - 1]).setIfInBounds r.2 h[h.size - 1]
        = r.1.setIfInBounds r.2 h[h.size - 1] := by
      rw [Array.setIfInBounds_setIfInBounds]
    have inv1 := r1.toSD r2 h[h.size - 1]
    have hr2 : r.2 < h.pop.size := by
      have := r1.pos_lt
      simp only [Array.size_setIfInBounds] at r3
      omega
    have hall1 : AllP P (r.1.setIfInBounds r.2 h[h.size - 1]) := by
      have hm : ∀ y ∈ (r.1.setIfInBounds r.2 h[h.size - 1]).toList, P y := by
        intro y hy
        have := (r4 h[h.size - 1]).mem_iff.mp hy
        rw [Array.setIfInBounds_setIfInBounds] at this
        exact hall0.mem y this
      exact AllP.of_mem hm
    have := siftdown_spec sw h.pop.size (r.1.setIfInBounds r.2 h[h.size - 1]) r.2 h[h.size - 1]
      (by omega) (by rw [hidem]; exact hall1) (by rw [hidem]; exact inv1)
    rw [hidem] at this
    refine ⟨this.1, ?_⟩
    -- contents
    have p1 := this.2.trans (r4 h[h.size - 1])
    rw [Array.setIfInBounds_setIfInBounds] at p1
    refine hperm0.trans ?_
    have hg0' : h[0] = h.pop.toList[0]'(by simp; omega) := by simp
    rw [hg0']
    refine List.Perm.trans ?_ (List.Perm.cons _ p1.symm)
    simp only [Array.toList_setIfInBounds]
    exact perm_replace_head _ _ _

theorem heappop_spec {lt : α → α → Bool} (sw : StrictWeak lt) {h : Array α} (hinv : HeapInv lt h)
    (hne : 0 < h.size) :
    ∃ h', heappop lt h = some (h[0], h') ∧ HeapInv lt h' ∧ h.toList.Perm (h[0] :: h'.toList) :=
  heappop_spec_on sw (AllP.of_true h) hinv hne

/-- the element `heappop` returns is minimal: no element of the heap is smaller -/
theorem heappop_min_on {lt : α → α → Bool} {P : α → Prop} (sw : StrictWeakOn lt P) {h : Array α}
    (hall : AllP P h) (hinv : HeapInv lt h) {e : α} {h' : Array α}
    (hp : heappop lt h = some (e, h')) : ∀ y ∈ h.toList, lt y e = false := by
  have hne : 0 < h.size := by
    rcases Nat.eq_zero_or_pos h.size with h0 | h0
    · rw [heappop_empty lt h h0] at hp; cases hp
    · exact h0
  obtain ⟨h'', he, -, -⟩ := heappop_spec_on sw hall hinv hne
  rw [he] at hp
  injection hp with hp
  injection hp with hp1 hp2
  subst hp1
  intro y hy
  obtain ⟨i, hi, rfl⟩ := List.mem_iff_getElem.mp hy
  simp only [Array.length_toList] at hi
  simpa using hinv.root_min sw hall i hi

theorem heappop_min {lt : α → α → Bool} (sw : StrictWeak lt) {h : Array α} (hinv : HeapInv lt h)
    {e : α} {h' : Array α} (hp : heappop lt h = some (e, h')) : ∀ y ∈ h.toList, lt y e = false :=
  heappop_min_on sw (AllP.of_true h) hinv hp

/-! ### fuel of `heappop`: the array size the port passes is enough -/

theorem siftupLoop_bounds (lt : α → α → Bool) :
    ∀ (fuel : Nat) (g : Array α) (pos : Nat), pos < g.size →
      (siftupLoop lt g pos fuel).1.size = g.size ∧ (siftupLoop lt g pos fuel).2 < g.size := by
  intro fuel
  induction fuel with
  | zero => intro g pos hp; exact ⟨rfl, hp⟩
  | succ n ih =>
    intro g pos hp
    unfold siftupLoop
    split
    · rename_i hc
      have := ih (g.setIfInBounds pos g[(pickChild lt g (2 * pos + 1) hc).val])
        (pickChild lt g (2 * pos + 1) hc).val (by simp)
      simpa using this
    · exact ⟨rfl, hp⟩

/-- `heappop` with the fuel of its two loops explicit -/
def heappopFuel (lt : α → α → Bool) (h : Array α) (f1 f2 : Nat) : Option (α × Array α) :=
  if hs : h.size = 0 then none else
  let lastelt := h[h.size - 1]
  let h := h.pop
  if hs' : h.size = 0 then some (lastelt, h) else
  let ret := h[0]
  let newitem := lastelt
  let r := siftupLoop lt (h.setIfInBounds 0 newitem) 0 f1
  some (ret, siftdown lt (r.1.setIfInBounds r.2 newitem) 0 r.2 newitem f2)

/-- any fuel `≥ len(heap) - 1` gives the result of `heappop`: both loops stop by themselves -/
theorem heappop_fuel (lt : α → α → Bool) (h : Array α) (f1 f2 : Nat) (h1 : h.size - 1 ≤ f1)
    (h2 : h.size - 1 ≤ f2) : heappopFuel lt h f1 f2 = heappop lt h := by
  unfold heappopFuel heappop
  split
  · rfl
  · simp only []
    split
    · rfl
    · rename_i hs hs'
      have hsz : h.pop.size = h.size - 1 := by simp
      have e1 := siftupLoop_fuel_irrelevant lt (h.pop.setIfInBounds 0 h[h.size - 1]) 0 f1 h.pop.size
        (by simp; omega) (by simp)
      rw [e1]
      have hb := siftupLoop_bounds lt h.pop.size (h.pop.setIfInBounds 0 h[h.size - 1]) 0
        (by simp; omega)
      simp only [Array.size_setIfInBounds] at hb
      rw [siftdown_fuel_irrelevant lt _ 0 _ _ f2 h.pop.size (by omega) (by omega)]

end Heap

/-! ## the (ts, seq) order: the heap refines the sorted-list queue -/

namespace Heap
variable {K : Type}

theorem keyLtb_iff (a b : Ev K) : keyLtb a b = true ↔ keyLt a b := by
  unfold keyLtb keyLt
  simp

theorem keyLtb_false_iff (a b : Ev K) : keyLtb a b = false ↔ ¬ keyLt a b := by
  rw [← keyLtb_iff]
  simp

/-- (ts, seq) is a strict weak order on events, whatever their payload; it is total on events
    with distinct sequence numbers (`keyLt_total`) -/
theorem keyLtb_strictWeak : StrictWeak (keyLtb : Ev K → Ev K → Bool) where
  irrefl a _ := by rw [keyLtb_false_iff]; exact keyLt_irrefl a
  trans a b c _ _ _ h1 h2 := by rw [keyLtb_iff] at *; exact keyLt_trans h1 h2
  negtrans a b c _ _ _ h1 h2 := by
    rw [keyLtb_false_iff] at *
    unfold keyLt at *
    omega

/-- the refinement relation: `h` is a valid heap whose contents are those of the strictly sorted
    list `q` -/
def Rel (h : Array (Ev K)) (q : List (Ev K)) : Prop :=
  HeapInv keyLtb h ∧ h.toList.Perm q ∧ q.Pairwise keyLt

theorem Rel.empty : Rel (#[] : Array (Ev K)) [] :=
  ⟨HeapInv_empty _, List.Perm.refl _, List.Pairwise.nil⟩

theorem Rel.size_eq {h : Array (Ev K)} {q : List (Ev K)} (r : Rel h q) : h.size = q.length := by
  simpa using r.2.1.length_eq

/-- `heappush` refines stable insertion, when the new sequence number is the largest (that is how
    `EventLoop.schedule_event` assigns them) -/
theorem Rel.push {h : Array (Ev K)} {q : List (Ev K)} (r : Rel h q) (e : Ev K)
    (hseq : ∀ x ∈ q, x.seq < e.seq) : Rel (heappush keyLtb h e) (insertEv e q) := by
  obtain ⟨h1, h2⟩ := heappush_spec keyLtb_strictWeak r.1 e
  exact ⟨h1, (h2.trans (List.Perm.cons e r.2.1)).trans (insertEv_perm e q).symm,
    insertEv_sorted e q r.2.2 hseq⟩

/-- the root of the heap is the head of the sorted list (the minimum is unique) -/
theorem Rel.root {h : Array (Ev K)} {e : Ev K} {rest : List (Ev K)} (r : Rel h (e :: rest)) :
    ∃ hne : 0 < h.size, h[0] = e := by
  have hne : 0 < h.size := by have := r.size_eq; simp at this; omega
  refine ⟨hne, ?_⟩
  have hmem : h[0] ∈ e :: rest := r.2.1.mem_iff.mp (by simp)
  rcases List.mem_cons.mp hmem with h0 | h0
  · exact h0
  · exfalso
    have hlt : keyLt e h[0] := sorted_head_least r.2.2 _ h0
    have he : e ∈ h.toList := r.2.1.mem_iff.mpr List.mem_cons_self
    obtain ⟨i, hi, hie⟩ := List.mem_iff_getElem.mp he
    simp only [Array.length_toList] at hi
    have := r.1.root_min keyLtb_strictWeak (AllP.of_true h) i hi
    rw [keyLtb_false_iff] at this
    simp only [Array.getElem_toList] at hie
    rw [hie] at this
    exact this hlt

/-- `heappop` pops exactly the head of the sorted list -/
theorem Rel.pop {h : Array (Ev K)} {e : Ev K} {rest : List (Ev K)} (r : Rel h (e :: rest)) :
    ∃ h', heappop keyLtb h = some (e, h') ∧ Rel h' rest := by
  obtain ⟨hne, h0⟩ := r.root
  obtain ⟨h', hp, hinv, hperm⟩ := heappop_spec keyLtb_strictWeak r.1 hne
  rw [h0] at hp hperm
  refine ⟨h', hp, hinv, ?_, (List.pairwise_cons.mp r.2.2).2⟩
  exact (hperm.symm.trans r.2.1).cons_inv

theorem Rel.pop_nil {h : Array (Ev K)} (r : Rel h []) : heappop keyLtb h = none :=
  heappop_empty _ _ (by simpa using r.size_eq)

/-- `heap[0]` is the head of the sorted list -/
theorem Rel.peek {h : Array (Ev K)} {q : List (Ev K)} (r : Rel h q) : h[0]? = q.head? := by
  cases q with
  | nil =>
    have := r.size_eq
    simp at this
    simp [this]
  | cons e rest =>
    obtain ⟨hne, h0⟩ := r.root
    simp [hne, h0]

end Heap

/-! ## the event loop on the heap and the event loop on the sorted list -/

/-- same clock, same counter, heap `Rel` queue; the counter exceeds every queued sequence number -/
structure HRel {K : Type} (hl : HEL K) (l : EL K) : Prop where
  now : hl.now = l.now
  nextSeq : hl.nextSeq = l.nextSeq
  rel : Heap.Rel hl.heap l.queue
  seq_lt : ∀ x ∈ l.queue, x.seq < l.nextSeq

namespace HRel
variable {K : Type}

theorem empty : HRel (HEL.empty : HEL K) EL.empty :=
  ⟨rfl, rfl, Heap.Rel.empty, by intro x hx; cases hx⟩

/-- one API call: same output, related successors -/
theorem apply {hl : HEL K} {l : EL K} (r : HRel hl l) (op : ELOp K) :
    (hl.apply op).2 = (l.apply op).2 ∧ HRel (hl.apply op).1 (l.apply op).1 := by
  obtain ⟨hnow, hseq, hrel, hlt⟩ := r
  cases op with
  | schedule ts k =>
    by_cases hts : ts < l.now
    · have e1 : hl.apply (.schedule ts k) = (hl, .err .past) := by
        simp [HEL.apply, HEL.schedule, hnow, hts]
      have e2 : l.apply (.schedule ts k) = (l, .err .past) := by
        simp [EL.apply, EL.schedule, hts]
      rw [e1, e2]
      exact ⟨rfl, hnow, hseq, hrel, hlt⟩
    · have e1 : hl.apply (.schedule ts k) =
          ({ hl with heap := Heap.heappush Heap.keyLtb hl.heap ⟨ts, hl.nextSeq, k⟩,
                     nextSeq := hl.nextSeq + 1 }, .ok) := by
        simp [HEL.apply, HEL.schedule, hnow, hts]
      have e2 : l.apply (.schedule ts k) =
          ({ l with queue := insertEv ⟨ts, l.nextSeq, k⟩ l.queue, nextSeq := l.nextSeq + 1 }, .ok) := by
        simp [EL.apply, EL.schedule, hts]
      rw [e1, e2]
      refine ⟨rfl, hnow, ?_, ?_, ?_⟩
      · show hl.nextSeq + 1 = l.nextSeq + 1
        rw [hseq]
      · show Heap.Rel (Heap.heappush Heap.keyLtb hl.heap ⟨ts, hl.nextSeq, k⟩)
          (insertEv ⟨ts, l.nextSeq, k⟩ l.queue)
        rw [hseq]
        exact hrel.push _ hlt
      · intro x hx
        rcases mem_insertEv.mp hx with rfl | hx
        · exact Nat.lt_succ_self _
        · exact Nat.lt_succ_of_lt (hlt x hx)
  | pop =>
    cases hq : l.queue with
    | nil =>
      have hrel' := hrel
      rw [hq] at hrel'
      have e1 : hl.apply .pop = (hl, .err .empty) := by
        simp [HEL.apply, HEL.pop, hrel'.pop_nil]
      have e2 : l.apply .pop = (l, .err .empty) := by
        simp [EL.apply, EL.pop, hq]
      rw [e1, e2]
      exact ⟨rfl, hnow, hseq, hrel, hlt⟩
    | cons e rest =>
      have hrel' := hrel
      rw [hq] at hrel'
      obtain ⟨h', hp, hrel''⟩ := hrel'.pop
      have e1 : hl.apply .pop = ({ hl with heap := h', now := e.ts }, .ev (some e)) := by
        simp [HEL.apply, HEL.pop, hp]
      have e2 : l.apply .pop = ({ l with queue := rest, now := e.ts }, .ev (some e)) := by
        simp [EL.apply, EL.pop, hq]
      rw [e1, e2]
      refine ⟨rfl, rfl, hseq, hrel'', ?_⟩
      intro x hx
      exact hlt x (hq ▸ List.mem_cons_of_mem _ hx)
  | peek =>
    have e1 : hl.apply .peek = (hl, .ev l.queue.head?) := by
      simp [HEL.apply, HEL.peek, hrel.peek]
    have e2 : l.apply .peek = (l, .ev l.queue.head?) := rfl
    rw [e1, e2]
    exact ⟨rfl, hnow, hseq, hrel, hlt⟩
  | clear =>
    have e1 : hl.apply .clear = ({ hl with heap := #[] }, .ok) := rfl
    have e2 : l.apply .clear = ({ l with queue := [] }, .ok) := rfl
    rw [e1, e2]
    exact ⟨rfl, hnow, hseq, Heap.Rel.empty, by intro x hx; cases hx⟩
  | len =>
    have e1 : hl.apply .len = (hl, .num l.queue.length) := by
      simp [HEL.apply, HEL.len, hrel.size_eq]
    have e2 : l.apply .len = (l, .num l.queue.length) := rfl
    rw [e1, e2]
    exact ⟨rfl, hnow, hseq, hrel, hlt⟩
  | now =>
    have e1 : hl.apply .now = (hl, .num l.now) := by
      simp [HEL.apply, hnow]
    have e2 : l.apply .now = (l, .num l.now) := rfl
    rw [e1, e2]
    exact ⟨rfl, hnow, hseq, hrel, hlt⟩

/-- every history: same outputs in the same order, related final states -/
theorem run {hl : HEL K} {l : EL K} (r : HRel hl l) (ops : List (ELOp K)) :
    (hl.run ops).2 = (l.run ops).2 ∧ HRel (hl.run ops).1 (l.run ops).1 := by
  induction ops generalizing hl l with
  | nil => exact ⟨rfl, r⟩
  | cons op ops ih =>
    obtain ⟨h1, h2⟩ := r.apply op
    obtain ⟨h3, h4⟩ := ih h2
    simp only [HEL.run, EL.run]
    exact ⟨by rw [h1, h3], h4⟩

end HRel
