import GradysProofs.Lemmas.SimShape
/-
  The lifecycle shape invariant behind C05.
-/
set_option linter.unusedSectionVars false

namespace Sim
variable {S σ : Type} [Scalar S]

/-- handler initialisation then every protocol's `initialize` at time 0 (oldest first) -/
def initBlock (cfg : Config S) : List (Obs S) :=
  cfg.handlers.map Obs.handlerInit ++ (List.range cfg.nNodes).map (fun n => Obs.callback n .initialize 0)

/-- every protocol's `finish` at time `t`, then handler finalisation (oldest first) -/
def finalBlock (cfg : Config S) (t : Int) : List (Obs S) :=
  (List.range cfg.nNodes).map (fun n => Obs.callback n .finish t) ++ cfg.handlers.map Obs.handlerFinal

/-- after-step fan-out for executed events given NEWEST first; result newest first -/
def afterBlocksR (cfg : Config S) : List (Ev (EvKind S)) → List (Obs S)
  | [] => []
  | e :: rest => (cfg.handlers.map (fun h => Obs.afterStep h rest.length e.ts)).reverse ++ afterBlocksR cfg rest

/-- after-step fan-out for executed events oldest first, result oldest first: event number `i`
    (0-based) contributes `afterStep h i ts_i` for each handler `h` in registration order -/
def afterBlocks (cfg : Config S) (es : List (Ev (EvKind S))) : List (Obs S) :=
  (afterBlocksR cfg es.reverse).reverse

theorem afterBlocks_nil (cfg : Config S) : afterBlocks cfg [] = [] := rfl

theorem afterBlocks_snoc (cfg : Config S) (es : List (Ev (EvKind S))) (e : Ev (EvKind S)) :
    afterBlocks cfg (es ++ [e]) =
      afterBlocks cfg es ++ cfg.handlers.map (fun h => Obs.afterStep h es.length e.ts) := by
  unfold afterBlocks
  simp [afterBlocksR]

structure LInv (cfg : Config S) (w : World S σ) : Prop where
  iter_eq : w.iter = w.rexecuted.length
  /-- before the first step only requests issued through the providers have been observed -/
  fresh : w.initialized = false →
    (∀ o ∈ w.rtrace, ∃ n, Obs.isRequestOf n o) ∧ w.rexecuted = [] ∧ w.loop.now = 0 ∧ w.finalized = false
  shape : w.initialized = true →
    w.rtrace.filter isLife =
      (if w.finalized then (finalBlock cfg (reportedTime cfg w)).reverse else [])
        ++ afterBlocksR cfg w.rexecuted ++ (initBlock cfg).reverse

theorem init_linv (cfg : Config S) (P : NodeId → Proto S σ) : LInv cfg (init cfg P) := by
  rw [init_eq]
  split <;> (constructor <;> simp [init0, sched, EL.push, EL.empty])

theorem initialise_shape (cfg : Config S) (P : NodeId → Proto S σ) (w : World S σ)
    (h : LInv cfg w) (hi : w.initialized = false) :
    LInv cfg (initialise cfg P w) ∧ (initialise cfg P w).initialized = true
      ∧ (initialise cfg P w).finalized = false := by
  obtain ⟨hreq, hex, hnow, hfin⟩ := h.fresh hi
  have hrt : w.rtrace.filter isLife = [] := by
    rw [List.filter_eq_nil_iff]
    intro o ho
    obtain ⟨n, hn⟩ := hreq o ho
    simp [isLife_request hn]
  have e := (ext_logAll cfg Obs.handlerInit (by intro h n cb t e; cases e) cfg.handlers
    { w with initialized := true }).trans
    (ext_callbackAll cfg P .initialize (List.range cfg.nNodes) _)
  have hinit : (initialise cfg P w).initialized = true := e.init_eq
  have hfin' : (initialise cfg P w).finalized = false := by rw [show (initialise cfg P w).finalized = w.finalized from e.fin_eq]; exact hfin
  refine ⟨⟨?_, ?_, ?_⟩, hinit, hfin'⟩
  · rw [show (initialise cfg P w).iter = w.iter from e.iter_eq,
      show (initialise cfg P w).rexecuted = w.rexecuted from e.exec_eq]; exact h.iter_eq
  · intro hc; rw [hinit] at hc; cases hc
  · intro _
    rw [hfin', show (initialise cfg P w).rexecuted = w.rexecuted from e.exec_eq, hex]
    simp only [Bool.false_eq_true, if_false, List.nil_append, afterBlocksR]
    unfold initialise
    simp only
    rw [callbackAll_life cfg P .initialize (by intro n t; rfl), logAll_rtrace]
    have hrt0 : reportedTime cfg (logAll Obs.handlerInit cfg.handlers { w with initialized := true }) = 0 := by
      have : (logAll Obs.handlerInit cfg.handlers { w with initialized := true }).loop.now = w.loop.now :=
        (ext_logAll cfg Obs.handlerInit (by intro h n cb t e; cases e) cfg.handlers
          { w with initialized := true }).now_eq
      unfold reportedTime; rw [this, hnow]; simp
    rw [hrt0]
    simp only [initBlock, List.reverse_append, List.append_nil, List.filter_append, hrt]
    congr 1
    rw [List.filter_eq_self.mpr]
    intro o ho
    obtain ⟨x, _, rfl⟩ := List.mem_map.mp (List.mem_reverse.mp ho)
    rfl

theorem filter_isLife_map_final (hs : List String) :
    (hs.map (Obs.handlerFinal (S := S))).reverse.filter isLife = (hs.map Obs.handlerFinal).reverse := by
  rw [List.filter_eq_self.mpr]
  intro o ho
  obtain ⟨x, _, rfl⟩ := List.mem_map.mp (List.mem_reverse.mp ho)
  rfl

theorem finalise_shape (cfg : Config S) (P : NodeId → Proto S σ) (w : World S σ)
    (h : LInv cfg w) (hi : w.initialized = true) (hf : w.finalized = false) :
    LInv cfg (finalise cfg P w) ∧ (finalise cfg P w).finalized = true := by
  have e := (ext_callbackAll cfg P .finish (List.range cfg.nNodes) w).trans
    (ext_logAll cfg Obs.handlerFinal (by intro h n cb t e; cases e) cfg.handlers _)
  have hlife : (logAll Obs.handlerFinal cfg.handlers
      (callbackAll cfg P .finish (List.range cfg.nNodes) w)).rtrace.filter isLife =
      (finalBlock cfg (reportedTime cfg w)).reverse ++ w.rtrace.filter isLife := by
    rw [logAll_rtrace, List.filter_append, callbackAll_life cfg P .finish (by intro n t; rfl),
      filter_isLife_map_final]
    simp only [finalBlock, List.reverse_append, List.append_assoc]
  have hfe : finalise cfg P w = { (logAll Obs.handlerFinal cfg.handlers
      (callbackAll cfg P .finish (List.range cfg.nNodes) w)) with finalized := true } := by
    unfold finalise
    rw [if_neg (by simp [hf])]
  rw [hfe]
  generalize (logAll Obs.handlerFinal cfg.handlers
      (callbackAll cfg P .finish (List.range cfg.nNodes) w)) = x at e hlife
  refine ⟨⟨?_, ?_, ?_⟩, rfl⟩
  · show x.iter = x.rexecuted.length
    rw [e.iter_eq, e.exec_eq]; exact h.iter_eq
  · intro hc
    have hc : x.initialized = false := hc
    rw [e.init_eq, hi] at hc; cases hc
  · intro _
    show x.rtrace.filter isLife = (if true = true then (finalBlock cfg (reportedTime cfg
      { x with finalized := true })).reverse else []) ++ afterBlocksR cfg x.rexecuted ++ (initBlock cfg).reverse
    have hrt : reportedTime cfg { x with finalized := true } = reportedTime cfg w :=
      reportedTime_congr cfg e.now_eq
    rw [hrt, hlife, h.shape hi, hf, e.exec_eq]
    simp only [Bool.false_eq_true, if_false, if_true, List.nil_append, List.append_assoc]

theorem execStep_shape (cfg : Config S) (hdt : 0 ≤ cfg.dt) (P : NodeId → Proto S σ)
    (e : Ev (EvKind S)) (rest : List (Ev (EvKind S))) (w : World S σ)
    (h : LInv cfg w) (hi : w.initialized = true) (hf : w.finalized = false) :
    LInv cfg (execStep cfg P e rest w) ∧ (execStep cfg P e rest w).initialized = true ∧
      (execStep cfg P e rest w).finalized = false := by
  rw [execStep_eq]
  simp only
  have e1 := ext_execEv cfg hdt P e (popped e rest w)
  have e2 := ext_logAll cfg (fun h => Obs.afterStep h (execEv cfg P e (popped e rest w)).iter e.ts)
      (by intro h n cb t e; cases e) cfg.handlers (execEv cfg P e (popped e rest w))
  have e12 := e1.trans e2
  have hinit : (logAll (fun h => Obs.afterStep h (execEv cfg P e (popped e rest w)).iter e.ts) cfg.handlers
      (execEv cfg P e (popped e rest w))).initialized = true := by rw [e12.init_eq]; exact hi
  have hfin : (logAll (fun h => Obs.afterStep h (execEv cfg P e (popped e rest w)).iter e.ts) cfg.handlers
      (execEv cfg P e (popped e rest w))).finalized = false := by rw [e12.fin_eq]; exact hf
  have hexec : (logAll (fun h => Obs.afterStep h (execEv cfg P e (popped e rest w)).iter e.ts) cfg.handlers
      (execEv cfg P e (popped e rest w))).rexecuted = e :: w.rexecuted := e12.exec_eq
  have hiter : (execEv cfg P e (popped e rest w)).iter = w.rexecuted.length := by
    rw [e1.iter_eq]; exact h.iter_eq
  refine ⟨⟨?_, ?_, ?_⟩, hinit, hfin⟩
  · show (logAll _ _ _).iter + 1 = (logAll _ _ _).rexecuted.length
    rw [hexec, e2.iter_eq, hiter]; rfl
  · intro hc; simp only at hc; rw [hinit] at hc; cases hc
  · intro _
    show (logAll _ _ _).rtrace.filter isLife = (if (logAll _ _ _).finalized = true then _ else _)
      ++ afterBlocksR cfg (logAll _ _ _).rexecuted ++ _
    rw [hfin, hexec, logAll_rtrace, List.filter_append, execEv_life]
    show _ ++ w.rtrace.filter isLife = _
    rw [h.shape hi, hf, hiter]
    simp only [Bool.false_eq_true, if_false, List.nil_append, afterBlocksR, List.append_assoc]
    congr 1
    rw [List.filter_eq_self.mpr]
    intro o ho
    obtain ⟨x, _, rfl⟩ := List.mem_map.mp (List.mem_reverse.mp ho)
    rfl

theorem step_linv (cfg : Config S) (hdt : 0 ≤ cfg.dt) (P : NodeId → Proto S σ) (w : World S σ)
    (h : LInv cfg w) : LInv cfg (step cfg P w).1 := by
  unfold step
  split
  · exact h
  · rename_i hf
    have hf : w.finalized = false := by simpa using hf
    have hi : LInv cfg (if w.initialized then w else initialise cfg P w) ∧
        (if w.initialized then w else initialise cfg P w).initialized = true ∧
        (if w.initialized then w else initialise cfg P w).finalized = false := by
      split
      · rename_i hin; exact ⟨h, hin, hf⟩
      · rename_i hin
        exact initialise_shape cfg P w h (by simpa using hin)
    generalize (if w.initialized then w else initialise cfg P w) = w1 at hi
    obtain ⟨h1, hi1, hf1⟩ := hi
    simp only
    split
    · exact (finalise_shape cfg P w1 h1 hi1 hf1).1
    · split
      · exact h1
      · rename_i e rest hq
        have hs := execStep_shape cfg hdt P e rest w1 h1 hi1 hf1
        split
        · exact (finalise_shape cfg P _ hs.1 hs.2.1 hs.2.2).1
        · exact hs.1

theorem runProg_linv_fresh (cfg : Config S) (n : NodeId) (p : Prog S σ) (w : World S σ)
    (h : LInv cfg w) (hi : w.initialized = false) :
    LInv cfg (runProg cfg n p w).1 ∧ (runProg cfg n p w).1.initialized = false := by
  have e := ext_runProg cfg n p w
  obtain ⟨hreq, hex, hnow, hfin⟩ := h.fresh hi
  have hi' : (runProg cfg n p w).1.initialized = false := by rw [e.init_eq]; exact hi
  refine ⟨⟨?_, ?_, ?_⟩, hi'⟩
  · rw [e.iter_eq, e.exec_eq]; exact h.iter_eq
  · intro _
    obtain ⟨l, hl, hq⟩ := runProg_rtrace cfg n p w
    refine ⟨?_, by rw [e.exec_eq]; exact hex, by rw [e.now_eq]; exact hnow, by rw [e.fin_eq]; exact hfin⟩
    intro o ho
    rw [hl] at ho
    rcases List.mem_append.mp ho with ho | ho
    · exact ⟨n, hq o ho⟩
    · exact hreq o ho
  · intro hc; rw [hi'] at hc; cases hc

theorem initWith_linv (cfg : Config S) (P : NodeId → Proto S σ) (pre : List (NodeId × Prog S σ)) :
    LInv cfg (initWith cfg P pre) ∧ (initWith cfg P pre).initialized = false :=
  initWith_induction (C := fun w => LInv cfg w ∧ w.initialized = false)
    ⟨init_linv cfg P, by rw [init_eq]; split <;> rfl⟩
    (fun n p w h => runProg_linv_fresh cfg n p w h.1 h.2) pre

/-- a request program issued from outside any callback — at any moment of the run — adds only request
    observations: the lifecycle shape is untouched -/
theorem runProg_linv (cfg : Config S) (n : NodeId) (p : Prog S σ) (w : World S σ) (h : LInv cfg w) :
    LInv cfg (runProg cfg n p w).1 := by
  have e := ext_runProg cfg n p w
  obtain ⟨l, hl, hq⟩ := runProg_rtrace cfg n p w
  refine ⟨?_, ?_, ?_⟩
  · rw [e.iter_eq, e.exec_eq]; exact h.iter_eq
  · intro hi
    exact (runProg_linv_fresh cfg n p w h (by rw [← e.init_eq]; exact hi)).1.fresh hi
  · intro hi
    have hi0 : w.initialized = true := by rw [← e.init_eq]; exact hi
    have hfl : l.filter isLife = [] := by
      rw [List.filter_eq_nil_iff]
      intro o ho
      simp [isLife_request (hq o ho)]
    rw [hl, List.filter_append, hfl, List.nil_append, h.shape hi0, e.fin_eq, e.exec_eq,
      reportedTime_congr cfg e.now_eq]

theorem reachable_linv {cfg : Config S} (hdt : 0 ≤ cfg.dt) {P : NodeId → Proto S σ} {w : World S σ}
    (h : Reachable cfg P w) : LInv cfg w :=
  h.rec_inv (init_linv cfg P) (fun w _ hw => step_linv cfg hdt P w hw)
    (fun w n p _ hw => runProg_linv cfg n p w hw)

end Sim
