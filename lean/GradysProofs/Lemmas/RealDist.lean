import GradysProofs.RealScalar
/-
  General facts about the real instance used by the motion / range theorems (C09, C11):
  the Euclidean distance of two `V3 ℝ` points as the code computes it (`sqrt` of `V3.sqdist`).
-/
namespace RealScalar
open Real

/-- Euclidean distance of two points, in the operation order of the code:
    `math.sqrt((b.x-a.x)**2 + (b.y-a.y)**2 + (b.z-a.z)**2)` -/
noncomputable def edist3 (a b : V3 ℝ) : ℝ :=
  Real.sqrt ((b.x - a.x) ^ 2 + (b.y - a.y) ^ 2 + (b.z - a.z) ^ 2)

theorem sqdist_eq (a b : V3 ℝ) :
    V3.sqdist a b = (b.x - a.x) ^ 2 + (b.y - a.y) ^ 2 + (b.z - a.z) ^ 2 := rfl

theorem sqdist_nonneg (a b : V3 ℝ) : 0 ≤ V3.sqdist a b := by
  rw [sqdist_eq]; positivity

theorem edist3_eq_sqrt_sqdist (a b : V3 ℝ) : edist3 a b = Real.sqrt (V3.sqdist a b) := rfl

theorem edist3_nonneg (a b : V3 ℝ) : 0 ≤ edist3 a b := Real.sqrt_nonneg _

theorem edist3_sq (a b : V3 ℝ) :
    edist3 a b ^ 2 = (b.x - a.x) ^ 2 + (b.y - a.y) ^ 2 + (b.z - a.z) ^ 2 := by
  unfold edist3; exact Real.sq_sqrt (by positivity)

theorem edist3_self (a : V3 ℝ) : edist3 a a = 0 := by
  unfold edist3; simp

theorem edist3_comm (a b : V3 ℝ) : edist3 a b = edist3 b a := by
  unfold edist3; congr 1; ring

theorem edist3_eq_zero_iff (a b : V3 ℝ) : edist3 a b = 0 ↔ a = b := by
  constructor
  · intro h
    have h2 := edist3_sq a b
    rw [h] at h2
    have hx : (b.x - a.x) ^ 2 = 0 := by nlinarith [sq_nonneg (b.x - a.x), sq_nonneg (b.y - a.y), sq_nonneg (b.z - a.z)]
    have hy : (b.y - a.y) ^ 2 = 0 := by nlinarith [sq_nonneg (b.x - a.x), sq_nonneg (b.y - a.y), sq_nonneg (b.z - a.z)]
    have hz : (b.z - a.z) ^ 2 = 0 := by nlinarith [sq_nonneg (b.x - a.x), sq_nonneg (b.y - a.y), sq_nonneg (b.z - a.z)]
    have ex : a.x = b.x := by have := pow_eq_zero_iff (two_ne_zero) |>.mp hx; linarith
    have ey : a.y = b.y := by have := pow_eq_zero_iff (two_ne_zero) |>.mp hy; linarith
    have ez : a.z = b.z := by have := pow_eq_zero_iff (two_ne_zero) |>.mp hz; linarith
    cases a; cases b; simp_all
  · rintro rfl; exact edist3_self a

/-- distance from `a` to a point `a + l·(b − a)` of the line through `a` and `b` -/
theorem edist3_lerp_left (a b p : V3 ℝ) (l : ℝ) (hl : 0 ≤ l)
    (hx : p.x = a.x + l * (b.x - a.x)) (hy : p.y = a.y + l * (b.y - a.y)) (hz : p.z = a.z + l * (b.z - a.z)) :
    edist3 a p = l * edist3 a b := by
  unfold edist3
  rw [hx, hy, hz]
  have : (a.x + l * (b.x - a.x) - a.x) ^ 2 + (a.y + l * (b.y - a.y) - a.y) ^ 2 + (a.z + l * (b.z - a.z) - a.z) ^ 2
      = l ^ 2 * ((b.x - a.x) ^ 2 + (b.y - a.y) ^ 2 + (b.z - a.z) ^ 2) := by ring
  rw [this, Real.sqrt_mul (sq_nonneg l), Real.sqrt_sq hl]

/-- distance from a point `a + l·(b − a)`, `l ≤ 1`, to `b` -/
theorem edist3_lerp_right (a b p : V3 ℝ) (l : ℝ) (hl : l ≤ 1)
    (hx : p.x = a.x + l * (b.x - a.x)) (hy : p.y = a.y + l * (b.y - a.y)) (hz : p.z = a.z + l * (b.z - a.z)) :
    edist3 p b = (1 - l) * edist3 a b := by
  unfold edist3
  rw [hx, hy, hz]
  have : (b.x - (a.x + l * (b.x - a.x))) ^ 2 + (b.y - (a.y + l * (b.y - a.y))) ^ 2 + (b.z - (a.z + l * (b.z - a.z))) ^ 2
      = (1 - l) ^ 2 * ((b.x - a.x) ^ 2 + (b.y - a.y) ^ 2 + (b.z - a.z) ^ 2) := by ring
  rw [this, Real.sqrt_mul (sq_nonneg _), Real.sqrt_sq (by linarith)]

end RealScalar
