import GradysModel.Sim
import GradysProofs.Lemmas.Queue
/-
  The core run invariant of the simulator model and its preservation by every handler action and by
  `step`, for every protocol program (induction on `Prog`).
-/

set_option linter.unusedSectionVars false

namespace Sim
variable {S σ : Type} [Scalar S]

/-- Invariant of every reachable world. -/
structure WInv (w : World S σ) : Prop where
  /-- the queue is strictly sorted by (ts, seq) -/
  sorted : w.loop.queue.Pairwise keyLt
  /-- nothing is queued for the past -/
  ge_now : ∀ e ∈ w.loop.queue, w.loop.now ≤ e.ts
  seq_lt : ∀ e ∈ w.loop.queue, e.seq < w.loop.nextSeq
  /-- conservation: executed ++ queued is a permutation of the accepted requests -/
  perm : (w.rexecuted ++ w.loop.queue).Perm w.raccepted
  /-- every executed event precedes every queued one in (ts, seq) -/
  exec_lt_queue : ∀ a ∈ w.rexecuted, ∀ b ∈ w.loop.queue, keyLt a b
  /-- executed events (newest first) are strictly decreasing in (ts, seq) -/
  exec_sorted : w.rexecuted.Pairwise (fun a b => keyLt b a)
  exec_le_now : ∀ a ∈ w.rexecuted, a.ts ≤ w.loop.now
  exec_seq_lt : ∀ a ∈ w.rexecuted, a.seq < w.loop.nextSeq
  /-- sequence numbers reflect request order: accepted requests (newest first) have strictly
      decreasing `seq` -/
  acc_sorted : w.raccepted.Pairwise (fun a b => b.seq < a.seq)
  acc_seq_lt : ∀ a ∈ w.raccepted, a.seq < w.loop.nextSeq

/-- `w'` results from `w` by handler-level actions only (no event popped). Every protocol callback
    logged meanwhile reports the time `reportedTime cfg w`. -/
structure Ext (cfg : Config S) (w w' : World S σ) : Prop where
  now_eq : w'.loop.now = w.loop.now
  exec_eq : w'.rexecuted = w.rexecuted
  iter_eq : w'.iter = w.iter
  init_eq : w'.initialized = w.initialized
  fin_eq : w'.finalized = w.finalized
  seq_le : w.loop.nextSeq ≤ w'.loop.nextSeq
  inv : WInv w → WInv w'
  trace_ext : ∃ l, w'.rtrace = l ++ w.rtrace ∧
    ∀ n cb t, Obs.callback n cb t ∈ l → t = reportedTime cfg w
  acc_ext : ∃ l, w'.raccepted = l ++ w.raccepted

theorem Ext.refl (cfg : Config S) (w : World S σ) : Ext cfg w w :=
  ⟨rfl, rfl, rfl, rfl, rfl, Nat.le_refl _, id, ⟨[], rfl, by simp⟩, ⟨[], rfl⟩⟩

theorem reportedTime_congr (cfg : Config S) {w w' : World S σ} (h : w'.loop.now = w.loop.now) :
    reportedTime cfg w' = reportedTime cfg w := by
  unfold reportedTime; rw [h]

theorem Ext.trans {cfg : Config S} {a b c : World S σ} (h1 : Ext cfg a b) (h2 : Ext cfg b c) :
    Ext cfg a c where
  now_eq := h2.now_eq.trans h1.now_eq
  exec_eq := h2.exec_eq.trans h1.exec_eq
  iter_eq := h2.iter_eq.trans h1.iter_eq
  init_eq := h2.init_eq.trans h1.init_eq
  fin_eq := h2.fin_eq.trans h1.fin_eq
  seq_le := Nat.le_trans h1.seq_le h2.seq_le
  inv := fun h => h2.inv (h1.inv h)
  trace_ext := by
    obtain ⟨l1, e1, t1⟩ := h1.trace_ext
    obtain ⟨l2, e2, t2⟩ := h2.trace_ext
    refine ⟨l2 ++ l1, by rw [e2, e1, List.append_assoc], ?_⟩
    intro n cb t hm
    rcases List.mem_append.mp hm with hm | hm
    · rw [t2 n cb t hm]; exact reportedTime_congr cfg h1.now_eq
    · exact t1 n cb t hm
  acc_ext := by
    obtain ⟨l1, e1⟩ := h1.acc_ext
    obtain ⟨l2, e2⟩ := h2.acc_ext
    exact ⟨l2 ++ l1, by rw [e2, e1, List.append_assoc]⟩

/-- a world that differs only in fields other than the loop, the ghosts, the trace, and the flags -/
theorem Ext.of_core {cfg : Config S} {w w' : World S σ} (hl : w'.loop = w.loop) (he : w'.rexecuted = w.rexecuted)
    (ha : w'.raccepted = w.raccepted) (ht : w'.rtrace = w.rtrace) (hi : w'.iter = w.iter)
    (h1 : w'.initialized = w.initialized) (h2 : w'.finalized = w.finalized) : Ext cfg w w' where
  now_eq := by rw [hl]
  exec_eq := he
  iter_eq := hi
  init_eq := h1
  fin_eq := h2
  seq_le := by rw [hl]; exact Nat.le_refl _
  inv := fun h => by
    constructor
    · rw [hl]; exact h.sorted
    · rw [hl]; exact h.ge_now
    · rw [hl]; exact h.seq_lt
    · rw [hl, he, ha]; exact h.perm
    · rw [hl, he]; exact h.exec_lt_queue
    · rw [he]; exact h.exec_sorted
    · rw [hl, he]; exact h.exec_le_now
    · rw [hl, he]; exact h.exec_seq_lt
    · rw [ha]; exact h.acc_sorted
    · rw [hl, ha]; exact h.acc_seq_lt
  trace_ext := ⟨[], by rw [ht]; rfl, by simp⟩
  acc_ext := ⟨[], by rw [ha]; rfl⟩

theorem ext_log (cfg : Config S) (o : Obs S) (w : World S σ)
    (ho : ∀ n cb t, o = Obs.callback n cb t → t = reportedTime cfg w) : Ext cfg w (log o w) where
  now_eq := rfl
  exec_eq := rfl
  iter_eq := rfl
  init_eq := rfl
  fin_eq := rfl
  seq_le := Nat.le_refl _
  inv := fun h => ⟨h.sorted, h.ge_now, h.seq_lt, h.perm, h.exec_lt_queue, h.exec_sorted, h.exec_le_now,
    h.exec_seq_lt, h.acc_sorted, h.acc_seq_lt⟩
  trace_ext := ⟨[o], rfl, fun n cb t hm => ho n cb t (List.mem_singleton.mp hm).symm⟩
  acc_ext := ⟨[], rfl⟩

/-- an accepted scheduling request for a time that is not in the past -/
theorem ext_sched (cfg : Config S) (ts : Int) (k : EvKind S) (w : World S σ) (hts : w.loop.now ≤ ts) :
    Ext cfg w (sched ts k w) where
  now_eq := rfl
  exec_eq := rfl
  iter_eq := rfl
  init_eq := rfl
  fin_eq := rfl
  seq_le := Nat.le_succ _
  inv := fun h => by
    constructor
    · exact insertEv_sorted _ _ h.sorted (fun x hx => h.seq_lt x hx)
    · intro e he
      rcases mem_insertEv.mp he with rfl | he
      · exact hts
      · exact h.ge_now e he
    · intro e he
      rcases mem_insertEv.mp he with rfl | he
      · exact Nat.lt_succ_self _
      · exact Nat.lt_succ_of_lt (h.seq_lt e he)
    · show (w.rexecuted ++ insertEv _ w.loop.queue).Perm (_ :: w.raccepted)
      refine ((List.Perm.append_left _ (insertEv_perm _ _)).trans ?_)
      exact (List.perm_middle).trans (List.Perm.cons _ h.perm)
    · intro a ha b hb
      rcases mem_insertEv.mp hb with rfl | hb
      · have h1 := h.exec_le_now a ha
        have h2 := h.exec_seq_lt a ha
        show a.ts < ts ∨ (a.ts = ts ∧ a.seq < w.loop.nextSeq)
        omega
      · exact h.exec_lt_queue a ha b hb
    · exact h.exec_sorted
    · exact h.exec_le_now
    · intro a ha
      exact Nat.lt_succ_of_lt (h.exec_seq_lt a ha)
    · exact List.pairwise_cons.mpr ⟨fun a ha => h.acc_seq_lt a ha, h.acc_sorted⟩
    · intro a ha
      rcases List.mem_cons.mp ha with rfl | ha
      · exact Nat.lt_succ_self _
      · exact Nat.lt_succ_of_lt (h.acc_seq_lt a ha)
  trace_ext := ⟨[], rfl, by simp⟩
  acc_ext := ⟨[_], rfl⟩

theorem ext_foldl (cfg : Config S) {α : Type} (f : World S σ → α → World S σ) (l : List α)
    (hf : ∀ w a, Ext cfg w (f w a)) (w : World S σ) : Ext cfg w (l.foldl f w) := by
  induction l generalizing w with
  | nil => exact Ext.refl cfg w
  | cons a l ih => exact (hf w a).trans (ih (f w a))

theorem ext_consumeDraw (cfg : Config S) (w : World S σ) : Ext cfg w (consumeDraw cfg w).2 := by
  unfold consumeDraw
  split
  · exact Ext.of_core rfl rfl rfl rfl rfl rfl rfl
  · exact Ext.refl cfg w

theorem deliverTime_ge (cfg : Config S) (w : World S σ) : w.loop.now ≤ deliverTime cfg w := by
  unfold deliverTime
  split <;> omega

theorem ext_transmit (cfg : Config S) (src dst : NodeId) (msg : String) (w : World S σ) :
    Ext cfg w (transmit cfg src dst msg w) := by
  unfold transmit
  simp only
  split
  · exact (ext_consumeDraw cfg w).trans (ext_sched cfg _ _ _ (deliverTime_ge _ _))
  · exact ext_consumeDraw cfg w

theorem ext_broadcastTo (cfg : Config S) (src : NodeId) (msg : String) (dsts : List NodeId)
    (w : World S σ) : Ext cfg w (broadcastTo cfg src msg dsts w) := by
  unfold broadcastTo
  apply ext_foldl cfg
  intro w d
  split
  · exact Ext.refl cfg w
  · exact ext_transmit cfg src d msg w

theorem ext_execReq (cfg : Config S) (n : NodeId) (r : Request S) (w : World S σ) :
    Ext cfg w (execReq cfg n r w).1 := by
  cases r with
  | setTimer name at_ =>
    simp only [execReq]
    split
    · exact Ext.refl cfg w
    · split
      · exact Ext.refl cfg w
      · rename_i hlt
        refine (ext_sched cfg at_ (.timerFire n name (w.nextTimer n)) w (by omega)).trans ?_
        exact Ext.of_core rfl rfl rfl rfl rfl rfl rfl
  | cancelTimer name =>
    simp only [execReq]
    split
    · exact Ext.refl cfg w
    · exact Ext.of_core rfl rfl rfl rfl rfl rfl rfl
  | send msg dst =>
    simp only [execReq]
    split
    · exact Ext.refl cfg w
    · split
      · exact Ext.refl cfg w
      · split
        · exact Ext.refl cfg w
        · split
          · exact Ext.refl cfg w
          · exact ext_transmit _ _ _ _ _
  | broadcast msg =>
    simp only [execReq]
    split
    · exact Ext.refl cfg w
    · exact ext_broadcastTo _ _ _ _ _
  | goto p =>
    simp only [execReq]
    split
    · exact Ext.refl cfg w
    · exact Ext.of_core rfl rfl rfl rfl rfl rfl rfl
  | gotoGeo p =>
    simp only [execReq]
    split
    · exact Ext.refl cfg w
    · exact Ext.of_core rfl rfl rfl rfl rfl rfl rfl
  | setSpeed v =>
    simp only [execReq]
    split
    · exact Ext.refl cfg w
    · exact Ext.of_core rfl rfl rfl rfl rfl rfl rfl
  | setRange r =>
    simp only [execReq]
    split
    · exact Ext.refl cfg w
    · split
      · exact Ext.refl cfg w
      · exact Ext.of_core rfl rfl rfl rfl rfl rfl rfl

theorem ext_runProg (cfg : Config S) (n : NodeId) (p : Prog S σ) (w : World S σ) :
    Ext cfg w (runProg cfg n p w).1 := by
  induction p generalizing w with
  | done s => exact Ext.refl cfg w
  | req r k ih =>
    simp only [runProg]
    exact ((ext_execReq cfg n r w).trans (ext_log cfg _ _ (by intro n cb t e; cases e))).trans (ih _ _)

theorem ext_callback (cfg : Config S) (P : NodeId → Proto S σ) (n : NodeId) (cb : Callback S)
    (w : World S σ) : Ext cfg w (callback cfg P n cb w) := by
  unfold callback
  simp only
  refine (ext_log cfg (.callback n cb (reportedTime cfg w)) w (by intro n' cb' t' e; injection e with _ _ e; exact e.symm)).trans ?_
  refine Ext.trans (ext_runProg cfg n ((P n).react (w.pstate n) n (reportedTime cfg w) cb) _) ?_
  exact Ext.of_core rfl rfl rfl rfl rfl rfl rfl

theorem ext_callbackAll (cfg : Config S) (P : NodeId → Proto S σ) (cb : Callback S)
    (ns : List NodeId) (w : World S σ) : Ext cfg w (callbackAll cfg P cb ns w) := by
  unfold callbackAll
  exact ext_foldl cfg _ _ (fun w n => ext_callback cfg P n cb w) w

theorem ext_logAll (cfg : Config S) (f : String → Obs S) (hf : ∀ h n cb t, f h ≠ Obs.callback n cb t)
    (hs : List String) (w : World S σ) : Ext cfg w (logAll f hs w) := by
  unfold logAll
  exact ext_foldl cfg _ _ (fun w h => ext_log cfg _ w (fun n cb t e => absurd e (hf h n cb t))) w

theorem ext_mobTick (cfg : Config S) (hdt : 0 ≤ cfg.dt) (w : World S σ) : Ext cfg w (mobTick cfg w) := by
  unfold mobTick
  simp only
  refine Ext.trans (ext_foldl cfg _ _ ?_ w) (ext_sched cfg _ _ _ (by omega))
  intro w n
  refine Ext.trans (b := { w with pos := upd w.pos n (Mobility.step cfg.dtS (w.pos n) (w.target n) (w.speed n)) }) ?_ ?_
  · exact Ext.of_core rfl rfl rfl rfl rfl rfl rfl
  · exact ext_sched cfg _ _ _ (Int.le_refl _)

theorem ext_execEv (cfg : Config S) (hdt : 0 ≤ cfg.dt) (P : NodeId → Proto S σ)
    (e : Ev (EvKind S)) (w : World S σ) : Ext cfg w (execEv cfg P e w) := by
  unfold execEv
  split
  · split
    · refine Ext.trans (b := { w with pending := w.pending.erase _ }) ?_ (ext_callback _ _ _ _ _)
      exact Ext.of_core rfl rfl rfl rfl rfl rfl rfl
    · exact Ext.refl cfg w
  · exact ext_callback _ _ _ _ _
  · exact ext_mobTick cfg hdt w
  · exact ext_callback _ _ _ _ _

end Sim
