import GradysModel.Camera
/-
  Scalar-generic facts about the camera model (core Lean only): the named pieces of `judge`,
  the order axioms its totality needs, the clamp bounds, and the closed form of `takePicture`.
-/
namespace Camera
variable {S : Type} [Scalar S]

/-- The order facts the totality of `judge` rests on.  They are implied by "`le`/`lt` is a total
    preorder and `acos?` is defined on [-1, 1]" but are much weaker: nothing is asked of `le` away
    from the two constants, so IEEE doubles (NaN included: `min(1.0, nan) = 1.0` in Python's
    `min`) satisfy them as well. -/
class LawfulOrderScalar (S : Type) [Scalar S] : Prop where
  lt_le : ∀ a b : S, Scalar.lt a b = true → Scalar.le a b = true
  one_le_one : Scalar.le (Scalar.ofInt 1 : S) (Scalar.ofInt 1) = true
  negone_le_negone :
    Scalar.le (Scalar.neg (Scalar.ofInt 1) : S) (Scalar.neg (Scalar.ofInt 1)) = true
  negone_le_one : Scalar.le (Scalar.neg (Scalar.ofInt 1) : S) (Scalar.ofInt 1) = true
  /-- `math.acos` does not raise on [-1, 1] -/
  acos_dom : ∀ x : S, Scalar.le (Scalar.neg (Scalar.ofInt 1)) x = true →
    Scalar.le x (Scalar.ofInt 1) = true → (Scalar.acos? x).isSome = true

/-- `max(-1.0, min(1.0, d))` -/
def clamp (d : S) : S :=
  Scalar.max (Scalar.neg (Scalar.ofInt 1)) (Scalar.min (Scalar.ofInt 1) d)

/-- `relative_vector` -/
def rel (self other : V3 S) : V3 S :=
  ⟨Scalar.sub other.x self.x, Scalar.sub other.y self.y, Scalar.sub other.z self.z⟩

/-- `distance` -/
def cdist (self other : V3 S) : S :=
  let r := rel self other
  Scalar.sqrt (Scalar.add (Scalar.add (Scalar.sq r.x) (Scalar.sq r.y)) (Scalar.sq r.z))

/-- `dot_product` (with the normalisation by `distance`, in the source's operation order) -/
def cdot (c : Config S) (self other : V3 S) : S :=
  let cv := axis c
  let r := rel self other
  let d := cdist self other
  Scalar.add (Scalar.add (Scalar.mul cv.x (Scalar.div r.x d)) (Scalar.mul cv.y (Scalar.div r.y d)))
    (Scalar.mul cv.z (Scalar.div r.z d))

/-- `judge` in terms of its named pieces, for every value `dot` may take -/
def judgeWith (c : Config S) (distance dot : S) : Verdict :=
  if Scalar.gt distance c.reach then .outOfReach
  else if Scalar.gt distance (Scalar.ofInt 0) then
    match Scalar.acos? (clamp dot) with
    | none => .error
    | some ac =>
      if Scalar.gt (Scalar.sub ac c.tol) (Scalar.radians c.thetaDeg) then .outOfAngle else .detected
  else .detected

theorem judge_eq (c : Config S) (self other : V3 S) :
    judge c self other = judgeWith c (cdist self other) (cdot c self other) := rfl

theorem clamp_bounds [LawfulOrderScalar S] (d : S) :
    Scalar.le (Scalar.neg (Scalar.ofInt 1)) (clamp d) = true ∧
    Scalar.le (clamp d) (Scalar.ofInt 1) = true := by
  unfold clamp Scalar.max Scalar.min
  by_cases h1 : Scalar.lt d (Scalar.ofInt 1) = true
  · rw [if_pos h1]
    by_cases h2 : Scalar.lt (Scalar.neg (Scalar.ofInt 1)) d = true
    · rw [if_pos h2]
      exact ⟨LawfulOrderScalar.lt_le _ _ h2, LawfulOrderScalar.lt_le _ _ h1⟩
    · rw [if_neg h2]
      exact ⟨LawfulOrderScalar.negone_le_negone, LawfulOrderScalar.negone_le_one⟩
  · rw [if_neg h1]
    by_cases h2 : Scalar.lt (Scalar.neg (Scalar.ofInt 1)) (Scalar.ofInt 1 : S) = true
    · rw [if_pos h2]
      exact ⟨LawfulOrderScalar.negone_le_one, LawfulOrderScalar.one_le_one⟩
    · rw [if_neg h2]
      exact ⟨LawfulOrderScalar.negone_le_negone, LawfulOrderScalar.negone_le_one⟩

theorem acos_clamp_isSome [LawfulOrderScalar S] (d : S) :
    (Scalar.acos? (clamp d)).isSome = true :=
  LawfulOrderScalar.acos_dom _ (clamp_bounds d).1 (clamp_bounds d).2

theorem judgeWith_ne_error [LawfulOrderScalar S] (c : Config S) (distance dot : S) :
    judgeWith c distance dot ≠ .error := by
  unfold judgeWith
  have h := acos_clamp_isSome dot
  split
  · simp
  · split
    · split
      · rename_i hn; rw [hn] at h; simp at h
      · split <;> simp
    · simp

/-- the picture step function of `takePicture` -/
def picStep (c : Config S) (self : V3 S) (acc : List (Nat × V3 S)) (p : Nat × V3 S) :
    Option (List (Nat × V3 S)) :=
  match judge c self p.2 with
  | .detected => some (acc ++ [p])
  | .error => none
  | _ => some acc

theorem takePicture_def (c : Config S) (selfId : Nat) (self : V3 S) (nodes : List (Nat × V3 S)) :
    takePicture c selfId self nodes
      = (nodes.filter (fun p => p.1 != selfId)).foldlM (picStep c self) [] := rfl

theorem foldlM_picStep (c : Config S) (self : V3 S) (l : List (Nat × V3 S))
    (h : ∀ p ∈ l, judge c self p.2 ≠ .error) (acc : List (Nat × V3 S)) :
    l.foldlM (picStep c self) acc
      = some (acc ++ l.filter (fun p => decide (judge c self p.2 = .detected))) := by
  induction l generalizing acc with
  | nil => simp
  | cons p l ih =>
    have hp := h p (List.mem_cons_self ..)
    have hl : ∀ q ∈ l, judge c self q.2 ≠ .error := fun q hq => h q (List.mem_cons_of_mem _ hq)
    rw [List.foldlM_cons]
    cases hj : judge c self p.2 with
    | detected =>
      have : picStep c self acc p = some (acc ++ [p]) := by unfold picStep; rw [hj]
      rw [this]
      show (l.foldlM (picStep c self) (acc ++ [p])) = _
      rw [ih hl, List.filter_cons, if_pos (by simp [hj])]
      simp
    | error => exact absurd hj hp
    | outOfReach =>
      have : picStep c self acc p = some acc := by unfold picStep; rw [hj]
      rw [this]
      show (l.foldlM (picStep c self) acc) = _
      rw [ih hl, List.filter_cons, if_neg (by simp [hj])]
    | outOfAngle =>
      have : picStep c self acc p = some acc := by unfold picStep; rw [hj]
      rw [this]
      show (l.foldlM (picStep c self) acc) = _
      rw [ih hl, List.filter_cons, if_neg (by simp [hj])]

/-- closed form of the picture when no judgement errs: the other nodes, in registration order,
    filtered by the verdict -/
theorem takePicture_eq (c : Config S) (selfId : Nat) (self : V3 S) (nodes : List (Nat × V3 S))
    (h : ∀ p ∈ nodes, judge c self p.2 ≠ .error) :
    takePicture c selfId self nodes
      = some (nodes.filter (fun p => p.1 != selfId && decide (judge c self p.2 = .detected))) := by
  rw [takePicture_def, foldlM_picStep c self _ (fun p hp => h p (List.mem_filter.mp hp).1)]
  simp [List.filter_filter, Bool.and_comm]

/-! ### several cameras (`Fleet`): what `change_facing` and the constructor change -/

omit [Scalar S] in
/-- `change_facing` on camera `i` leaves what ANY other camera `j` works with untouched — also when
    `j` holds the very configuration object `i` writes into: `j` reads only the reach from it. -/
theorem view_changeFacing_ne (f : Fleet S) (i : Nat) (elev rot : S) (j : Nat) (hj : j ≠ i) :
    (f.changeFacing i elev rot).view j = f.view j := by
  have hij : i ≠ j := Ne.symm hj
  unfold Fleet.changeFacing
  cases hi : f.cams[i]? with
  | none => rfl
  | some cam =>
    cases hcj : f.cams[j]? with
    | none => simp [Fleet.view, List.getElem?_modify, hcj]
    | some camj =>
      cases hc : f.confs[camj.conf]? with
      | none => simp [Fleet.view, List.getElem?_modify, hcj, hc, hij]
      | some c =>
        by_cases he : cam.conf = camj.conf <;> simp [Fleet.view, hcj, hc, hij, he]

omit [Scalar S] in
/-- `change_facing` on camera `i` gives camera `i` the new angles and nothing else. -/
theorem view_changeFacing_eq (f : Fleet S) (i : Nat) (elev rot : S) (selfId : Nat) (c : Config S)
    (h : f.view i = some (selfId, c)) :
    (f.changeFacing i elev rot).view i
      = some (selfId, { c with elevationDeg := elev, rotationDeg := rot }) := by
  unfold Fleet.changeFacing
  cases hi : f.cams[i]? with
  | none => simp [Fleet.view, hi] at h
  | some cam =>
    cases hc : f.confs[cam.conf]? with
    | none => simp [Fleet.view, hi, hc] at h
    | some c0 =>
      simp only [Fleet.view, hi, hc, Option.some.injEq, Prod.mk.injEq] at h
      obtain ⟨h1, h2⟩ := h
      subst h1 h2
      simp [Fleet.view, hi, hc]

omit [Scalar S] in
/-- the constructor: the new camera works with exactly the configuration it was given, the
    cameras built before are untouched. -/
theorem view_construct (f : Fleet S) (selfId k : Nat) (c : Config S) (hk : f.confs[k]? = some c) :
    (f.construct selfId k).view f.cams.length = some (selfId, c) ∧
    ∀ j, j < f.cams.length → (f.construct selfId k).view j = f.view j := by
  unfold Fleet.construct
  rw [hk]
  refine ⟨?_, fun j hj => ?_⟩
  · simp [Fleet.view, hk]
  · simp [Fleet.view, List.getElem?_append_left hj]

end Camera
