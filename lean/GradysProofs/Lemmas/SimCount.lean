import GradysProofs.Lemmas.SimTimer
/-
  Run-level COUNTING over the trace of every reachable world (C07 / C08).

  Counters are `List.countP` of Boolean predicates over the trace (`World.trace`), the queue, and the
  ghost lists `raccepted` / `rexecuted`.  The chain  sched → execReq → runProg → callback → mobTick →
  execEv → execStep → step → steps  is proved ONCE, generically (`CountSpec`, `Grow`): for a
  predicate `po` on observations, `pa` on accepted events and `px` on executed events, every function
  of the chain increases  `countP pa raccepted + countP px rexecuted`  and  `countP po rtrace`  by
  amounts related by an additive relation `R` (`=`, `≤`, `≥`); a condition `G` on the worlds in which
  requests are executed can be carried along the run (`OkSteps`).  The instances are
   * `spec_setT`      accepted `set_timer` requests  =  created timer events        (`pa`, `=`)
   * `spec_firedT`    `handle_timer` calls           ≤  executed timer events       (`px`, `≥`)
   * `spec_handledP`, `spec_handledTo`  `handle_packet` calls = executed delivery events (`px`, `=`)
   * `spec_addr`      created delivery events ≤ accepted send/broadcast requests addressing the node
   * `spec_addr_eq`   ... with equality, under a loss-free medium and `G` = every range test true.
  Last part (`QExt`, `FExt`, `FInv`): as long as no `cancel_timer(name)` by `n` was accepted, every
  queued timer event of `(n, name)` is still pending, hence each executed one made its callback.
-/
set_option linter.unusedSectionVars false

namespace Sim
variable {S σ : Type} [Scalar S]

/-! ### the Boolean predicates -/

/-- `handle_timer(name)` called on node `n`, reporting time `t` -/
def isTimerCb (n : NodeId) (name : String) (t : Int) : Obs S → Bool
  | .callback m (.timer nm) t' => decide (m = n ∧ nm = name ∧ t' = t)
  | _ => false

/-- an accepted `set_timer(name, t)` request by node `n` -/
def isSetAcc (n : NodeId) (name : String) (t : Int) : Obs S → Bool
  | .request m (.setTimer nm at_) true => decide (m = n ∧ nm = name ∧ at_ = t)
  | _ => false

/-- an accepted `cancel_timer(name)` request by node `n` -/
def isCancelAcc (n : NodeId) (name : String) : Obs S → Bool
  | .request m (.cancelTimer nm) true => decide (m = n ∧ nm = name)
  | _ => false

/-- a timer event of node `n` and name `name` due at `t` -/
def isTimerEv (n : NodeId) (name : String) (t : Int) (e : Ev (EvKind S)) : Bool :=
  match e.kind with
  | .timerFire m nm _ => decide (m = n ∧ nm = name ∧ e.ts = t)
  | _ => false

/-- `handle_packet(msg)` called on node `dst`, reporting time `t` -/
def isPacketCb (dst : NodeId) (msg : String) (t : Int) : Obs S → Bool
  | .callback m (.packet mg) t' => decide (m = dst ∧ mg = msg ∧ t' = t)
  | _ => false

/-- `handle_packet(msg)` called on node `dst`, any reported time -/
def isPacketCbAny (dst : NodeId) (msg : String) : Obs S → Bool
  | .callback m (.packet mg) _ => decide (m = dst ∧ mg = msg)
  | _ => false

/-- a delivery event for node `dst` with payload `msg` due at `t` -/
def isDeliverEv (dst : NodeId) (msg : String) (t : Int) (e : Ev (EvKind S)) : Bool :=
  match e.kind with
  | .deliver d _ mg => decide (d = dst ∧ mg = msg ∧ e.ts = t)
  | _ => false

/-- a delivery event for node `dst` with payload `msg`, any time -/
def isDeliverTo (dst : NodeId) (msg : String) (e : Ev (EvKind S)) : Bool :=
  match e.kind with
  | .deliver d _ mg => decide (d = dst ∧ mg = msg)
  | _ => false

/-- an accepted `send(msg, dst)` request (by any node) -/
def isSendAcc (dst : NodeId) (msg : String) : Obs S → Bool
  | .request _ (.send mg (some d)) true => decide (mg = msg ∧ d = (dst : Int))
  | _ => false

/-- an accepted `broadcast(msg)` request by a node other than `dst` -/
def isBcastAcc (dst : NodeId) (msg : String) : Obs S → Bool
  | .request m (.broadcast mg) true => decide (mg = msg ∧ m ≠ dst)
  | _ => false

/-- an accepted request that addresses `dst` with `msg` (unicast to it, or broadcast by another node) -/
def isAddrAcc (dst : NodeId) (msg : String) (o : Obs S) : Bool := isSendAcc dst msg o || isBcastAcc dst msg o

/-! ### the counters of a world -/

/-- number of `handle_timer(name)` calls on `n` reporting time `t` in the trace -/
def firedT (w : World S σ) (n : NodeId) (name : String) (t : Int) : Nat := w.trace.countP (isTimerCb n name t)
/-- number of accepted `set_timer(name, t)` requests by `n` in the trace -/
def accSetT (w : World S σ) (n : NodeId) (name : String) (t : Int) : Nat := w.trace.countP (isSetAcc n name t)
/-- number of accepted `cancel_timer(name)` requests by `n` in the trace -/
def accCancelT (w : World S σ) (n : NodeId) (name : String) : Nat := w.trace.countP (isCancelAcc n name)
/-- number of queued timer events of `(n, name)` due at `t` -/
def queuedT (w : World S σ) (n : NodeId) (name : String) (t : Int) : Nat := w.loop.queue.countP (isTimerEv n name t)
/-- number of executed timer events of `(n, name)` due at `t` -/
def execdT (w : World S σ) (n : NodeId) (name : String) (t : Int) : Nat := w.executed.countP (isTimerEv n name t)
/-- number of created (accepted by the event loop) timer events of `(n, name)` due at `t` -/
def createdT (w : World S σ) (n : NodeId) (name : String) (t : Int) : Nat := w.accepted.countP (isTimerEv n name t)

/-- number of `handle_packet(msg)` calls on `dst` reporting time `t` in the trace -/
def handledP (w : World S σ) (dst : NodeId) (msg : String) (t : Int) : Nat := w.trace.countP (isPacketCb dst msg t)
/-- number of queued delivery events for `(dst, msg)` due at `t` -/
def queuedD (w : World S σ) (dst : NodeId) (msg : String) (t : Int) : Nat := w.loop.queue.countP (isDeliverEv dst msg t)
/-- number of executed delivery events for `(dst, msg)` due at `t` -/
def execdD (w : World S σ) (dst : NodeId) (msg : String) (t : Int) : Nat := w.executed.countP (isDeliverEv dst msg t)
/-- number of created delivery events for `(dst, msg)` due at `t` -/
def createdD (w : World S σ) (dst : NodeId) (msg : String) (t : Int) : Nat := w.accepted.countP (isDeliverEv dst msg t)
/-- number of created delivery events for `(dst, msg)`, any time -/
def createdTo (w : World S σ) (dst : NodeId) (msg : String) : Nat := w.accepted.countP (isDeliverTo dst msg)
/-- number of `handle_packet(msg)` calls on `dst` in the trace, any time -/
def handledTo (w : World S σ) (dst : NodeId) (msg : String) : Nat := w.trace.countP (isPacketCbAny dst msg)
/-- number of executed delivery events for `(dst, msg)`, any time -/
def execdTo (w : World S σ) (dst : NodeId) (msg : String) : Nat := w.executed.countP (isDeliverTo dst msg)
/-- number of queued delivery events for `(dst, msg)`, any time -/
def queuedTo (w : World S σ) (dst : NodeId) (msg : String) : Nat := w.loop.queue.countP (isDeliverTo dst msg)
/-- number of accepted `send(msg, dst)` requests in the trace -/
def accSendTo (w : World S σ) (dst : NodeId) (msg : String) : Nat := w.trace.countP (isSendAcc dst msg)
/-- number of accepted `broadcast(msg)` requests by nodes other than `dst` in the trace -/
def accBcastNotBy (w : World S σ) (dst : NodeId) (msg : String) : Nat := w.trace.countP (isBcastAcc dst msg)

theorem trace_countP (w : World S σ) (p : Obs S → Bool) : w.trace.countP p = w.rtrace.countP p := by
  unfold World.trace; exact List.countP_reverse
theorem executed_countP (w : World S σ) (p : Ev (EvKind S) → Bool) : w.executed.countP p = w.rexecuted.countP p := by
  unfold World.executed; exact List.countP_reverse
theorem accepted_countP (w : World S σ) (p : Ev (EvKind S) → Bool) : w.accepted.countP p = w.raccepted.countP p := by
  unfold World.accepted; exact List.countP_reverse

/-- conservation per predicate: created = executed + queued (from `WInv.perm`) -/
theorem winv_countP {w : World S σ} (h : WInv w) (p : Ev (EvKind S) → Bool) :
    w.raccepted.countP p = w.rexecuted.countP p + w.loop.queue.countP p := by
  rw [← h.perm.countP_eq p, List.countP_append]

/-! ### the generic chain -/

/-- 1 if `b` else 0 -/
def bit (b : Bool) : Nat := if b then 1 else 0

@[simp] theorem bit_true : bit true = 1 := rfl
@[simp] theorem bit_false : bit false = 0 := rfl
theorem bit_le_one (b : Bool) : bit b ≤ 1 := by cases b <;> simp

theorem countP_cons_bit {α : Type} (p : α → Bool) (a : α) (l : List α) :
    (a :: l).countP p = l.countP p + bit (p a) := by
  rw [List.countP_cons]; rfl

/-- relations on increments that are closed under addition -/
structure AddRel (R : Nat → Nat → Prop) : Prop where
  zero : R 0 0
  add : ∀ {a b c d : Nat}, R a b → R c d → R (a + c) (b + d)

theorem addRel_eq : AddRel (fun a b : Nat => a = b) := ⟨rfl, fun h1 h2 => by omega⟩
theorem addRel_le : AddRel (fun a b : Nat => a ≤ b) := ⟨Nat.le_refl _, fun h1 h2 => by omega⟩
theorem addRel_ge : AddRel (fun a b : Nat => b ≤ a) := ⟨Nat.le_refl _, fun h1 h2 => by omega⟩

/-- the event-side measure: accepted events satisfying `pa` plus executed events satisfying `px` -/
def mA (pa px : Ev (EvKind S) → Bool) (w : World S σ) : Nat := w.raccepted.countP pa + w.rexecuted.countP px
/-- the trace-side measure -/
def mT (po : Obs S → Bool) (w : World S σ) : Nat := w.rtrace.countP po

/-- from `w` to `w'` both measures grow, by `R`-related amounts -/
def Grow (R : Nat → Nat → Prop) (pa px : Ev (EvKind S) → Bool) (po : Obs S → Bool) (w w' : World S σ) : Prop :=
  ∃ da dt, mA pa px w' = mA pa px w + da ∧ mT po w' = mT po w + dt ∧ R da dt

/-- number of counted observations the execution of `e` adds directly (the callback it makes), `pend`
    telling whether the timer of a timer event is still pending, `t` the reported time -/
def evInc (po : Obs S → Bool) (t : Int) (e : Ev (EvKind S)) (pend : Bool) : Nat :=
  match e.kind with
  | .timerFire n name _ => if pend then bit (po (.callback n (.timer name) t)) else 0
  | .deliver dst _ msg => bit (po (.callback dst (.packet msg) t))
  | .mobTick => 0
  | .telemetry n p => bit (po (.callback n (.telemetry p) t))

/-! A condition `G n r w` on the worlds in which requests are executed can be carried along a run
    (`OkProg` … `OkSteps`: "`G` holds at every request the run executes").  The unconditional
    instances use `NoCond`. -/

section ok
variable (G : NodeId → Request S → World S σ → Prop) (cfg : Config S) (P : NodeId → Proto S σ)

/-- `G` holds at every request the program executes from `w` -/
def OkProg (n : NodeId) : Prog S σ → World S σ → Prop
  | .done _, _ => True
  | .req r k, w => G n r w ∧
      OkProg n (k (execReq cfg n r w).2) (log (.request n r (execReq cfg n r w).2) (execReq cfg n r w).1)

def OkCallback (n : NodeId) (cb : Callback S) (w : World S σ) : Prop :=
  OkProg G cfg n ((P n).react (w.pstate n) n (reportedTime cfg w) cb) (log (.callback n cb (reportedTime cfg w)) w)

def OkCallbackAll (cb : Callback S) : List NodeId → World S σ → Prop
  | [], _ => True
  | n :: ns, w => OkCallback G cfg P n cb w ∧ OkCallbackAll cb ns (callback cfg P n cb w)

def OkExecEv (e : Ev (EvKind S)) (w : World S σ) : Prop :=
  match e.kind with
  | .timerFire n name id => w.pending.contains (n, name, id) = true →
      OkCallback G cfg P n (.timer name) { w with pending := w.pending.erase (n, name, id) }
  | .deliver dst _ msg => OkCallback G cfg P dst (.packet msg) w
  | .mobTick => True
  | .telemetry n p => OkCallback G cfg P n (.telemetry p) w

def OkInitialise (w : World S σ) : Prop :=
  OkCallbackAll G cfg P .initialize (List.range cfg.nNodes)
    (logAll .handlerInit cfg.handlers { w with initialized := true })

def OkFinalise (w : World S σ) : Prop :=
  w.finalized = false → OkCallbackAll G cfg P .finish (List.range cfg.nNodes) w

def OkPrep (w : World S σ) : Prop := w.initialized = false → OkInitialise G cfg P w

/-- `G` holds at every request executed by one `step_simulation` call from `w` -/
def OkStep (w : World S σ) : Prop :=
  w.finalized = false →
    OkPrep G cfg P w ∧
    OkFinalise G cfg P (prep cfg P w) ∧
    (∀ e rest, (prep cfg P w).loop.queue = e :: rest →
      OkExecEv G cfg P e (popped e rest (prep cfg P w)) ∧
      OkFinalise G cfg P (execStep cfg P e rest (prep cfg P w)))

/-- `G` holds at every request executed by `k` calls of `step_simulation` from `w` -/
def OkSteps : Nat → World S σ → Prop
  | 0, _ => True
  | k + 1, w => OkStep G cfg P w ∧ OkSteps k (step cfg P w).1

variable {G cfg P}

theorem okProg_of_forall (hG : ∀ n r w, G n r w) (n : NodeId) (p : Prog S σ) (w : World S σ) :
    OkProg G cfg n p w := by
  induction p generalizing w with
  | done s => trivial
  | req r k ih => exact ⟨hG n r w, ih _ _⟩

theorem okCallbackAll_of_forall (hG : ∀ n r w, G n r w) (cb : Callback S) (ns : List NodeId)
    (w : World S σ) : OkCallbackAll G cfg P cb ns w := by
  induction ns generalizing w with
  | nil => trivial
  | cons n ns ih => exact ⟨okProg_of_forall hG _ _ _, ih _⟩

theorem okExecEv_of_forall (hG : ∀ n r w, G n r w) (e : Ev (EvKind S)) (w : World S σ) :
    OkExecEv G cfg P e w := by
  obtain ⟨ts, seq, kind⟩ := e
  cases kind with
  | timerFire n name id => exact fun _ => okProg_of_forall hG _ _ _
  | deliver dst src msg => exact okProg_of_forall hG _ _ _
  | mobTick => trivial
  | telemetry n p => exact okProg_of_forall hG _ _ _

theorem okStep_of_forall (hG : ∀ n r w, G n r w) (w : World S σ) : OkStep G cfg P w :=
  fun _ => ⟨fun _ => okCallbackAll_of_forall hG _ _ _, fun _ => okCallbackAll_of_forall hG _ _ _,
    fun e _ _ => ⟨okExecEv_of_forall hG e _, fun _ => okCallbackAll_of_forall hG _ _ _⟩⟩

theorem okSteps_of_forall (hG : ∀ n r w, G n r w) (k : Nat) (w : World S σ) : OkSteps G cfg P k w := by
  induction k generalizing w with
  | zero => trivial
  | succ k ih => exact ⟨okStep_of_forall hG w, ih _⟩

end ok

/-- no condition on the worlds in which requests are executed -/
abbrev NoCond : NodeId → Request S → World S σ → Prop := fun _ _ _ => True

/-- what the generic chain needs to know about the predicates (everything but the execution of an event) -/
structure CountSpec0 (σ : Type) (cfg : Config S) (R : Nat → Nat → Prop) (pa px : Ev (EvKind S) → Bool)
    (po : Obs S → Bool) (G : NodeId → Request S → World S σ → Prop) : Prop where
  rel : AddRel R
  /-- one request (executed in a world satisfying `G`): the accepted events it creates vs its own
      `request` observation -/
  req : ∀ (n : NodeId) (r : Request S) (w : World S σ), G n r w → ∃ da,
    (execReq cfg n r w).1.raccepted.countP pa = w.raccepted.countP pa + da ∧
    R da (bit (po (.request n r (execReq cfg n r w).2)))
  /-- mobility events are not counted on the accepted side -/
  mob : ∀ ts seq, pa ⟨ts, seq, .mobTick⟩ = false ∧ ∀ n p, pa ⟨ts, seq, .telemetry n p⟩ = false
  /-- lifecycle observations are not counted -/
  life : (∀ h, po (.handlerInit h) = false) ∧ (∀ h i t, po (.afterStep h i t) = false) ∧
    (∀ h, po (.handlerFinal h) = false) ∧ (∀ n t, po (.callback n .initialize t) = false) ∧
    (∀ n t, po (.callback n .finish t) = false)

structure CountSpec (σ : Type) (cfg : Config S) (R : Nat → Nat → Prop) (pa px : Ev (EvKind S) → Bool)
    (po : Obs S → Bool) (G : NodeId → Request S → World S σ → Prop) : Prop
    extends CountSpec0 σ cfg R pa px po G where
  /-- executing `e`: its own count on the executed side vs the callback observation it makes -/
  exec : ∀ (e : Ev (EvKind S)) (pend : Bool), R (bit (px e)) (evInc po (if cfg.hasTimer then e.ts else 0) e pend)

section chain
variable {R : Nat → Nat → Prop} {pa px : Ev (EvKind S) → Bool} {po : Obs S → Bool}
  {G : NodeId → Request S → World S σ → Prop}

theorem Grow.refl (hR : AddRel R) (w : World S σ) : Grow R pa px po w w := ⟨0, 0, rfl, rfl, hR.zero⟩

theorem Grow.trans (hR : AddRel R) {a b c : World S σ} (h1 : Grow R pa px po a b) (h2 : Grow R pa px po b c) :
    Grow R pa px po a c := by
  obtain ⟨da1, dt1, ha1, ht1, r1⟩ := h1
  obtain ⟨da2, dt2, ha2, ht2, r2⟩ := h2
  exact ⟨da1 + da2, dt1 + dt2, by omega, by omega, hR.add r1 r2⟩

theorem Grow.of_eq (hR : AddRel R) {w w' : World S σ} (h1 : w'.rtrace = w.rtrace)
    (h2 : w'.raccepted = w.raccepted) (h3 : w'.rexecuted = w.rexecuted) : Grow R pa px po w w' :=
  ⟨0, 0, by unfold mA; rw [h2, h3]; rfl, by unfold mT; rw [h1]; rfl, hR.zero⟩

theorem grow_log0 (hR : AddRel R) (o : Obs S) (ho : po o = false) (w : World S σ) :
    Grow R pa px po w (log o w) :=
  ⟨0, 0, rfl, by show (o :: w.rtrace).countP po = _; rw [countP_cons_bit, ho]; rfl, hR.zero⟩

theorem grow_sched0 (hR : AddRel R) (ts : Int) (k : EvKind S) (w : World S σ)
    (hk : pa ⟨ts, w.loop.nextSeq, k⟩ = false) : Grow R pa px po w (sched ts k w) :=
  ⟨0, 0, by
    show (_ :: w.raccepted).countP pa + w.rexecuted.countP px = _
    rw [countP_cons_bit, hk]; rfl, rfl, hR.zero⟩

theorem grow_foldl (hR : AddRel R) {α : Type} (f : World S σ → α → World S σ) (l : List α)
    (hf : ∀ w a, Grow R pa px po w (f w a)) (w : World S σ) : Grow R pa px po w (l.foldl f w) := by
  induction l generalizing w with
  | nil => exact Grow.refl hR w
  | cons a l ih => exact (hf w a).trans hR (ih (f w a))

theorem grow_logAll (hR : AddRel R) (f : String → Obs S) (hf : ∀ h, po (f h) = false) (hs : List String)
    (w : World S σ) : Grow R pa px po w (logAll f hs w) := by
  unfold logAll
  exact grow_foldl hR _ _ (fun w h => grow_log0 hR _ (hf h) w) w

variable {cfg : Config S}

theorem grow_runProg (hs : CountSpec0 σ cfg R pa px po G) (n : NodeId) (p : Prog S σ) (w : World S σ)
    (hok : OkProg G cfg n p w) : Grow R pa px po w (runProg cfg n p w).1 := by
  induction p generalizing w with
  | done s => exact Grow.refl hs.rel w
  | req r k ih =>
    simp only [runProg]
    refine Grow.trans hs.rel ?_ (ih _ _ hok.2)
    obtain ⟨da, hda, hr⟩ := hs.req n r w hok.1
    refine ⟨da, bit (po (.request n r (execReq cfg n r w).2)), ?_, ?_, hr⟩
    · show (execReq cfg n r w).1.raccepted.countP pa + (execReq cfg n r w).1.rexecuted.countP px = _
      rw [hda, (ext_execReq cfg n r w).exec_eq]; unfold mA; omega
    · show (_ :: (execReq cfg n r w).1.rtrace).countP po = _
      rw [countP_cons_bit, execReq_rtrace]; rfl

/-- a callback: its own observation, then a balanced program -/
theorem grow_callback (hs : CountSpec0 σ cfg R pa px po G) (P : NodeId → Proto S σ) (n : NodeId)
    (cb : Callback S) (w : World S σ) (hok : OkCallback G cfg P n cb w) :
    ∃ da dt, mA pa px (callback cfg P n cb w) = mA pa px w + da ∧
      mT po (callback cfg P n cb w) = mT po w + bit (po (.callback n cb (reportedTime cfg w))) + dt ∧
      R da dt := by
  unfold callback
  simp only
  obtain ⟨da, dt, ha, ht, hr⟩ := grow_runProg hs n ((P n).react (w.pstate n) n (reportedTime cfg w) cb)
    (log (.callback n cb (reportedTime cfg w)) w) hok
  refine ⟨da, dt, ha, ?_, hr⟩
  have : mT po (log (.callback n cb (reportedTime cfg w)) w) =
      mT po w + bit (po (.callback n cb (reportedTime cfg w))) := by
    show (_ :: w.rtrace).countP po = _
    rw [countP_cons_bit]; rfl
  rw [← this]; exact ht

theorem grow_callback0 (hs : CountSpec0 σ cfg R pa px po G) (P : NodeId → Proto S σ) (n : NodeId)
    (cb : Callback S) (w : World S σ) (h0 : po (.callback n cb (reportedTime cfg w)) = false)
    (hok : OkCallback G cfg P n cb w) : Grow R pa px po w (callback cfg P n cb w) := by
  obtain ⟨da, dt, ha, ht, hr⟩ := grow_callback hs P n cb w hok
  rw [h0] at ht
  exact ⟨da, dt, ha, by simpa using ht, hr⟩

theorem grow_callbackAll (hs : CountSpec0 σ cfg R pa px po G) (P : NodeId → Proto S σ) (cb : Callback S)
    (h0 : ∀ n t, po (.callback n cb t) = false) (ns : List NodeId) (w : World S σ)
    (hok : OkCallbackAll G cfg P cb ns w) : Grow R pa px po w (callbackAll cfg P cb ns w) := by
  unfold callbackAll
  induction ns generalizing w with
  | nil => exact Grow.refl hs.rel w
  | cons n ns ih =>
    exact (grow_callback0 hs P n cb w (h0 n _) hok.1).trans hs.rel (ih _ hok.2)

theorem grow_mobTick (hs : CountSpec0 σ cfg R pa px po G) (w : World S σ) :
    Grow R pa px po w (mobTick cfg w) := by
  unfold mobTick
  simp only
  refine Grow.trans hs.rel (grow_foldl hs.rel _ _ ?_ w) (grow_sched0 hs.rel _ _ _ (hs.mob _ _).1)
  intro w n
  refine Grow.trans hs.rel
    (b := { w with pos := upd w.pos n (Mobility.step cfg.dtS (w.pos n) (w.target n) (w.speed n)) }) ?_ ?_
  · exact Grow.of_eq hs.rel rfl rfl rfl
  · exact grow_sched0 hs.rel _ _ _ ((hs.mob _ _).2 _ _)

/-- whether the timer of a timer event is still pending in `w` -/
def pendOf (e : Ev (EvKind S)) (w : World S σ) : Bool :=
  match e.kind with
  | .timerFire n name id => w.pending.contains (n, name, id)
  | _ => false

theorem grow_execEv (hs : CountSpec0 σ cfg R pa px po G) (P : NodeId → Proto S σ) (e : Ev (EvKind S))
    (w : World S σ) (hok : OkExecEv G cfg P e w) :
    ∃ da dt, mA pa px (execEv cfg P e w) = mA pa px w + da ∧
      mT po (execEv cfg P e w) = mT po w + evInc po (reportedTime cfg w) e (pendOf e w) + dt ∧ R da dt := by
  obtain ⟨ts, seq, kind⟩ := e
  cases kind with
  | timerFire n name id =>
    simp only [execEv, evInc, pendOf]
    by_cases hc : w.pending.contains (n, name, id) = true
    · simp only [hc, ↓reduceIte]
      obtain ⟨da, dt, ha, ht, hr⟩ := grow_callback hs P n (.timer name)
        { w with pending := w.pending.erase (n, name, id) } (hok hc)
      exact ⟨da, dt, ha, ht, hr⟩
    · simp only [hc]
      exact ⟨0, 0, rfl, rfl, hs.rel.zero⟩
  | deliver dst src msg => exact grow_callback hs P dst (.packet msg) w hok
  | mobTick =>
    obtain ⟨da, dt, ha, ht, hr⟩ := grow_mobTick hs w
    exact ⟨da, dt, ha, ht, hr⟩
  | telemetry n p => exact grow_callback hs P n (.telemetry p) w hok

theorem grow_execStep' (hs : CountSpec0 σ cfg R pa px po G) (P : NodeId → Proto S σ) (e : Ev (EvKind S))
    (rest : List (Ev (EvKind S))) (w : World S σ) (hok : OkExecEv G cfg P e (popped e rest w))
    (hex : R (bit (px e)) (evInc po (if cfg.hasTimer then e.ts else 0) e (pendOf e (popped e rest w)))) :
    Grow R pa px po w (execStep cfg P e rest w) := by
  rw [execStep_eq]
  simp only
  obtain ⟨da, dt, ha, ht, hr⟩ := grow_execEv hs P e (popped e rest w) hok
  have hpa : mA pa px (popped e rest w) = mA pa px w + bit (px e) := by
    show w.raccepted.countP pa + (e :: w.rexecuted).countP px = _
    rw [countP_cons_bit]; unfold mA; omega
  have hpt : mT po (popped e rest w) = mT po w := rfl
  have hrt : reportedTime cfg (popped e rest w) = if cfg.hasTimer then e.ts else 0 := rfl
  have h1 : Grow R pa px po w (execEv cfg P e (popped e rest w)) := by
    refine ⟨bit (px e) + da, evInc po (if cfg.hasTimer then e.ts else 0) e (pendOf e (popped e rest w)) + dt,
      by omega, by rw [ht, hpt, hrt]; omega, hs.rel.add hex hr⟩
  refine Grow.trans hs.rel h1 (Grow.trans hs.rel
    (b := logAll (fun h => Obs.afterStep h (execEv cfg P e (popped e rest w)).iter e.ts) cfg.handlers
      (execEv cfg P e (popped e rest w)))
    (grow_logAll hs.rel _ (fun h => hs.life.2.1 _ _ _) _ _) ?_)
  exact Grow.of_eq hs.rel rfl rfl rfl

theorem grow_execStep (hs : CountSpec σ cfg R pa px po G) (P : NodeId → Proto S σ) (e : Ev (EvKind S))
    (rest : List (Ev (EvKind S))) (w : World S σ) (hok : OkExecEv G cfg P e (popped e rest w)) :
    Grow R pa px po w (execStep cfg P e rest w) :=
  grow_execStep' hs.toCountSpec0 P e rest w hok (hs.exec e _)

theorem grow_initialise (hs : CountSpec0 σ cfg R pa px po G) (P : NodeId → Proto S σ) (w : World S σ)
    (hok : OkInitialise G cfg P w) : Grow R pa px po w (initialise cfg P w) := by
  unfold initialise
  simp only
  refine Grow.trans hs.rel (b := { w with initialized := true }) (Grow.of_eq hs.rel rfl rfl rfl) ?_
  exact Grow.trans hs.rel (grow_logAll hs.rel _ hs.life.1 _ _)
    (grow_callbackAll hs P .initialize hs.life.2.2.2.1 _ _ hok)

theorem grow_prep (hs : CountSpec0 σ cfg R pa px po G) (P : NodeId → Proto S σ) (w : World S σ)
    (hok : OkPrep G cfg P w) : Grow R pa px po w (prep cfg P w) := by
  unfold prep
  cases hi : w.initialized with
  | true => simp only [if_true]; exact Grow.refl hs.rel w
  | false => simp only [Bool.false_eq_true, if_false]; exact grow_initialise hs P w (hok hi)

theorem grow_finalise (hs : CountSpec0 σ cfg R pa px po G) (P : NodeId → Proto S σ) (w : World S σ)
    (hok : OkFinalise G cfg P w) : Grow R pa px po w (finalise cfg P w) := by
  unfold finalise
  cases hf : w.finalized with
  | true => simp only [if_true]; exact Grow.refl hs.rel w
  | false =>
    simp only [Bool.false_eq_true, if_false]
    refine Grow.trans hs.rel (grow_callbackAll hs P .finish hs.life.2.2.2.2 (List.range cfg.nNodes) w (hok hf)) ?_
    refine Grow.trans hs.rel (grow_logAll hs.rel Obs.handlerFinal hs.life.2.2.1 cfg.handlers _) ?_
    exact Grow.of_eq hs.rel rfl rfl rfl

theorem grow_step (hs : CountSpec σ cfg R pa px po G) (P : NodeId → Proto S σ) (w : World S σ)
    (hok : OkStep G cfg P w) : Grow R pa px po w (step cfg P w).1 := by
  cases hf : w.finalized with
  | true => unfold step; simp only [hf, if_true]; exact Grow.refl hs.rel w
  | false =>
    rw [step_eq cfg P w hf]
    obtain ⟨ok1, ok2, ok3⟩ := hok hf
    have h1 : Grow R pa px po w (prep cfg P w) := grow_prep hs.toCountSpec0 P w ok1
    generalize prep cfg P w = w1 at h1 ok2 ok3
    split
    · exact h1.trans hs.rel (grow_finalise hs.toCountSpec0 P w1 ok2)
    · split
      · exact h1
      · rename_i e rest hq
        have h2 := h1.trans hs.rel (grow_execStep hs P e rest w1 (ok3 e rest hq).1)
        split
        · exact h2.trans hs.rel (grow_finalise hs.toCountSpec0 P _ (ok3 e rest hq).2)
        · exact h2

theorem grow_steps (hs : CountSpec σ cfg R pa px po G) (P : NodeId → Proto S σ) (k : Nat) (w : World S σ)
    (hok : OkSteps G cfg P k w) : Grow R pa px po w (steps cfg P k w) := by
  induction k generalizing w with
  | zero => exact Grow.refl hs.rel w
  | succ k ih => exact (grow_step hs P w hok.1).trans hs.rel (ih _ hok.2)

/-- the run-level statement of a `CountSpec`: after `k` steps along which `G` held at every request,
    the two measures are `R`-related -/
theorem steps_count (hs : CountSpec σ cfg R pa px po G) (P : NodeId → Proto S σ) (k : Nat)
    (hok : OkSteps G cfg P k (init cfg P)) :
    R (mA pa px (steps cfg P k (init cfg P))) (mT po (steps cfg P k (init cfg P))) := by
  obtain ⟨da, dt, ha, ht, hr⟩ := grow_steps hs P k (init cfg P) hok
  have h0a : mA pa px (init cfg P) = 0 := by
    rw [init_eq]
    split
    · show (_ :: ([] : List (Ev (EvKind S)))).countP pa + ([] : List (Ev (EvKind S))).countP px = 0
      rw [countP_cons_bit, (hs.mob _ _).1]; rfl
    · rfl
  have h0t : mT po (init cfg P) = 0 := by
    rw [init_eq]; split <;> rfl
  rw [ha, ht, h0a, h0t]
  simpa using hr

/-- `G` holds at every request issued through the providers before the first step -/
def OkPre (G : NodeId → Request S → World S σ → Prop) (cfg : Config S) :
    List (NodeId × Prog S σ) → World S σ → Prop
  | [], _ => True
  | np :: rest, w => OkProg G cfg np.1 np.2 w ∧ OkPre G cfg rest (runProg cfg np.1 np.2 w).1

theorem okPre_of_forall (hG : ∀ n r w, G n r w) (pre : List (NodeId × Prog S σ)) (w : World S σ) :
    OkPre G cfg pre w := by
  induction pre generalizing w with
  | nil => trivial
  | cons np rest ih => exact ⟨okProg_of_forall hG _ _ _, ih _⟩

theorem grow_pre (hs : CountSpec0 σ cfg R pa px po G) (pre : List (NodeId × Prog S σ)) (w : World S σ)
    (hok : OkPre G cfg pre w) :
    Grow R pa px po w (pre.foldl (fun w np => (runProg cfg np.1 np.2 w).1) w) := by
  induction pre generalizing w with
  | nil => exact Grow.refl hs.rel w
  | cons np rest ih => exact (grow_runProg hs np.1 np.2 w hok.1).trans hs.rel (ih _ hok.2)

/-- `steps_count` for a run that starts with requests issued through the providers before the first step -/
theorem steps_count_pre (hs : CountSpec σ cfg R pa px po G) (P : NodeId → Proto S σ)
    (pre : List (NodeId × Prog S σ)) (k : Nat) (hpre : OkPre G cfg pre (init cfg P))
    (hok : OkSteps G cfg P k (initWith cfg P pre)) :
    R (mA pa px (steps cfg P k (initWith cfg P pre))) (mT po (steps cfg P k (initWith cfg P pre))) := by
  have h0 := steps_count hs P 0 trivial
  have g := (grow_pre hs.toCountSpec0 pre (init cfg P) hpre).trans hs.rel
    (grow_steps hs P k (initWith cfg P pre) hok)
  obtain ⟨da, dt, ha, ht, hr⟩ := g
  have h0a : mA pa px (init cfg P) = 0 := by
    rw [init_eq]
    split
    · show (_ :: ([] : List (Ev (EvKind S)))).countP pa + ([] : List (Ev (EvKind S))).countP px = 0
      rw [countP_cons_bit, (hs.mob _ _).1]; rfl
    · rfl
  have h0t : mT po (init cfg P) = 0 := by
    rw [init_eq]; split <;> rfl
  rw [ha, ht, h0a, h0t]
  simpa using hr

/-- the executed event consumed and its callback run, WITHOUT the hooks and the counter: what a step does out of
    which the callback's exception escapes -/
theorem grow_execPopped (hs : CountSpec σ cfg R pa px po G) (P : NodeId → Proto S σ) (e : Ev (EvKind S))
    (rest : List (Ev (EvKind S))) (w : World S σ) (hok : OkExecEv G cfg P e (popped e rest w)) :
    Grow R pa px po w (execEv cfg P e (popped e rest w)) := by
  obtain ⟨da, dt, ha, ht, hr⟩ := grow_execEv hs.toCountSpec0 P e (popped e rest w) hok
  have hex := hs.exec e (pendOf e (popped e rest w))
  have hpa : mA pa px (popped e rest w) = mA pa px w + bit (px e) := by
    show w.raccepted.countP pa + (e :: w.rexecuted).countP px = _
    rw [countP_cons_bit]; unfold mA; omega
  have hpt : mT po (popped e rest w) = mT po w := rfl
  have hrt : reportedTime cfg (popped e rest w) = if cfg.hasTimer then e.ts else 0 := rfl
  exact ⟨bit (px e) + da, evInc po (if cfg.hasTimer then e.ts else 0) e (pendOf e (popped e rest w)) + dt,
    by omega, by rw [ht, hpt, hrt]; omega, hs.rel.add hex hr⟩

/-- a step out of which the callback's exception escaped (`Sim.stepRaised`) keeps every counting relation -/
theorem grow_stepRaised (hs : CountSpec σ cfg R pa px po NoCond) (P : NodeId → Proto S σ) (w : World S σ) :
    Grow R pa px po w (stepRaised cfg P w) := by
  have hG : ∀ (n : NodeId) (r : Request S) (w : World S σ), NoCond n r w := fun _ _ _ => trivial
  unfold stepRaised
  split
  · exact Grow.refl hs.rel w
  · have h1 : Grow R pa px po w (if w.initialized then w else initialise cfg P w) :=
      grow_prep hs.toCountSpec0 P w (fun _ => okCallbackAll_of_forall hG _ _ _)
    generalize (if w.initialized then w else initialise cfg P w) = w1 at h1
    simp only
    split
    · exact h1.trans hs.rel (grow_finalise hs.toCountSpec0 P w1 (fun _ => okCallbackAll_of_forall hG _ _ _))
    · split
      · exact h1
      · rename_i e rest hq
        exact h1.trans hs.rel (grow_execPopped hs P e rest w1 (okExecEv_of_forall hG e _))

/-- the unconditional case: in every reachable world the two measures are `R`-related -/
theorem reachable_count (hs : CountSpec σ cfg R pa px po NoCond) {P : NodeId → Proto S σ} {w : World S σ}
    (h : Reachable cfg P w) : R (mA pa px w) (mT po w) := by
  have g : Grow R pa px po (init cfg P) w := by
    refine h.rec_inv (I := fun w => Grow R pa px po (init cfg P) w) (Grow.refl hs.rel _)
      (fun w _ hg => hg.trans hs.rel (grow_step hs P w (okStep_of_forall (fun _ _ _ => trivial) w)))
      (fun w n p _ hg => hg.trans hs.rel (grow_runProg hs.toCountSpec0 n p w
        (okProg_of_forall (fun _ _ _ => trivial) _ _ _)))
  obtain ⟨da, dt, ha, ht, hr⟩ := g
  have h0 := steps_count hs P 0 trivial
  have h0a : mA pa px (init cfg P) = 0 := by
    rw [init_eq]
    split
    · show (_ :: ([] : List (Ev (EvKind S)))).countP pa + ([] : List (Ev (EvKind S))).countP px = 0
      rw [countP_cons_bit, (hs.mob _ _).1]; rfl
    · rfl
  have h0t : mT po (init cfg P) = 0 := by
    rw [init_eq]; split <;> rfl
  rw [ha, ht, h0a, h0t]
  simpa using hr

/-- ... and in every world a tolerant stepped driver reaches (`ReachableT`) -/
theorem reachableT_count (hs : CountSpec σ cfg R pa px po NoCond) {P : NodeId → Proto S σ} {w : World S σ}
    (h : ReachableT cfg P w) : R (mA pa px w) (mT po w) := by
  have g : Grow R pa px po (init cfg P) w := by
    induction h with
    | init => exact Grow.refl hs.rel _
    | step _ hg => exact hg.trans hs.rel (grow_step hs P _ (okStep_of_forall (fun _ _ _ => trivial) _))
    | ext n p _ hg => exact hg.trans hs.rel (grow_runProg hs.toCountSpec0 n p _
        (okProg_of_forall (fun _ _ _ => trivial) _ _ _))
    | raised _ hg => exact hg.trans hs.rel (grow_stepRaised hs P _)
  obtain ⟨da, dt, ha, ht, hr⟩ := g
  have h0 := steps_count hs P 0 trivial
  have h0a : mA pa px (init cfg P) = 0 := by
    rw [init_eq]
    split
    · show (_ :: ([] : List (Ev (EvKind S)))).countP pa + ([] : List (Ev (EvKind S))).countP px = 0
      rw [countP_cons_bit, (hs.mob _ _).1]; rfl
    · rfl
  have h0t : mT po (init cfg P) = 0 := by
    rw [init_eq]; split <;> rfl
  rw [ha, ht, h0a, h0t]
  simpa using hr

end chain

/-! ### what one request does to the accepted-event list, in four cases -/

theorem execReq_raccepted_cases (cfg : Config S) (n : NodeId) (r : Request S) (w : World S σ) :
    ((execReq cfg n r w).1.raccepted = w.raccepted ∧
      (cfg.hasTimer = true → ∀ name at_, r = .setTimer name at_ → (execReq cfg n r w).2 = false) ∧
      (cfg.hasComm = true → ∀ msg d, r = .send msg d → (execReq cfg n r w).2 = false) ∧
      (cfg.hasComm = true → ∀ msg, r ≠ .broadcast msg)) ∨
    (∃ name at_, r = .setTimer name at_ ∧ (execReq cfg n r w).2 = true ∧
      (execReq cfg n r w).1.raccepted =
        ⟨at_, w.loop.nextSeq, .timerFire n name (w.nextTimer n)⟩ :: w.raccepted) ∨
    (∃ msg d, r = .send msg (some d) ∧ ¬ d < 0 ∧ d < (cfg.nNodes : Int) ∧ d ≠ (n : Int) ∧
      (execReq cfg n r w).2 = true ∧
      (execReq cfg n r w).1.raccepted = (transmit cfg n d.toNat msg w).raccepted) ∨
    (∃ msg, r = .broadcast msg ∧ (execReq cfg n r w).2 = true ∧
      (execReq cfg n r w).1.raccepted = (broadcastTo cfg n msg (List.range cfg.nNodes) w).raccepted) := by
  cases r with
  | setTimer name at_ =>
    simp only [execReq]
    split
    · rename_i h
      exact Or.inl ⟨rfl, fun ht => (by simp [ht] at h), fun _ _ _ e => (by cases e), fun _ _ e => (by cases e)⟩
    · split
      · exact Or.inl ⟨rfl, fun _ _ _ _ => rfl, fun _ _ _ e => (by cases e), fun _ _ e => (by cases e)⟩
      · exact Or.inr (Or.inl ⟨name, at_, rfl, rfl, rfl⟩)
  | cancelTimer name =>
    refine Or.inl ⟨?_, fun _ _ _ e => (by cases e), fun _ _ _ e => (by cases e), fun _ _ e => (by cases e)⟩
    simp only [execReq]; split <;> rfl
  | send msg dst =>
    simp only [execReq]
    split
    · rename_i h
      exact Or.inl ⟨rfl, fun _ _ _ e => (by cases e), fun hc => (by simp [hc] at h), fun _ _ e => (by cases e)⟩
    · split
      · exact Or.inl ⟨rfl, fun _ _ _ e => (by cases e), fun _ _ _ _ => rfl, fun _ _ e => (by cases e)⟩
      · rename_i d
        split
        · exact Or.inl ⟨rfl, fun _ _ _ e => (by cases e), fun _ _ _ _ => rfl, fun _ _ e => (by cases e)⟩
        · split
          · exact Or.inl ⟨rfl, fun _ _ _ e => (by cases e), fun _ _ _ _ => rfl, fun _ _ e => (by cases e)⟩
          · rename_i h1 h2
            exact Or.inr (Or.inr (Or.inl ⟨msg, d, rfl, by omega, by omega, h1, rfl, rfl⟩))
  | broadcast msg =>
    simp only [execReq]
    split
    · rename_i h
      exact Or.inl ⟨rfl, fun _ _ _ e => (by cases e), fun _ _ _ e => (by cases e), fun hc => by simp [hc] at h⟩
    · exact Or.inr (Or.inr (Or.inr ⟨msg, rfl, rfl, rfl⟩))
  | goto p =>
    refine Or.inl ⟨?_, fun _ _ _ e => (by cases e), fun _ _ _ e => (by cases e), fun _ _ e => (by cases e)⟩
    simp only [execReq]; split <;> rfl
  | gotoGeo p =>
    refine Or.inl ⟨?_, fun _ _ _ e => (by cases e), fun _ _ _ e => (by cases e), fun _ _ e => (by cases e)⟩
    simp only [execReq]; split <;> rfl
  | setSpeed v =>
    refine Or.inl ⟨?_, fun _ _ _ e => (by cases e), fun _ _ _ e => (by cases e), fun _ _ e => (by cases e)⟩
    simp only [execReq]; split <;> rfl
  | setRange r =>
    refine Or.inl ⟨?_, fun _ _ _ e => (by cases e), fun _ _ _ e => (by cases e), fun _ _ e => (by cases e)⟩
    simp only [execReq]
    split
    · rfl
    · split <;> rfl

/-- the communication handler creates no timer event -/
theorem countP_kext {w w' : World S σ} (h : KExt w w') (p : Ev (EvKind S) → Bool)
    (hp : ∀ e, p e = true → e.kind.isTimer) : w'.raccepted.countP p = w.raccepted.countP p := by
  obtain ⟨new, hacc, hq⟩ := h.acc
  rw [hacc, List.countP_append]
  have : new.countP p = 0 := by
    rw [List.countP_eq_zero]
    intro e he hpe
    exact hq e he (hp e hpe)
  omega

theorem isTimerEv_isTimer {n : NodeId} {name : String} {t : Int} (e : Ev (EvKind S))
    (h : isTimerEv n name t e = true) : e.kind.isTimer := by
  unfold isTimerEv at h
  split at h
  · rename_i hk; rw [hk]; trivial
  · cases h

/-! ### instance 1: accepted `set_timer` requests = created timer events -/

theorem evInc_request_only (po : Obs S → Bool) (h : ∀ n cb t, po (.callback n cb t) = false) (t : Int)
    (e : Ev (EvKind S)) (pend : Bool) : evInc po t e pend = 0 := by
  obtain ⟨ts, seq, kind⟩ := e
  cases kind <;> simp [evInc, h]

theorem spec_setT (σ : Type) {cfg : Config S} (ht : cfg.hasTimer = true) (n : NodeId) (name : String) (t : Int) :
    CountSpec σ cfg (fun a b => a = b) (isTimerEv n name t) (fun _ => false) (isSetAcc n name t) NoCond where
  rel := addRel_eq
  req := by
    intro m r w _
    rcases execReq_raccepted_cases cfg m r w with ⟨h, h1, _, _⟩ | ⟨nm, at_, rfl, hok, h⟩ |
      ⟨msg, d, rfl, _, _, _, hok, h⟩ | ⟨msg, rfl, hok, h⟩
    · refine ⟨0, by rw [h]; rfl, ?_⟩
      cases r with
      | setTimer nm at_ => rw [h1 ht nm at_ rfl]; rfl
      | _ => rfl
    · refine ⟨_, by rw [h, countP_cons_bit], ?_⟩
      rw [hok]; rfl
    · refine ⟨0, ?_, by rw [hok]; rfl⟩
      rw [h, countP_kext (kext_transmit cfg m d.toNat msg w) _ isTimerEv_isTimer]; rfl
    · refine ⟨0, ?_, by rw [hok]; rfl⟩
      rw [h, countP_kext (kext_broadcastTo cfg m msg _ w) _ isTimerEv_isTimer]; rfl
  mob := fun _ _ => ⟨rfl, fun _ _ => rfl⟩
  life := ⟨fun _ => rfl, fun _ _ _ => rfl, fun _ => rfl, fun _ _ => rfl, fun _ _ => rfl⟩
  exec := by
    intro e pend
    rw [evInc_request_only _ (fun _ _ _ => rfl)]; rfl

/-! ### instances 2 and 3: callbacks vs executed events -/

theorem req_callback_only {cfg : Config S} {R : Nat → Nat → Prop} {G : NodeId → Request S → World S σ → Prop}
    (hR : AddRel R) (po : Obs S → Bool)
    (h : ∀ n r ok, po (.request n r ok) = false) (n : NodeId) (r : Request S) (w : World S σ)
    (_ : G n r w) : ∃ da, (execReq cfg n r w).1.raccepted.countP (fun _ => false) = w.raccepted.countP (fun _ => false) + da ∧
      R da (bit (po (.request n r (execReq cfg n r w).2))) :=
  ⟨0, by simp, by rw [h]; exact hR.zero⟩

theorem spec_firedT (σ : Type) {cfg : Config S} (ht : cfg.hasTimer = true) (n : NodeId) (name : String) (t : Int) :
    CountSpec σ cfg (fun a b => b ≤ a) (fun _ => false) (isTimerEv n name t) (isTimerCb n name t) NoCond where
  rel := addRel_ge
  req := req_callback_only addRel_ge _ (fun _ _ _ => rfl)
  mob := fun _ _ => ⟨rfl, fun _ _ => rfl⟩
  life := ⟨fun _ => rfl, fun _ _ _ => rfl, fun _ => rfl, fun _ _ => rfl, fun _ _ => rfl⟩
  exec := by
    intro e pend
    obtain ⟨ts, seq, kind⟩ := e
    cases kind <;> cases pend <;> simp [evInc, isTimerEv, isTimerCb, ht]

theorem spec_handledP (σ : Type) {cfg : Config S} (ht : cfg.hasTimer = true) (dst : NodeId) (msg : String)
    (t : Int) :
    CountSpec σ cfg (fun a b => a = b) (fun _ => false) (isDeliverEv dst msg t) (isPacketCb dst msg t) NoCond where
  rel := addRel_eq
  req := req_callback_only addRel_eq _ (fun _ _ _ => rfl)
  mob := fun _ _ => ⟨rfl, fun _ _ => rfl⟩
  life := ⟨fun _ => rfl, fun _ _ _ => rfl, fun _ => rfl, fun _ _ => rfl, fun _ _ => rfl⟩
  exec := by
    intro e pend
    obtain ⟨ts, seq, kind⟩ := e
    cases kind <;> cases pend <;> simp [evInc, isDeliverEv, isPacketCb, ht]

theorem spec_handledTo (σ : Type) (cfg : Config S) (dst : NodeId) (msg : String) :
    CountSpec σ cfg (fun a b => a = b) (fun _ => false) (isDeliverTo dst msg) (isPacketCbAny dst msg) NoCond where
  rel := addRel_eq
  req := req_callback_only addRel_eq _ (fun _ _ _ => rfl)
  mob := fun _ _ => ⟨rfl, fun _ _ => rfl⟩
  life := ⟨fun _ => rfl, fun _ _ _ => rfl, fun _ => rfl, fun _ _ => rfl, fun _ _ => rfl⟩
  exec := by
    intro e pend
    obtain ⟨ts, seq, kind⟩ := e
    cases kind <;> cases pend <;> simp [evInc, isDeliverTo, isPacketCbAny]

@[simp] theorem mA_left (pa : Ev (EvKind S) → Bool) (w : World S σ) :
    mA pa (fun _ => false) w = w.raccepted.countP pa := by simp [mA]
@[simp] theorem mA_right (px : Ev (EvKind S) → Bool) (w : World S σ) :
    mA (fun _ => false) px w = w.rexecuted.countP px := by simp [mA]

/-! ### instance 4: created delivery events ≤ accepted requests addressing the node -/

theorem transmit_countP (cfg : Config S) (src d : NodeId) (mg : String) (w : World S σ)
    (p : Ev (EvKind S) → Bool) :
    (transmit cfg src d mg w).raccepted.countP p = w.raccepted.countP p +
      (if (consumeDraw cfg w).1 && inRange w src d then
        bit (p ⟨deliverTime cfg w, w.loop.nextSeq, .deliver d src mg⟩) else 0) := by
  rw [transmit_raccepted]
  split
  · rw [countP_cons_bit]
  · rfl

theorem transmit_countTo (cfg : Config S) (src d : NodeId) (mg : String) (dst : NodeId) (msg : String)
    (w : World S σ) :
    ∃ inc, (transmit cfg src d mg w).raccepted.countP (isDeliverTo dst msg) =
        w.raccepted.countP (isDeliverTo dst msg) + inc ∧ inc ≤ bit (decide (d = dst ∧ mg = msg)) := by
  refine ⟨_, transmit_countP cfg src d mg w _, ?_⟩
  split
  · exact Nat.le_refl _
  · exact Nat.zero_le _

/-- a broadcast creates, for `(dst, msg)`, at most one event per occurrence of `dst` among the
    destinations other than the sender, and none if the payload differs -/
theorem broadcastTo_countTo (cfg : Config S) (src : NodeId) (mg : String) (dst : NodeId) (msg : String)
    (dsts : List NodeId) (w : World S σ) :
    ∃ da, (broadcastTo cfg src mg dsts w).raccepted.countP (isDeliverTo dst msg) =
        w.raccepted.countP (isDeliverTo dst msg) + da ∧
      da ≤ dsts.countP (fun d => decide (d ≠ src ∧ d = dst ∧ mg = msg)) := by
  induction dsts generalizing w with
  | nil => exact ⟨0, rfl, Nat.le_refl _⟩
  | cons d ds ih =>
    unfold broadcastTo
    simp only [List.foldl_cons]
    by_cases hd : d = src
    · simp only [if_pos hd]
      obtain ⟨da, h1, h2⟩ := ih w
      refine ⟨da, h1, ?_⟩
      rw [countP_cons_bit]; omega
    · simp only [if_neg hd]
      obtain ⟨da, h1, h2⟩ := ih (transmit cfg src d mg w)
      obtain ⟨inc, h3, h4⟩ := transmit_countTo cfg src d mg dst msg w
      refine ⟨da + inc, ?_, ?_⟩
      · show (broadcastTo cfg src mg ds (transmit cfg src d mg w)).raccepted.countP _ = _
        rw [h1, h3]; omega
      · rw [countP_cons_bit]
        have : bit (decide (d = dst ∧ mg = msg)) = bit (decide (d ≠ src ∧ d = dst ∧ mg = msg)) := by
          simp [hd]
        omega

theorem countP_le_one_of_nodup {l : List NodeId} (h : l.Nodup) (p : NodeId → Bool) (dst : NodeId)
    (hp : ∀ d, p d = true → d = dst) : l.countP p ≤ 1 := by
  induction l with
  | nil => simp
  | cons a l ih =>
    have hn := List.nodup_cons.mp h
    rw [countP_cons_bit]
    cases hpa : p a with
    | false => simpa using ih hn.2
    | true =>
      have : l.countP p = 0 := by
        rw [List.countP_eq_zero]
        intro x hx hpx
        have h1 := hp a hpa
        have h2 := hp x hpx
        exact hn.1 (by rw [h1, ← h2]; exact hx)
      rw [this]; simp

theorem isAddrAcc_count (dst : NodeId) (msg : String) (l : List (Obs S)) :
    l.countP (isAddrAcc dst msg) = l.countP (isSendAcc dst msg) + l.countP (isBcastAcc dst msg) := by
  induction l with
  | nil => rfl
  | cons o l ih =>
    rw [countP_cons_bit, countP_cons_bit, countP_cons_bit, ih]
    have : bit (isAddrAcc dst msg o) = bit (isSendAcc dst msg o) + bit (isBcastAcc dst msg o) := by
      unfold isAddrAcc
      cases h1 : isSendAcc dst msg o <;> cases h2 : isBcastAcc dst msg o <;> simp
      -- both true is impossible: a `send` is not a `broadcast`
      unfold isSendAcc at h1
      unfold isBcastAcc at h2
      split at h1 <;> simp_all
    omega

theorem spec_addr (σ : Type) (cfg : Config S) (dst : NodeId) (msg : String) :
    CountSpec σ cfg (fun a b => a ≤ b) (isDeliverTo dst msg) (fun _ => false) (isAddrAcc dst msg) NoCond where
  rel := addRel_le
  req := by
    intro m r w _
    rcases execReq_raccepted_cases cfg m r w with ⟨h, _, _, _⟩ | ⟨nm, at_, rfl, hok, h⟩ |
      ⟨mg, d, rfl, hd0, _, _, hok, h⟩ | ⟨mg, rfl, hok, h⟩
    · exact ⟨0, by rw [h]; rfl, Nat.zero_le _⟩
    · exact ⟨0, by rw [h, countP_cons_bit]; rfl, Nat.zero_le _⟩
    · refine ⟨_, by rw [h, transmit_countP], ?_⟩
      rw [hok]
      split
      · have : d.toNat = dst → d = (dst : Int) := by omega
        simp only [isDeliverTo, isAddrAcc, isSendAcc, isBcastAcc, Bool.or_false]
        by_cases hm : mg = msg
        · by_cases hdd : d.toNat = dst
          · simp [hm, this hdd]
          · simp [hdd]
        · simp [hm]
      · exact Nat.zero_le _
    · obtain ⟨da, h1, h2⟩ := broadcastTo_countTo cfg m mg dst msg (List.range cfg.nNodes) w
      refine ⟨da, by rw [h, h1], Nat.le_trans h2 ?_⟩
      rw [hok]
      simp only [isAddrAcc, isSendAcc, isBcastAcc, Bool.false_or]
      by_cases hc : mg = msg ∧ m ≠ dst
      · rw [decide_eq_true hc]
        exact countP_le_one_of_nodup List.nodup_range _ dst (fun d hd => (of_decide_eq_true hd).2.1)
      · rw [decide_eq_false hc]
        have : (List.range cfg.nNodes).countP (fun d => decide (d ≠ m ∧ d = dst ∧ mg = msg)) = 0 := by
          rw [List.countP_eq_zero]
          intro d _ hd
          have hd := of_decide_eq_true hd
          exact hc ⟨hd.2.2, fun e => hd.1 (by rw [hd.2.1, e])⟩
        rw [this]; exact Nat.zero_le _
  mob := fun _ _ => ⟨rfl, fun _ _ => rfl⟩
  life := ⟨fun _ => rfl, fun _ _ _ => rfl, fun _ => rfl, fun _ _ => rfl, fun _ _ => rfl⟩
  exec := fun _ _ => Nat.zero_le _


/-! ### instance 5: loss-free medium, every range test true — created = addressed -/

/-- every `inRange` test the request makes in `w` succeeds -/
def RangeOkReq (cfg : Config S) (n : NodeId) (r : Request S) (w : World S σ) : Prop :=
  match r with
  | .send _ (some d) => ¬ d < 0 → d < (cfg.nNodes : Int) → d ≠ (n : Int) → inRange w n d.toNat = true
  | .broadcast _ => ∀ d, d < cfg.nNodes → d ≠ n → inRange w n d = true
  | _ => True

theorem broadcastTo_countTo_eq (cfg : Config S) (hl : Scalar.gt cfg.failRate (Scalar.ofInt 0) = false)
    (src : NodeId) (mg : String) (dst : NodeId) (msg : String) (dsts : List NodeId) (w : World S σ)
    (hr : ∀ d ∈ dsts, d ≠ src → inRange w src d = true) :
    (broadcastTo cfg src mg dsts w).raccepted.countP (isDeliverTo dst msg) =
      w.raccepted.countP (isDeliverTo dst msg) +
        dsts.countP (fun d => decide (d ≠ src ∧ d = dst ∧ mg = msg)) := by
  induction dsts generalizing w with
  | nil => rfl
  | cons d ds ih =>
    unfold broadcastTo
    simp only [List.foldl_cons]
    rw [countP_cons_bit]
    by_cases hd : d = src
    · simp only [if_pos hd]
      have := ih w (fun x hx => hr x (List.mem_cons_of_mem _ hx))
      unfold broadcastTo at this
      rw [this]
      simp [hd]
    · simp only [if_neg hd]
      have hfr := transmit_frame cfg src d mg w
      have hr' : ∀ x ∈ ds, x ≠ src → inRange (transmit cfg src d mg w) src x = true := by
        intro x hx hne
        have := hr x (List.mem_cons_of_mem _ hx) hne
        unfold inRange at this ⊢
        rw [hfr.1, hfr.2.1]; exact this
      have := ih (transmit cfg src d mg w) hr'
      unfold broadcastTo at this
      rw [this, transmit_countP, ((consumeDraw_spec cfg w).1.2 hl).1, hr d List.mem_cons_self hd]
      have hb : bit (isDeliverTo dst msg (⟨deliverTime cfg w, w.loop.nextSeq, .deliver d src mg⟩ : Ev (EvKind S))) =
          bit (decide (d ≠ src ∧ d = dst ∧ mg = msg)) := by simp [isDeliverTo, hd]
      simp only [Bool.and_self, if_true]
      rw [hb]; omega

theorem range_countP_addr' (k m dst : Nat) (hdst : dst < k) (b : Prop) [Decidable b] (p : Nat → Bool)
    (hp : ∀ d, p d = true ↔ (d ≠ m ∧ d = dst ∧ b)) :
    (List.range k).countP p = bit (decide (b ∧ m ≠ dst)) := by
  by_cases hc : b ∧ m ≠ dst
  · rw [decide_eq_true hc]
    have h1 := countP_le_one_of_nodup (List.nodup_range (n := k)) p dst (fun d hd => ((hp d).mp hd).2.1)
    have h2 : 0 < (List.range k).countP p :=
      List.countP_pos_iff.mpr ⟨dst, List.mem_range.mpr hdst, (hp dst).mpr ⟨fun e => hc.2 e.symm, rfl, hc.1⟩⟩
    simp only [bit_true]
    omega
  · rw [decide_eq_false hc]
    rw [List.countP_eq_zero.mpr]
    · rfl
    · intro d _ hd
      have hd := (hp d).mp hd
      exact hc ⟨hd.2.2, fun e => hd.1 (by rw [hd.2.1, e])⟩

theorem range_countP_addr (k m dst : Nat) (hdst : dst < k) (b : Prop) [Decidable b] :
    (List.range k).countP (fun d => decide (d ≠ m ∧ d = dst ∧ b)) = bit (decide (b ∧ m ≠ dst)) :=
  range_countP_addr' k m dst hdst b _ (fun _ => decide_eq_true_iff)

theorem spec_addr_eq (σ : Type) {cfg : Config S} (hc : cfg.hasComm = true)
    (hl : Scalar.gt cfg.failRate (Scalar.ofInt 0) = false) (dst : NodeId) (hdst : dst < cfg.nNodes)
    (msg : String) :
    CountSpec σ cfg (fun a b => a = b) (isDeliverTo dst msg) (fun _ => false) (isAddrAcc dst msg)
      (RangeOkReq cfg) where
  rel := addRel_eq
  req := by
    intro m r w hG
    rcases execReq_raccepted_cases cfg m r w with ⟨h, _, h2, h3⟩ | ⟨nm, at_, rfl, hok, h⟩ |
      ⟨mg, d, rfl, hd0, hlt, hne, hok, h⟩ | ⟨mg, rfl, hok, h⟩
    · refine ⟨0, by rw [h]; rfl, ?_⟩
      cases r with
      | send mg d => rw [h2 hc mg d rfl]; cases d <;> rfl
      | broadcast mg => exact absurd rfl (h3 hc mg)
      | _ => rfl
    · exact ⟨0, by rw [h, countP_cons_bit]; rfl, by rw [hok]; rfl⟩
    · refine ⟨_, by rw [h, transmit_countP], ?_⟩
      have hir : inRange w m d.toNat = true := hG hd0 hlt hne
      rw [hok, ((consumeDraw_spec cfg w).1.2 hl).1, hir]
      have h1 : d.toNat = dst → d = (dst : Int) := by omega
      have h2 : d = (dst : Int) → d.toNat = dst := by omega
      simp only [isDeliverTo, isAddrAcc, isSendAcc, isBcastAcc, Bool.or_false, Bool.and_self, if_true]
      by_cases hm : mg = msg
      · by_cases hdd : d.toNat = dst
        · simp [hm, h1 hdd]
        · have : ¬ d = (dst : Int) := fun e => hdd (h2 e)
          simp [hdd, this]
      · simp [hm]
    · refine ⟨_, by rw [h, broadcastTo_countTo_eq cfg hl m mg dst msg _ w
        (fun d hd hne => hG d (List.mem_range.mp hd) hne)], ?_⟩
      rw [hok, range_countP_addr _ _ _ hdst]
      simp only [isAddrAcc, isSendAcc, isBcastAcc, Bool.false_or]
  mob := fun _ _ => ⟨rfl, fun _ _ => rfl⟩
  life := ⟨fun _ => rfl, fun _ _ _ => rfl, fun _ => rfl, fun _ _ => rfl, fun _ _ => rfl⟩
  exec := by
    intro e pend
    rw [evInc_request_only _ (fun _ _ _ => rfl)]; rfl

/-! ### without a cancel, every queued timer event of `(n, name)` is still pending -/

/-- every queued timer event of `(n, name)` has its pending entry -/
def QP (n : NodeId) (name : String) (w : World S σ) : Prop :=
  ∀ e ∈ w.loop.queue, ∀ id, e.kind = .timerFire n name id → (n, name, id) ∈ w.pending

/-- no accepted `cancel_timer(name)` by `n` in the trace so far -/
def noCancel (n : NodeId) (name : String) (w : World S σ) : Prop := w.rtrace.countP (isCancelAcc n name) = 0

structure QExt (n : NodeId) (name : String) (w w' : World S σ) : Prop where
  back : noCancel n name w' → noCancel n name w
  keep : noCancel n name w' → QP n name w → QP n name w'

section qext
variable {n : NodeId} {name : String}

theorem QExt.refl (w : World S σ) : QExt n name w w := ⟨id, fun _ h => h⟩

theorem QExt.trans {a b c : World S σ} (h1 : QExt n name a b) (h2 : QExt n name b c) : QExt n name a c :=
  ⟨fun h => h1.back (h2.back h), fun h q => h2.keep h (h1.keep (h2.back h) q)⟩

theorem QExt.of_eq {w w' : World S σ} (h1 : w'.rtrace = w.rtrace) (h2 : w'.loop.queue = w.loop.queue)
    (h3 : w'.pending = w.pending) : QExt n name w w' :=
  ⟨fun h => by unfold noCancel at *; rw [← h1]; exact h,
   fun _ q => by unfold QP at *; rw [h2, h3]; exact q⟩

theorem qext_log (o : Obs S) (w : World S σ) : QExt n name w (log o w) :=
  ⟨fun h => by
    have h : (o :: w.rtrace).countP (isCancelAcc n name) = 0 := h
    rw [countP_cons_bit] at h
    exact Nat.eq_zero_of_add_eq_zero_right h, fun _ q => q⟩

theorem qext_sched (ts : Int) (k : EvKind S) (hk : ¬ k.isTimer) (w : World S σ) :
    QExt n name w (sched ts k w) :=
  ⟨id, fun _ q e he id hid => by
    rcases mem_insertEv.mp he with rfl | he
    · exact absurd (by rw [show k = _ from hid]; trivial) hk
    · exact q e he id hid⟩

theorem qext_foldl {α : Type} (f : World S σ → α → World S σ) (l : List α)
    (hf : ∀ w a, QExt n name w (f w a)) (w : World S σ) : QExt n name w (l.foldl f w) := by
  induction l generalizing w with
  | nil => exact QExt.refl w
  | cons a l ih => exact (hf w a).trans (ih (f w a))

theorem qext_consumeDraw (cfg : Config S) (w : World S σ) : QExt n name w (consumeDraw cfg w).2 := by
  unfold consumeDraw
  split
  · exact QExt.of_eq rfl rfl rfl
  · exact QExt.refl w

theorem qext_transmit (cfg : Config S) (src dst : NodeId) (msg : String) (w : World S σ) :
    QExt n name w (transmit cfg src dst msg w) := by
  unfold transmit
  simp only
  split
  · exact (qext_consumeDraw cfg w).trans (qext_sched _ _ (by intro h; exact h) _)
  · exact qext_consumeDraw cfg w

theorem qext_broadcastTo (cfg : Config S) (src : NodeId) (msg : String) (dsts : List NodeId)
    (w : World S σ) : QExt n name w (broadcastTo cfg src msg dsts w) := by
  unfold broadcastTo
  apply qext_foldl
  intro w d
  split
  · exact QExt.refl w
  · exact qext_transmit cfg src d msg w

theorem qext_mobTick (cfg : Config S) (w : World S σ) : QExt n name w (mobTick cfg w) := by
  unfold mobTick
  simp only
  refine QExt.trans (qext_foldl _ _ ?_ w) (qext_sched _ _ (by intro h; exact h) _)
  intro w m
  refine QExt.trans (b := { w with pos := upd w.pos m (Mobility.step cfg.dtS (w.pos m) (w.target m) (w.speed m)) }) ?_ ?_
  · exact QExt.of_eq rfl rfl rfl
  · exact qext_sched _ _ (by intro h; exact h) _

/-- one request together with its observation: only an accepted `cancel_timer(name)` by `n` may drop
    pending entries of `(n, name)`, and then the observation says so -/
theorem qext_execReq_log (cfg : Config S) (m : NodeId) (r : Request S) (w : World S σ) :
    QExt n name w (log (.request m r (execReq cfg m r w).2) (execReq cfg m r w).1) := by
  have hlog := qext_log (n := n) (name := name) (.request m r (execReq cfg m r w).2) (execReq cfg m r w).1
  cases r with
  | setTimer nm at_ =>
    refine QExt.trans ?_ hlog
    simp only [execReq]
    split
    · exact QExt.refl w
    · split
      · exact QExt.refl w
      · refine ⟨id, fun _ q e he id hid => ?_⟩
        have he : e ∈ insertEv ⟨at_, w.loop.nextSeq, .timerFire m nm (w.nextTimer m)⟩ w.loop.queue := he
        show (n, name, id) ∈ (m, nm, w.nextTimer m) :: w.pending
        rcases mem_insertEv.mp he with rfl | he
        · injection hid with h1 h2 h3
          subst h1; subst h2; subst h3
          exact List.mem_cons_self
        · exact List.mem_cons_of_mem _ (q e he id hid)
  | cancelTimer nm =>
    refine ⟨fun h => ?_, fun h q => ?_⟩
    · have := hlog.back h
      unfold noCancel at this ⊢
      rw [execReq_rtrace] at this; exact this
    · simp only [execReq] at h ⊢
      split
      · exact q
      · rename_i hT
        have h : (Obs.request m (.cancelTimer nm) true :: w.rtrace).countP (isCancelAcc n name) = 0 := by
          simpa [noCancel, log, hT] using h
        rw [countP_cons_bit] at h
        have hb : isCancelAcc n name (Obs.request m (.cancelTimer nm) true : Obs S) = false := by
          cases hb : isCancelAcc n name (Obs.request m (.cancelTimer nm) true : Obs S) with
          | false => rfl
          | true => rw [hb] at h; simp at h
        have hne : ¬ (m = n ∧ nm = name) := by simpa [isCancelAcc] using hb
        intro e he id hid
        show (n, name, id) ∈ w.pending.filter _
        refine List.mem_filter.mpr ⟨q e he id hid, ?_⟩
        simp only [Bool.not_eq_true', Bool.and_eq_false_imp, beq_iff_eq, beq_eq_false_iff_ne, ne_eq]
        intro h1 h2
        exact hne ⟨h1.symm, h2.symm⟩
  | send msg dst =>
    refine QExt.trans ?_ hlog
    simp only [execReq]
    split
    · exact QExt.refl w
    · split
      · exact QExt.refl w
      · split
        · exact QExt.refl w
        · split
          · exact QExt.refl w
          · exact qext_transmit _ _ _ _ _
  | broadcast msg =>
    refine QExt.trans ?_ hlog
    simp only [execReq]
    split
    · exact QExt.refl w
    · exact qext_broadcastTo _ _ _ _ _
  | goto p =>
    refine QExt.trans ?_ hlog
    simp only [execReq]; split
    · exact QExt.refl w
    · exact QExt.of_eq rfl rfl rfl
  | gotoGeo p =>
    refine QExt.trans ?_ hlog
    simp only [execReq]; split
    · exact QExt.refl w
    · exact QExt.of_eq rfl rfl rfl
  | setSpeed v =>
    refine QExt.trans ?_ hlog
    simp only [execReq]; split
    · exact QExt.refl w
    · exact QExt.of_eq rfl rfl rfl
  | setRange r =>
    refine QExt.trans ?_ hlog
    simp only [execReq]; split
    · exact QExt.refl w
    · split
      · exact QExt.refl w
      · exact QExt.of_eq rfl rfl rfl

theorem qext_runProg (cfg : Config S) (m : NodeId) (p : Prog S σ) (w : World S σ) :
    QExt n name w (runProg cfg m p w).1 := by
  induction p generalizing w with
  | done s => exact QExt.refl w
  | req r k ih =>
    simp only [runProg]
    exact (qext_execReq_log cfg m r w).trans (ih _ _)

theorem qext_callback (cfg : Config S) (P : NodeId → Proto S σ) (m : NodeId) (cb : Callback S)
    (w : World S σ) : QExt n name w (callback cfg P m cb w) := by
  unfold callback
  simp only
  refine (qext_log (.callback m cb (reportedTime cfg w)) w).trans ?_
  refine QExt.trans (qext_runProg cfg m ((P m).react (w.pstate m) m (reportedTime cfg w) cb) _) ?_
  exact QExt.of_eq rfl rfl rfl

theorem qext_callbackAll (cfg : Config S) (P : NodeId → Proto S σ) (cb : Callback S)
    (ns : List NodeId) (w : World S σ) : QExt n name w (callbackAll cfg P cb ns w) := by
  unfold callbackAll
  exact qext_foldl _ _ (fun w m => qext_callback cfg P m cb w) w

theorem qext_logAll (f : String → Obs S) (hs : List String) (w : World S σ) :
    QExt n name w (logAll f hs w) := by
  unfold logAll
  exact qext_foldl _ _ (fun w h => qext_log _ w) w

theorem qext_initialise (cfg : Config S) (P : NodeId → Proto S σ) (w : World S σ) :
    QExt n name w (initialise cfg P w) := by
  unfold initialise
  simp only
  refine QExt.trans (b := { w with initialized := true }) (QExt.of_eq rfl rfl rfl) ?_
  exact (qext_logAll _ _ _).trans (qext_callbackAll cfg P .initialize _ _)

theorem qext_prep (cfg : Config S) (P : NodeId → Proto S σ) (w : World S σ) :
    QExt n name w (prep cfg P w) := by
  unfold prep; split
  · exact QExt.refl w
  · exact qext_initialise cfg P w

theorem qext_finalise (cfg : Config S) (P : NodeId → Proto S σ) (w : World S σ) :
    QExt n name w (finalise cfg P w) := by
  unfold finalise
  split
  · exact QExt.refl w
  · simp only
    refine (qext_callbackAll cfg P .finish (List.range cfg.nNodes) w).trans ?_
    refine (qext_logAll Obs.handlerFinal cfg.handlers _).trans ?_
    exact QExt.of_eq rfl rfl rfl

/-- queued timer events are pairwise distinct in (node, id) -/
theorem queue_timer_unique {w : World S σ} (hw : WInv w) (hp : PInv w) :
    w.loop.queue.Pairwise
      (fun a b => ∀ n na nb id, a.kind = .timerFire n na id → b.kind = .timerFire n nb id → False) := by
  have hsub : (w.rexecuted ++ w.loop.queue).Pairwise
      (fun a b => ∀ n na nb id, a.kind = .timerFire n na id → b.kind = .timerFire n nb id → False) := by
    refine (List.Perm.pairwise_iff ?_ hw.perm).mpr hp.ev_unique
    intro a b hab n na nb id h1 h2
    exact hab n nb na id h2 h1
  exact (List.pairwise_append.mp hsub).2.1

/-- popping the head and executing it -/
theorem qext_execEv_popped (cfg : Config S) (P : NodeId → Proto S σ) (e : Ev (EvKind S))
    (rest : List (Ev (EvKind S))) (w : World S σ) (hw : WInv w) (hp : PInv w) (hq : w.loop.queue = e :: rest) :
    QExt n name w (execEv cfg P e (popped e rest w)) := by
  have huniq := queue_timer_unique hw hp
  rw [hq] at huniq
  have hhead := (List.pairwise_cons.mp huniq).1
  have hmem : ∀ x, x ∈ rest → x ∈ w.loop.queue := fun x hx => by rw [hq]; exact List.mem_cons_of_mem _ hx
  have hpop : QExt n name w (popped e rest w) :=
    ⟨id, fun _ q x hx id hid => q x (hmem x hx) id hid⟩
  obtain ⟨ts, seq, kind⟩ := e
  cases kind with
  | timerFire m nm id =>
    simp only [execEv]
    split
    · refine QExt.trans (b := { popped ⟨ts, seq, .timerFire m nm id⟩ rest w with
        pending := w.pending.erase (m, nm, id) }) ?_ (qext_callback cfg P m (.timer nm) _)
      refine ⟨fun h => h, fun _ q x hx id' hid => ?_⟩
      show (n, name, id') ∈ w.pending.erase (m, nm, id)
      have hin := q x (hmem x hx) id' hid
      refine (List.mem_erase_of_ne ?_).mpr hin
      intro hc
      injection hc with h1 hc
      injection hc with h2 h3
      subst h1; subst h2; subst h3
      exact hhead x hx n name name id' rfl hid
    · exact hpop
  | deliver dst src msg => exact hpop.trans (qext_callback cfg P dst (.packet msg) _)
  | mobTick => exact hpop.trans (qext_mobTick cfg _)
  | telemetry m p => exact hpop.trans (qext_callback cfg P m (.telemetry p) _)

theorem qext_execStep (cfg : Config S) (P : NodeId → Proto S σ) (e : Ev (EvKind S))
    (rest : List (Ev (EvKind S))) (w : World S σ) (hw : WInv w) (hp : PInv w) (hq : w.loop.queue = e :: rest) :
    QExt n name w (execStep cfg P e rest w) := by
  rw [execStep_eq]
  simp only
  refine (qext_execEv_popped cfg P e rest w hw hp hq).trans ?_
  refine QExt.trans (b := logAll (fun h => Obs.afterStep h (execEv cfg P e (popped e rest w)).iter e.ts)
    cfg.handlers (execEv cfg P e (popped e rest w))) (qext_logAll _ _ _) ?_
  exact QExt.of_eq rfl rfl rfl

end qext

/-! ### without a cancel, every executed timer event of `(n, name)` made its callback -/

theorem spec0_firedT_eq (σ : Type) (cfg : Config S) (n : NodeId) (name : String) (t : Int) :
    CountSpec0 σ cfg (fun a b => a = b) (fun _ => false) (isTimerEv n name t) (isTimerCb n name t) NoCond where
  rel := addRel_eq
  req := req_callback_only addRel_eq _ (fun _ _ _ => rfl)
  mob := fun _ _ => ⟨rfl, fun _ _ => rfl⟩
  life := ⟨fun _ => rfl, fun _ _ _ => rfl, fun _ => rfl, fun _ _ => rfl, fun _ _ => rfl⟩

/-- `Grow` with equality for the fired/executed pair of key `(n, name, t)` -/
abbrev GrowF (n : NodeId) (name : String) (t : Int) (w w' : World S σ) : Prop :=
  Grow (fun a b => a = b) (fun _ => false) (isTimerEv n name t) (isTimerCb n name t) w w'

/-- handler-level extension that keeps the pending entries of `(n, name)` unless a cancel is logged
    and, if none is logged and the entries were there, makes one callback per executed event -/
structure FExt (n : NodeId) (name : String) (w w' : World S σ) : Prop where
  q : QExt n name w w'
  g : noCancel n name w' → QP n name w → ∀ t, GrowF n name t w w'

section fext
variable {n : NodeId} {name : String}

theorem FExt.refl (w : World S σ) : FExt n name w w := ⟨QExt.refl w, fun _ _ _ => Grow.refl addRel_eq w⟩

theorem FExt.trans {a b c : World S σ} (h1 : FExt n name a b) (h2 : FExt n name b c) : FExt n name a c :=
  ⟨h1.q.trans h2.q, fun hc qa t =>
    (h1.g (h2.q.back hc) qa t).trans addRel_eq (h2.g hc (h1.q.keep (h2.q.back hc) qa) t)⟩

theorem fext_prep (cfg : Config S) (P : NodeId → Proto S σ) (w : World S σ) :
    FExt n name w (prep cfg P w) := by
  refine ⟨qext_prep cfg P w, fun _ _ t => ?_⟩
  exact grow_prep (spec0_firedT_eq σ cfg n name t) P w (fun _ => okCallbackAll_of_forall (fun _ _ _ => trivial) _ _ _)

theorem fext_finalise (cfg : Config S) (P : NodeId → Proto S σ) (w : World S σ) :
    FExt n name w (finalise cfg P w) :=
  ⟨qext_finalise cfg P w, fun _ _ t => grow_finalise (spec0_firedT_eq σ cfg n name t) P w
    (fun _ => okCallbackAll_of_forall (fun _ _ _ => trivial) _ _ _)⟩

theorem fext_execStep (cfg : Config S) (ht : cfg.hasTimer = true) (P : NodeId → Proto S σ)
    (e : Ev (EvKind S)) (rest : List (Ev (EvKind S))) (w : World S σ) (hw : WInv w) (hp : PInv w)
    (hq : w.loop.queue = e :: rest) : FExt n name w (execStep cfg P e rest w) := by
  refine ⟨qext_execStep cfg P e rest w hw hp hq, fun _ qp t => ?_⟩
  refine grow_execStep' (spec0_firedT_eq σ cfg n name t) P e rest w
    (okExecEv_of_forall (fun _ _ _ => trivial) _ _) ?_
  have he : e ∈ w.loop.queue := by rw [hq]; exact List.mem_cons_self
  obtain ⟨ts, seq, kind⟩ := e
  cases kind with
  | timerFire m nm id =>
    by_cases hk : m = n ∧ nm = name
    · obtain ⟨rfl, rfl⟩ := hk
      have hpend : (popped ⟨ts, seq, .timerFire m nm id⟩ rest w).pending.contains (m, nm, id) = true :=
        List.contains_iff_mem.mpr (qp _ he id rfl)
      simp only [evInc, pendOf, hpend, isTimerEv, isTimerCb, ht, if_true]
    · have hb : ∀ b : Bool, (decide (m = n) && (decide (nm = name) && b)) = false := by
        intro b; by_cases hm : m = n <;> by_cases hn : nm = name <;> simp_all
      cases hpe : pendOf (⟨ts, seq, .timerFire m nm id⟩ : Ev (EvKind S)) (popped ⟨ts, seq, .timerFire m nm id⟩ rest w) <;>
        simp [evInc, isTimerEv, isTimerCb, hb]
  | deliver dst src msg => simp [evInc, isTimerEv, isTimerCb]
  | mobTick => simp [evInc, isTimerEv]
  | telemetry m p => simp [evInc, isTimerEv, isTimerCb]

theorem fext_step (cfg : Config S) (ht : cfg.hasTimer = true) (P : NodeId → Proto S σ)
    (w : World S σ) (hw : WInv w) (hp : PInv w) : FExt n name w (step cfg P w).1 := by
  cases hf : w.finalized with
  | true => unfold step; simp only [hf, if_true]; exact FExt.refl w
  | false =>
    rw [step_eq cfg P w hf]
    have h1 : FExt n name w (prep cfg P w) := fext_prep cfg P w
    have hw1 : WInv (prep cfg P w) := by
      unfold prep; split
      · exact hw
      · exact (initialise_inv cfg P w hw).1
    have hp1 : PInv (prep cfg P w) := by
      unfold prep; split
      · exact hp
      · exact initialise_pinv cfg P w hp
    generalize prep cfg P w = w1 at h1 hw1 hp1
    split
    · exact h1.trans (fext_finalise cfg P w1)
    · split
      · exact h1
      · rename_i e rest hq
        have h2 := h1.trans (fext_execStep cfg ht P e rest w1 hw1 hp1 hq)
        split
        · exact h2.trans (fext_finalise cfg P _)
        · exact h2

/-- the invariant: as long as no accepted `cancel_timer(name)` by `n` is in the trace, the queued
    timer events of `(n, name)` are all pending, and `handle_timer` calls = executed events, per time -/
structure FInv (n : NodeId) (name : String) (w : World S σ) : Prop where
  qp : noCancel n name w → QP n name w
  eq : noCancel n name w → ∀ t, w.rtrace.countP (isTimerCb n name t) = w.rexecuted.countP (isTimerEv n name t)

theorem FInv.fext {w w' : World S σ} (h : FInv n name w) (e : FExt n name w w') : FInv n name w' := by
  refine ⟨fun hc => e.q.keep hc (h.qp (e.q.back hc)), fun hc t => ?_⟩
  obtain ⟨da, dt, ha, hT, hr⟩ := e.g hc (h.qp (e.q.back hc)) t
  have h0 := h.eq (e.q.back hc) t
  simp only [mA_right, mT] at ha hT
  omega

theorem init_finv (cfg : Config S) (P : NodeId → Proto S σ) : FInv n name (init cfg P) := by
  rw [init_eq]
  split
  · refine ⟨fun _ e he id hid => ?_, fun _ _ => rfl⟩
    have he : e ∈ insertEv ⟨cfg.dt, 0, .mobTick⟩ ([] : List (Ev (EvKind S))) := he
    simp only [insertEv, List.mem_singleton] at he
    subst he; cases hid
  · exact ⟨fun _ e he => (by cases he), fun _ _ => rfl⟩

theorem fext_runProg (cfg : Config S) (m : NodeId) (p : Prog S σ) (w : World S σ) :
    FExt n name w (runProg cfg m p w).1 :=
  ⟨qext_runProg cfg m p w, fun _ _ t => grow_runProg (spec0_firedT_eq σ cfg n name t) m p w
    (okProg_of_forall (fun _ _ _ => trivial) _ _ _)⟩

theorem initWith_finv (cfg : Config S) (P : NodeId → Proto S σ) (pre : List (NodeId × Prog S σ)) :
    FInv n name (initWith cfg P pre) :=
  initWith_induction (C := fun w => FInv n name w) (init_finv cfg P)
    (fun m p w h => h.fext (fext_runProg cfg m p w)) pre

theorem reachable_finv {cfg : Config S} (ht : cfg.hasTimer = true) (hdt : 0 ≤ cfg.dt)
    {P : NodeId → Proto S σ} {w : World S σ} (h : Reachable cfg P w) : FInv n name w := by
  refine h.rec_inv (init_finv cfg P) (fun w hr hf => ?_) (fun w m p _ hf => hf.fext (fext_runProg cfg m p w))
  exact hf.fext (fext_step cfg ht P w (reachable_inv hdt hr) (reachable_pinv hdt hr))

end fext

end Sim
