import GradysProofs.Lemmas.SimStep
/-
  The times reported to protocol callbacks: every callback observes `reportedTime` of the moment
  it runs; along the trace these times never decrease.
-/
set_option linter.unusedSectionVars false

namespace Sim
variable {S σ : Type} [Scalar S]

/-- the times reported in callback observations, in list order -/
def cbTimes (tr : List (Obs S)) : List Int :=
  tr.filterMap (fun o => match o with | .callback _ _ t => some t | _ => none)

theorem mem_cbTimes {tr : List (Obs S)} {t : Int} :
    t ∈ cbTimes tr ↔ ∃ n cb, Obs.callback n cb t ∈ tr := by
  unfold cbTimes
  simp only [List.mem_filterMap]
  constructor
  · rintro ⟨o, ho, h⟩
    cases o <;> simp at h
    subst h
    exact ⟨_, _, ho⟩
  · rintro ⟨n, cb, h⟩
    exact ⟨_, h, rfl⟩

theorem cbTimes_append (a b : List (Obs S)) : cbTimes (a ++ b) = cbTimes a ++ cbTimes b := by
  unfold cbTimes; exact List.filterMap_append

structure TInv (cfg : Config S) (w : World S σ) : Prop where
  le_now : ∀ t ∈ cbTimes w.rtrace, t ≤ reportedTime cfg w
  /-- newest first: non-increasing, i.e. the trace in time order is non-decreasing -/
  mono : (cbTimes w.rtrace).Pairwise (fun a b => b ≤ a)

theorem TInv.ext {cfg : Config S} {w w' : World S σ} (e : Ext cfg w w') (h : TInv cfg w) :
    TInv cfg w' := by
  obtain ⟨l, hl, ht⟩ := e.trace_ext
  have hnew : ∀ t ∈ cbTimes l, t = reportedTime cfg w := by
    intro t hm
    obtain ⟨n, cb, hm⟩ := mem_cbTimes.mp hm
    exact ht n cb t hm
  have hrt := reportedTime_congr cfg e.now_eq
  constructor
  · intro t hm
    rw [hl, cbTimes_append] at hm
    rw [hrt]
    rcases List.mem_append.mp hm with hm | hm
    · rw [hnew t hm]; exact Int.le_refl _
    · exact h.le_now t hm
  · rw [hl, cbTimes_append, List.pairwise_append]
    refine ⟨?_, h.mono, ?_⟩
    · refine List.Pairwise.imp_of_mem (R := fun _ _ => True) ?_ (List.pairwise_of_forall (fun _ _ => trivial))
      intro a b ha hb _
      rw [hnew a ha, hnew b hb]; exact Int.le_refl _
    · intro a ha b hb
      rw [hnew a ha]; exact h.le_now b hb

theorem TInv.congr {cfg : Config S} {w w' : World S σ} (ht : w'.rtrace = w.rtrace)
    (hn : reportedTime cfg w ≤ reportedTime cfg w') (h : TInv cfg w) : TInv cfg w' := by
  constructor
  · intro t hm; rw [ht] at hm; exact Int.le_trans (h.le_now t hm) hn
  · rw [ht]; exact h.mono

theorem init_tinv (cfg : Config S) (P : NodeId → Proto S σ) : TInv cfg (init cfg P) := by
  rw [init_eq]
  have h0 : TInv cfg (init0 cfg P) := by constructor <;> simp [init0, cbTimes]
  split
  · exact TInv.congr (w := init0 cfg P) rfl (Int.le_refl _) h0
  · exact h0

theorem initWith_tinv (cfg : Config S) (P : NodeId → Proto S σ) (pre : List (NodeId × Prog S σ)) :
    TInv cfg (initWith cfg P pre) :=
  TInv.ext (ext_initWith cfg P pre) (init_tinv cfg P)

theorem reportedTime_mono (cfg : Config S) {w w' : World S σ} (h : w.loop.now ≤ w'.loop.now) :
    reportedTime cfg w ≤ reportedTime cfg w' := by
  unfold reportedTime; split <;> omega

theorem step_tinv (cfg : Config S) (hdt : 0 ≤ cfg.dt) (P : NodeId → Proto S σ) (w : World S σ)
    (hw : WInv w) (h : TInv cfg w) : TInv cfg (step cfg P w).1 := by
  unfold step
  split
  · exact h
  · have hi : WInv (if w.initialized then w else initialise cfg P w) ∧
        TInv cfg (if w.initialized then w else initialise cfg P w) := by
      split
      · exact ⟨hw, h⟩
      · refine ⟨(initialise_inv cfg P w hw).1, ?_⟩
        unfold initialise
        simp only
        have e := (ext_logAll cfg Obs.handlerInit (by intro h n cb t e; cases e) cfg.handlers
          { w with initialized := true }).trans
          (ext_callbackAll cfg P .initialize (List.range cfg.nNodes) _)
        exact TInv.ext e (TInv.congr (w := w) rfl (Int.le_refl _) h)
    generalize (if w.initialized then w else initialise cfg P w) = w1 at hi
    obtain ⟨hw1, ht1⟩ := hi
    have hfin : ∀ w2 : World S σ, TInv cfg w2 → TInv cfg (finalise cfg P w2) := by
      intro w2 h2
      unfold finalise
      split
      · exact h2
      · simp only
        have e := (ext_callbackAll cfg P .finish (List.range cfg.nNodes) w2).trans
          (ext_logAll cfg Obs.handlerFinal (by intro h n cb t e; cases e) cfg.handlers _)
        exact TInv.congr (w := logAll Obs.handlerFinal cfg.handlers
          (callbackAll cfg P .finish (List.range cfg.nNodes) w2)) rfl (Int.le_refl _) (TInv.ext e h2)
    simp only
    split
    · exact hfin _ ht1
    · split
      · exact ht1
      · rename_i e rest hq
        have hle : w1.loop.now ≤ e.ts := hw1.ge_now e (by rw [hq]; exact List.mem_cons_self)
        have hs : TInv cfg (execStep cfg P e rest w1) := by
          rw [execStep_eq]
          simp only
          have hp : TInv cfg (popped e rest w1) :=
            TInv.congr (w := w1) rfl (reportedTime_mono cfg (w' := popped e rest w1) hle) ht1
          have e1 := (ext_execEv cfg hdt P e (popped e rest w1)).trans
            (ext_logAll cfg (fun h => Obs.afterStep h (execEv cfg P e (popped e rest w1)).iter e.ts)
              (by intro h n cb t e; cases e) cfg.handlers _)
          exact TInv.congr (w := logAll (fun h => Obs.afterStep h (execEv cfg P e (popped e rest w1)).iter e.ts)
            cfg.handlers (execEv cfg P e (popped e rest w1))) rfl (Int.le_refl _) (TInv.ext e1 hp)
        split
        · exact hfin _ hs
        · exact hs

theorem stepRaised_tinv (cfg : Config S) (hdt : 0 ≤ cfg.dt) (P : NodeId → Proto S σ) (w : World S σ)
    (hw : WInv w) (h : TInv cfg w) : TInv cfg (stepRaised cfg P w) := by
  unfold stepRaised
  split
  · exact h
  · have hi : WInv (if w.initialized then w else initialise cfg P w) ∧
        TInv cfg (if w.initialized then w else initialise cfg P w) := by
      split
      · exact ⟨hw, h⟩
      · refine ⟨(initialise_inv cfg P w hw).1, ?_⟩
        unfold initialise
        simp only
        have e := (ext_logAll cfg Obs.handlerInit (by intro h n cb t e; cases e) cfg.handlers
          { w with initialized := true }).trans
          (ext_callbackAll cfg P .initialize (List.range cfg.nNodes) _)
        exact TInv.ext e (TInv.congr (w := w) rfl (Int.le_refl _) h)
    generalize (if w.initialized then w else initialise cfg P w) = w1 at hi
    obtain ⟨hw1, ht1⟩ := hi
    simp only
    split
    · unfold finalise
      split
      · exact ht1
      · simp only
        have e := (ext_callbackAll cfg P .finish (List.range cfg.nNodes) w1).trans
          (ext_logAll cfg Obs.handlerFinal (by intro h n cb t e; cases e) cfg.handlers _)
        exact TInv.congr (w := logAll Obs.handlerFinal cfg.handlers
          (callbackAll cfg P .finish (List.range cfg.nNodes) w1)) rfl (Int.le_refl _) (TInv.ext e ht1)
    · split
      · exact ht1
      · rename_i e rest hq
        have hle : w1.loop.now ≤ e.ts := hw1.ge_now e (by rw [hq]; exact List.mem_cons_self)
        have hp : TInv cfg (popped e rest w1) :=
          TInv.congr (w := w1) rfl (reportedTime_mono cfg (w' := popped e rest w1) hle) ht1
        exact TInv.ext (ext_execEv cfg hdt P e (popped e rest w1)) hp

theorem reachableT_tinv {cfg : Config S} (hdt : 0 ≤ cfg.dt) {P : NodeId → Proto S σ} {w : World S σ}
    (h : ReachableT cfg P w) : TInv cfg w := by
  induction h with
  | init => exact init_tinv cfg P
  | step hr ih => exact step_tinv cfg hdt P _ (reachableT_inv hdt hr) ih
  | ext n p _ ih => exact TInv.ext (ext_runProg cfg n p _) ih
  | raised hr ih => exact stepRaised_tinv cfg hdt P _ (reachableT_inv hdt hr) ih

theorem reachable_tinv {cfg : Config S} (hdt : 0 ≤ cfg.dt) {P : NodeId → Proto S σ} {w : World S σ}
    (h : Reachable cfg P w) : TInv cfg w := by
  exact h.rec_inv (init_tinv cfg P)
    (fun w hr ht => step_tinv cfg hdt P w (reachable_inv hdt hr) ht)
    (fun w n p _ ht => TInv.ext (ext_runProg cfg n p w) ht)

end Sim
