import GradysProofs.Lemmas.Dispatch
/-
  Lemmas about the extended dispatcher model (`dispatchN`): callees that call the protocol's methods
  themselves (nested dispatch) and ask for the dispatcher from inside a callback.  Everything about the
  ORDER of a call is inherited from the generic `walk` lemmas, because a nested call is again a `walk`
  over the chain read when that call began; what is new is that the invariants of dispatcher worlds
  survive whatever the nested calls do (induction on the nesting bound), and that the extension is
  conservative over the first model.
-/
set_option linter.unusedSectionVars false
set_option linter.unusedVariables false

namespace Disp

/-! ### two walks in step -/

/-- two walks over the same chain whose callees keep a relation between the states and return the same
    results invoke the same callees with the same results, and end in related states -/
theorem walk_sim {σ τ β γ : Type} (f : Entry → σ → σ × Ret × β) (g : Entry → τ → τ × Ret × γ)
    (R : σ → τ → Prop) (intr : Bool)
    (h : ∀ e s t, R s t → R (f e s).1 (g e t).1 ∧ (f e s).2.1 = (g e t).2.1)
    (es : List Entry) (s : σ) (t : τ) (hr : R s t) :
    R (walk f intr es s).1 (walk g intr es t).1 ∧
    (walk f intr es s).2.map (fun c => (c.entry, c.ret)) = (walk g intr es t).2.map (fun c => (c.entry, c.ret)) := by
  induction es generalizing s t with
  | nil => exact ⟨hr, rfl⟩
  | cons e es ih =>
    obtain ⟨h1, h2⟩ := h e s t hr
    rw [walk_cons, walk_cons, h2]
    split
    · exact ⟨h1, by simp⟩
    · obtain ⟨i1, i2⟩ := ih _ _ h1
      exact ⟨i1, by simp [i2]⟩

/-! ### invariants through nested calls -/

section Inv
variable (P : DState → Prop)

/-- a predicate on dispatcher worlds that every primitive action of a callee preserves -/
structure Stable : Prop where
  bump : ∀ s c, P s → P (s.bump c)
  rop : ∀ s p o, P s → P (s.applyROp p o).1
  create : ∀ s p, P s → P (s.create p)

theorem runNOps_inv (hP : Stable P) (nested : NState → Kind → NState)
    (hn : ∀ s k, P s.d → P (nested s k).d) (p : Nat) (ops : List NOp) (s : NState) (hs : P s.d) :
    P (runNOps nested p s ops).d := by
  induction ops generalizing s with
  | nil => exact hs
  | cons o os ih =>
    cases o with
    | req o => exact ih _ (hP.rop _ p o hs)
    | create => exact ih _ (hP.create _ p hs)
    | dispatch k => exact ih _ (hn _ k hs)

theorem invokeN_inv (hP : Stable P) (beh : NBeh) (nested : NState → Kind → NState)
    (hn : ∀ s k, P s.d → P (nested s k).d) (p : Nat) (k : Kind) (e : Entry) (s : NState) (hs : P s.d) :
    P (invokeN beh nested p k e s).1.d :=
  runNOps_inv P hP nested hn p _ _ (hP.bump _ _ hs)

/-- whatever the callees do, nested calls of any depth included, a call of a protocol method preserves
    every stable predicate -/
theorem dispatchN_inv (hP : Stable P) (beh : NBeh) (fuel : Nat) (s : NState) (p : Nat) (k : Kind) (hs : P s.d) :
    P (dispatchN beh fuel s p k).1.d := by
  induction fuel generalizing s k with
  | zero => exact hs
  | succ fuel ih =>
    exact walk_inv _ _ (fun s : NState => P s.d) _
      (fun e _ s hs => invokeN_inv P hP beh _ (fun s' k' hs' => ih s' k' hs') p k e s hs) s hs

end Inv

theorem dinv_stable : Stable DInv where
  bump := fun s c h => ⟨h.wf, h.log⟩
  rop := fun s p o h => ⟨by rw [DState.applyROp_reg]; exact Registry.rwf_applyROp h.wf p o,
    DState.logInv_applyROp h.log p o⟩
  create := fun s p h => ⟨by rw [DState.create_reg]; exact Registry.rwf_create h.wf p, DState.logInv_create h.log p⟩

theorem dispatchN_dinv (beh : NBeh) (fuel : Nat) (s : NState) (p : Nat) (k : Kind) (hs : DInv s.d) :
    DInv (dispatchN beh fuel s p k).1.d :=
  dispatchN_inv DInv dinv_stable beh fuel s p k hs

theorem stepN_dinv (beh : NBeh) (fuel : Nat) {s : DState} (hs : DInv s) (op : Op) : DInv (stepN beh fuel s op).1 := by
  cases op with
  | create p => exact dinv_stable.create s p hs
  | register p k h => exact ⟨Registry.rwf_register hs.wf p k h, DState.logInv_register hs.log p k h⟩
  | unregister p k h => exact ⟨Registry.rwf_unregister hs.wf p k h, DState.logInv_unregister hs.log p k h⟩
  | dispatch p k => exact dispatchN_dinv beh fuel ⟨s, []⟩ p k hs

theorem runN_dinv (beh : NBeh) (fuel : Nat) {s : DState} (hs : DInv s) (ops : List Op) :
    DInv (runN beh fuel s ops).1 := by
  induction ops generalizing s with
  | nil => exact hs
  | cons op ops ih => exact ih (stepN_dinv beh fuel hs op)

/-- the wrappers of other instances are untouched by whatever happens in a call on instance `p` -/
theorem dispatchN_other (beh : NBeh) (fuel : Nat) (s : NState) {p q : Nat} (k : Kind) (hq : q ≠ p) :
    (dispatchN beh fuel s p k).1.d.reg q = s.d.reg q := by
  induction fuel generalizing s k with
  | zero => rfl
  | succ fuel ih =>
    refine walk_inv _ _ (fun s' : NState => s'.d.reg q = s.d.reg q) _ (fun e _ s' hs' => ?_) s rfl
    show (runNOps _ p _ _).d.reg q = s.d.reg q
    generalize (beh (calleeOf p k e) (s'.d.calls (calleeOf p k e))).ops = ops
    have h0 : (⟨s'.d.bump (calleeOf p k e), Ev.call e (s'.d.calls (calleeOf p k e)) :: s'.log⟩ : NState).d.reg q
        = s.d.reg q := hs'
    revert h0
    generalize (⟨s'.d.bump (calleeOf p k e), Ev.call e (s'.d.calls (calleeOf p k e)) :: s'.log⟩ : NState) = t
    intro h0
    induction ops generalizing t with
    | nil => exact h0
    | cons o os iho =>
      cases o with
      | req o =>
        refine iho _ ?_
        show (t.d.applyROp p o).1.reg q = s.d.reg q
        rw [DState.applyROp_reg, Registry.applyROp_other _ o hq]; exact h0
      | create =>
        refine iho _ ?_
        show (t.d.create p).reg q = s.d.reg q
        rw [DState.create_reg, Registry.create_other _ hq]; exact h0
      | dispatch k' =>
        refine iho _ ?_
        show (dispatchN beh fuel _ p k').1.d.reg q = s.d.reg q
        rw [ih]; exact h0

/-! ### conservativity -/

theorem runNOps_lift (nested : NState → Kind → NState) (p : Nat) (ops : List ROp) (s : NState) :
    (runNOps nested p s (ops.map NOp.req)).d = (s.d.applyROps p ops).1 := by
  induction ops generalizing s with
  | nil => rfl
  | cons o os ih =>
    simp only [List.map_cons, runNOps, DState.applyROps]
    rw [ih]

/-- on behaviours of the first model the extended model does what the first one does -/
theorem dispatchN_lift (beh : Beh) (fuel : Nat) (s : NState) (p : Nat) (k : Kind) :
    (dispatchN beh.lift (fuel + 1) s p k).1.d = (dispatch beh s.d p k).1 ∧
    (dispatchN beh.lift (fuel + 1) s p k).2.map (fun c => (c.entry, c.ret)) =
      (dispatch beh s.d p k).2.map (fun c => (c.entry, c.ret)) := by
  unfold dispatch
  show (walk _ _ _ s).1.d = _ ∧ _
  refine walk_sim _ (invoke beh p k) (fun (a : NState) (b : DState) => a.d = b) _ (fun e a b hab => ?_) _ s s.d rfl
  subst hab
  refine ⟨?_, rfl⟩
  show (runNOps _ p _ _).d = _
  simp only [Beh.lift]
  rw [runNOps_lift]
  rfl

end Disp
