import GradysModel.Geo
import GradysProofs.Lemmas.RealScalarExtra
import Mathlib.Analysis.SpecialFunctions.Trigonometric.Bounds
import Mathlib.Tactic.Linarith
import Mathlib.Tactic.Positivity
/-
  Real-analysis lemmas behind C20: the haversine formula of `GradysModel/Geo.lean` at ℝ is
  `R · 2·arcsin √a` with `a` the haversine of the central angle, and the two legs of
  `geoToCartesian` in closed form.
-/
open Real

namespace GeoReal

/-- Earth radius used by the source, metres -/
def R : ℝ := 6371000

/-- degrees → radians (`math.radians`) -/
noncomputable def rad (x : ℝ) : ℝ := x * (π / 180)

theorem rad_eq (x : ℝ) : Scalar.radians x = rad x := rfl

theorem rad_sub (x y : ℝ) : rad x - rad y = rad (x - y) := by unfold rad; ring

/-- the quantity `a` of the source: haversine of the central angle (arguments in radians) -/
noncomputable def havA (φ1 φ2 dl : ℝ) : ℝ :=
  sin ((φ2 - φ1) / 2) ^ 2 + cos φ1 * cos φ2 * sin (dl / 2) ^ 2

/-- the model's haversine at ℝ, with the scalar operations unfolded -/
theorem haversine_real (lat1 lon1 lat2 lon2 : ℝ) :
    Geo.haversine lat1 lon1 lat2 lon2
      = R * (2 * atan2R (√(havA (rad lat1) (rad lat2) (rad lon2 - rad lon1)))
              (√(1 - havA (rad lat1) (rad lat2) (rad lon2 - rad lon1)))) := by
  unfold Geo.haversine havA R rad
  simp only [RealScalar.ofInt_eq, RealScalar.add_eq, RealScalar.sub_eq, RealScalar.mul_eq,
    RealScalar.div_eq, RealScalar.sq_eq, RealScalar.sqrt_eq, RealScalar.sin_eq, RealScalar.cos_eq,
    RealScalar.atan2_eq, RealScalar.radians_eq]
  norm_num

/-- `atan2(√a, √(1−a)) = arcsin √a` on the whole range 0 ≤ a ≤ 1 (the case a = 1 uses
    `atan2(1, 0) = π/2`) -/
theorem atan2R_sqrt {a : ℝ} (h0 : 0 ≤ a) (h1 : a ≤ 1) : atan2R (√a) (√(1 - a)) = arcsin (√a) := by
  unfold atan2R
  rcases eq_or_lt_of_le h1 with h | h
  · subst h
    simp [arcsin_one]
  · have hpos : 0 < √(1 - a) := sqrt_pos.mpr (by linarith)
    rw [if_pos hpos]
    have hlt : √a < 1 := by
      rw [show (1:ℝ) = √1 by simp]
      exact sqrt_lt_sqrt h0 h
    have hmem : √a ∈ Set.Ioo (-(1:ℝ)) 1 := ⟨by linarith [sqrt_nonneg a], hlt⟩
    rw [arcsin_eq_arctan hmem, sq_sqrt h0]

theorem atan2R_nonneg {y x : ℝ} (hy : 0 ≤ y) (hx : 0 ≤ x) : 0 ≤ atan2R y x := by
  unfold atan2R
  split
  · exact arctan_nonneg.mpr (div_nonneg hy hx)
  · rw [if_neg (not_lt.mpr hx)]
    split
    · positivity
    · rw [if_neg (not_lt.mpr hy)]

theorem haversine_nonneg (lat1 lon1 lat2 lon2 : ℝ) : 0 ≤ Geo.haversine lat1 lon1 lat2 lon2 := by
  rw [haversine_real]
  have := atan2R_nonneg (sqrt_nonneg (havA (rad lat1) (rad lat2) (rad lon2 - rad lon1)))
    (sqrt_nonneg (1 - havA (rad lat1) (rad lat2) (rad lon2 - rad lon1)))
  unfold R
  positivity

/-- standard form: `R · 2·arcsin √a` whenever `0 ≤ a ≤ 1` -/
theorem haversine_arcsin (lat1 lon1 lat2 lon2 : ℝ)
    (h0 : 0 ≤ havA (rad lat1) (rad lat2) (rad lon2 - rad lon1))
    (h1 : havA (rad lat1) (rad lat2) (rad lon2 - rad lon1) ≤ 1) :
    Geo.haversine lat1 lon1 lat2 lon2
      = R * (2 * arcsin (√(havA (rad lat1) (rad lat2) (rad lon2 - rad lon1)))) := by
  rw [haversine_real, atan2R_sqrt h0 h1]

/-- same meridian: `a = sin²(Δφ/2)` -/
theorem havA_meridian (φ1 φ2 : ℝ) : havA φ1 φ2 0 = sin ((φ2 - φ1) / 2) ^ 2 := by
  unfold havA; simp

/-- same parallel: `a = cos²φ · sin²(Δλ/2)` -/
theorem havA_parallel (φ dl : ℝ) : havA φ φ dl = (cos φ * sin (dl / 2)) ^ 2 := by
  unfold havA; simp; ring

/-- the north–south leg: two points on one meridian, |Δφ| ≤ π -/
theorem meridian_leg (lat1 lon lat2 : ℝ) (h : |rad lat2 - rad lat1| ≤ π) :
    Geo.haversine lat1 lon lat2 lon = R * |rad lat2 - rad lat1| := by
  have ha : havA (rad lat1) (rad lat2) (rad lon - rad lon)
      = sin ((rad lat2 - rad lat1) / 2) ^ 2 := by rw [sub_self, havA_meridian]
  rw [haversine_arcsin _ _ _ _ (by rw [ha]; positivity)
    (by rw [ha]; exact sin_sq_le_one _), ha, sqrt_sq_eq_abs]
  set d := rad lat2 - rad lat1
  have hd2 : |d / 2| ≤ π / 2 := by rw [abs_div, abs_two]; linarith
  rw [abs_sin_eq_sin_abs_of_abs_le_pi (by linarith [pi_pos]),
    arcsin_sin (by linarith [abs_nonneg (d / 2), pi_pos]) hd2, abs_div, abs_two]
  ring

/-- the east–west leg in closed form: two points on one parallel, |φ| ≤ π/2 -/
theorem parallel_leg (lat lon1 lon2 : ℝ) (hφ : |rad lat| ≤ π / 2) :
    Geo.haversine lat lon1 lat lon2
      = R * (2 * arcsin (cos (rad lat) * |sin ((rad lon2 - rad lon1) / 2)|)) := by
  have hc : 0 ≤ cos (rad lat) := cos_nonneg_of_mem_Icc ⟨by linarith [(abs_le.mp hφ).1], (abs_le.mp hφ).2⟩
  have ha := havA_parallel (rad lat) (rad lon2 - rad lon1)
  have hle : (cos (rad lat) * sin ((rad lon2 - rad lon1) / 2)) ^ 2 ≤ 1 := by
    rw [mul_pow]
    have h1 := cos_sq_le_one (rad lat)
    have h2 := sin_sq_le_one ((rad lon2 - rad lon1) / 2)
    nlinarith [sq_nonneg (cos (rad lat)), sq_nonneg (sin ((rad lon2 - rad lon1) / 2))]
  rw [haversine_arcsin _ _ _ _ (by rw [ha]; positivity) (by rw [ha]; exact hle), ha,
    sqrt_sq_eq_abs, abs_mul, abs_of_nonneg hc]

/-- `arcsin(k·sin t) ≤ k·t` for `0 ≤ k ≤ 1`, `0 ≤ t ≤ π/2` (concavity of sin) -/
theorem arcsin_mul_sin_le {k t : ℝ} (hk0 : 0 ≤ k) (hk1 : k ≤ 1) (ht0 : 0 ≤ t) (ht : t ≤ π / 2) :
    arcsin (k * sin t) ≤ k * t := by
  have hs0 : 0 ≤ sin t := sin_nonneg_of_nonneg_of_le_pi ht0 (by linarith [pi_pos])
  have hs1 : sin t ≤ 1 := sin_le_one t
  have hkt : k * t ≤ π / 2 := by nlinarith [pi_pos]
  rw [arcsin_le_iff_le_sin ⟨by nlinarith, by nlinarith⟩
    ⟨by nlinarith [pi_pos], hkt⟩]
  have hconc := strictConcaveOn_sin_Icc.concaveOn.2
    (show t ∈ Set.Icc 0 π from ⟨ht0, by linarith [pi_pos]⟩)
    (show (0:ℝ) ∈ Set.Icc 0 π from ⟨le_rfl, pi_pos.le⟩)
    hk0 (show 0 ≤ 1 - k by linarith) (by ring)
  simpa using hconc

/-- `k·t·(1 − t²/6) ≤ arcsin(k·sin t)` for `0 ≤ k ≤ 1`, `0 ≤ t ≤ π/2` -/
theorem le_arcsin_mul_sin {k t : ℝ} (hk0 : 0 ≤ k) (hk1 : k ≤ 1) (ht0 : 0 ≤ t) (ht : t ≤ π / 2) :
    k * t * (1 - t ^ 2 / 6) ≤ arcsin (k * sin t) := by
  have hs0 : 0 ≤ sin t := sin_nonneg_of_nonneg_of_le_pi ht0 (by linarith [pi_pos])
  have hs1 : sin t ≤ 1 := sin_le_one t
  have hpi : π / 2 ≤ 2 := by linarith [pi_le_four]
  have ht2 : t ^ 2 ≤ 4 := by nlinarith
  have hx0 : 0 ≤ k * t * (1 - t ^ 2 / 6) := by
    apply mul_nonneg (mul_nonneg hk0 ht0); linarith
  have hxle : k * t * (1 - t ^ 2 / 6) ≤ k * t := by
    have : 0 ≤ k * t := mul_nonneg hk0 ht0
    nlinarith [sq_nonneg t]
  have hkt : k * t ≤ π / 2 := by nlinarith [pi_pos]
  rw [le_arcsin_iff_sin_le ⟨by linarith [pi_pos], by linarith⟩ ⟨by nlinarith, by nlinarith⟩]
  calc sin (k * t * (1 - t ^ 2 / 6)) ≤ k * t * (1 - t ^ 2 / 6) := sin_le hx0
    _ = k * (t - t ^ 3 / 6) := by ring
    _ ≤ k * sin t := mul_le_mul_of_nonneg_left (sin_ge_sub_cube ht0) hk0

theorem rad_le_iff (a b : ℝ) : a ≤ b ↔ 0 ≤ rad b - rad a := by
  unfold rad
  have : 0 < π / 180 := by positivity
  constructor
  · intro h; nlinarith
  · intro h; nlinarith

/-- the pinned `geo_to_cartesian`: the north–south leg is assigned to `x` (and signed by the
    longitude), the east–west leg to `y` (signed by the latitude) -/
def geoToCartesianPinned {S : Type} [Scalar S] (ref tgt : V3 S) : V3 S :=
  let dx := Geo.haversine ref.x ref.y tgt.x ref.y
  let dy := Geo.haversine ref.x ref.y ref.x tgt.y
  let x := if Scalar.ge tgt.y ref.y then dx else Scalar.neg dx
  let y := if Scalar.ge tgt.x ref.x then dy else Scalar.neg dy
  let z := Scalar.sub tgt.z ref.z
  ⟨x, y, z⟩

theorem haversine_parallel_symm (lat lon d : ℝ) :
    Geo.haversine lat lon lat (lon + d) = Geo.haversine lat lon lat (lon - d) := by
  rw [haversine_real, haversine_real]
  have h1 : rad (lon + d) - rad lon = rad d := by unfold rad; ring
  have h2 : rad (lon - d) - rad lon = -rad d := by unfold rad; ring
  rw [h1, h2]
  have : havA (rad lat) (rad lat) (-rad d) = havA (rad lat) (rad lat) (rad d) := by
    unfold havA
    rw [neg_div, sin_neg, neg_sq]
  rw [this]

end GeoReal
