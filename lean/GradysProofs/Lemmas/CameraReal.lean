import GradysProofs.Lemmas.CameraLemmas
import GradysProofs.Lemmas.RealScalarExtra
import Mathlib.Tactic.Linarith
import Mathlib.Tactic.Positivity
/-
  The camera model over ℝ: the vocabulary of C19's statements (`edist3`, `cosAngle`, `InCone`,
  `shift`, the pinned unclamped decision) and the lemmas behind them.
-/
open Real

namespace Camera

/-- the order facts hold over ℝ -/
instance : LawfulOrderScalar ℝ where
  lt_le a b h := by
    rw [RealScalar.lt_eq] at h
    rw [RealScalar.le_eq]
    exact h.le
  one_le_one := by rw [RealScalar.le_eq]
  negone_le_negone := by rw [RealScalar.le_eq]
  negone_le_one := by
    rw [RealScalar.le_eq]
    simp only [RealScalar.ofInt_eq, RealScalar.neg_eq]
    norm_num
  acos_dom x h1 h2 := by
    rw [RealScalar.le_eq] at h1 h2
    simp only [RealScalar.ofInt_eq, RealScalar.neg_eq, Int.cast_one] at h1 h2
    rw [RealScalar.acos_eq, if_pos ⟨h1, h2⟩]
    rfl

/-- Euclidean distance between camera and node -/
noncomputable def edist3 (self other : V3 ℝ) : ℝ :=
  √((other.x - self.x) ^ 2 + (other.y - self.y) ^ 2 + (other.z - self.z) ^ 2)

/-- cosine of the angle between the camera axis and the direction to the node -/
noncomputable def cosAngle (c : Config ℝ) (self other : V3 ℝ) : ℝ :=
  ((axis c).x * (other.x - self.x) + (axis c).y * (other.y - self.y)
    + (axis c).z * (other.z - self.z)) / edist3 self other

/-- the cone predicate of the property: within reach, and (at the apex, or) the direction deviates
    from the axis by at most the cone angle θ (plus the source's tolerance) -/
def InCone (c : Config ℝ) (self other : V3 ℝ) : Prop :=
  edist3 self other ≤ c.reach ∧
    (edist3 self other = 0 ∨
      arccos (cosAngle c self other) - c.tol ≤ c.thetaDeg * (π / 180))

theorem axis_unit (c : Config ℝ) : (axis c).x ^ 2 + (axis c).y ^ 2 + (axis c).z ^ 2 = 1 := by
  unfold axis
  simp only [RealScalar.mul_eq, RealScalar.sin_eq, RealScalar.cos_eq, RealScalar.radians_eq]
  have h1 := sin_sq_add_cos_sq (c.elevationDeg * (π / 180))
  have h2 := sin_sq_add_cos_sq (c.rotationDeg * (π / 180))
  nlinarith [h1, h2]

theorem cdist_real (self other : V3 ℝ) : cdist self other = edist3 self other := by
  unfold cdist rel edist3
  simp only [RealScalar.sqrt_eq, RealScalar.add_eq, RealScalar.sq_eq, RealScalar.sub_eq]

theorem cdot_real (c : Config ℝ) (self other : V3 ℝ) : cdot c self other = cosAngle c self other := by
  unfold cdot cosAngle
  rw [cdist_real]
  unfold rel
  simp only [RealScalar.add_eq, RealScalar.mul_eq, RealScalar.div_eq, RealScalar.sub_eq]
  ring

/-- Cauchy–Schwarz: the normalised dot product is a genuine cosine -/
theorem cosAngle_mem (c : Config ℝ) (self other : V3 ℝ) (hd : 0 < edist3 self other) :
    -1 ≤ cosAngle c self other ∧ cosAngle c self other ≤ 1 := by
  have ha := axis_unit c
  set a := axis c
  set rx := other.x - self.x with hrx
  set ry := other.y - self.y with hry
  set rz := other.z - self.z with hrz
  have hs : 0 ≤ rx ^ 2 + ry ^ 2 + rz ^ 2 := by positivity
  have hd2 : edist3 self other ^ 2 = rx ^ 2 + ry ^ 2 + rz ^ 2 := by
    unfold edist3; rw [sq_sqrt hs]
  have hcs : (a.x * rx + a.y * ry + a.z * rz) ^ 2 ≤ edist3 self other ^ 2 := by
    rw [hd2]
    nlinarith [sq_nonneg (a.x * ry - a.y * rx), sq_nonneg (a.x * rz - a.z * rx),
      sq_nonneg (a.y * rz - a.z * ry), ha]
  have habs := abs_le_of_sq_le_sq' hcs hd.le
  unfold cosAngle
  rw [le_div_iff₀ hd, div_le_iff₀ hd]
  constructor <;> linarith [habs.1, habs.2]

theorem judge_detected_iff (c : Config ℝ) (self other : V3 ℝ) :
    judge c self other = .detected ↔ InCone c self other := by
  rw [judge_eq, cdist_real, cdot_real]
  unfold judgeWith InCone
  have hd0 : 0 ≤ edist3 self other := sqrt_nonneg _
  by_cases h1 : c.reach < edist3 self other
  · rw [if_pos ((RealScalar.gt_eq _ _).mpr h1)]
    constructor
    · intro h; cases h
    · intro h; exact absurd h.1 (not_le.mpr h1)
  · rw [if_neg (fun h => h1 ((RealScalar.gt_eq _ _).mp h))]
    by_cases h2 : 0 < edist3 self other
    · rw [if_pos ((RealScalar.gt_eq _ _).mpr (by simpa using h2))]
      have hcl : Scalar.acos? (clamp (cosAngle c self other))
          = some (arccos (cosAngle c self other)) := by
        unfold clamp
        simp only [RealScalar.max_eq, RealScalar.min_eq, RealScalar.ofInt_eq, RealScalar.neg_eq,
          Int.cast_one]
        rw [RealScalar.acos_eq, if_pos (RealScalar.clamp_mem _), RealScalar.arccos_clamp]
      rw [hcl]
      simp only [RealScalar.sub_eq, RealScalar.radians_eq]
      by_cases h3 : c.thetaDeg * (π / 180) < arccos (cosAngle c self other) - c.tol
      · rw [if_pos ((RealScalar.gt_eq _ _).mpr h3)]
        constructor
        · intro h; cases h
        · rintro ⟨_, h | h⟩
          · exact absurd h h2.ne'
          · exact absurd h (not_le.mpr h3)
      · rw [if_neg (fun h => h3 ((RealScalar.gt_eq _ _).mp h))]
        exact ⟨fun _ => ⟨not_lt.mp h1, Or.inr (not_lt.mp h3)⟩, fun _ => rfl⟩
    · rw [if_neg (fun h => h2 (by simpa using (RealScalar.gt_eq _ _).mp h))]
      exact ⟨fun _ => ⟨not_lt.mp h1, Or.inl (le_antisymm (not_lt.mp h2) hd0)⟩, fun _ => rfl⟩

/-- translate a position -/
def shift (t p : V3 ℝ) : V3 ℝ := ⟨p.x + t.x, p.y + t.y, p.z + t.z⟩

/-- the pinned decision: `math.acos(dot_product)` without the clamp -/
def judgePinnedWith {S : Type} [Scalar S] (c : Config S) (distance dot : S) : Verdict :=
  if Scalar.gt distance c.reach then .outOfReach
  else if Scalar.gt distance (Scalar.ofInt 0) then
    match Scalar.acos? dot with
    | none => .error
    | some ac =>
      if Scalar.gt (Scalar.sub ac c.tol) (Scalar.radians c.thetaDeg) then .outOfAngle else .detected
  else .detected

end Camera
