import GradysProofs.Lemmas.SimAcc
/-
  The pending-timer invariant (C07): identifiers are fresh and unique per node, every pending
  timer has its event queued, timer events are pairwise distinct.
-/
set_option linter.unusedSectionVars false

namespace Sim
variable {S σ : Type} [Scalar S]

def _root_.EvKind.isTimer : EvKind S → Prop
  | .timerFire _ _ _ => True
  | _ => False

structure PInv (w : World S σ) : Prop where
  id_lt : ∀ p ∈ w.pending, p.2.2 < w.nextTimer p.1
  nodup : w.pending.Nodup
  ev_lt : ∀ e ∈ w.raccepted, ∀ n name id, e.kind = .timerFire n name id → id < w.nextTimer n
  ev_unique : w.raccepted.Pairwise
    (fun a b => ∀ n na nb id, a.kind = .timerFire n na id → b.kind = .timerFire n nb id → False)
  queued : ∀ p ∈ w.pending, ∃ e ∈ w.loop.queue, e.kind = .timerFire p.1 p.2.1 p.2.2

theorem PInv.congr {w w' : World S σ} (h1 : w'.pending = w.pending) (h2 : w'.nextTimer = w.nextTimer)
    (h3 : w'.raccepted = w.raccepted) (h4 : w'.loop.queue = w.loop.queue) (h : PInv w) : PInv w' := by
  constructor
  · rw [h1, h2]; exact h.id_lt
  · rw [h1]; exact h.nodup
  · rw [h2, h3]; exact h.ev_lt
  · rw [h3]; exact h.ev_unique
  · rw [h1, h4]; exact h.queued

/-- handler actions that create only non-timer events and leave the timer bookkeeping alone -/
structure KExt (w w' : World S σ) : Prop where
  pending_eq : w'.pending = w.pending
  nextTimer_eq : w'.nextTimer = w.nextTimer
  acc : ∃ new, w'.raccepted = new ++ w.raccepted ∧ ∀ e ∈ new, ¬ e.kind.isTimer
  queue_sup : ∀ e ∈ w.loop.queue, e ∈ w'.loop.queue

theorem KExt.refl (w : World S σ) : KExt w w := ⟨rfl, rfl, ⟨[], rfl, by simp⟩, fun _ h => h⟩

theorem KExt.trans {a b c : World S σ} (h1 : KExt a b) (h2 : KExt b c) : KExt a c where
  pending_eq := h2.pending_eq.trans h1.pending_eq
  nextTimer_eq := h2.nextTimer_eq.trans h1.nextTimer_eq
  acc := by
    obtain ⟨l1, e1, q1⟩ := h1.acc
    obtain ⟨l2, e2, q2⟩ := h2.acc
    refine ⟨l2 ++ l1, by rw [e2, e1, List.append_assoc], ?_⟩
    intro e he
    rcases List.mem_append.mp he with he | he
    · exact q2 e he
    · exact q1 e he
  queue_sup := fun e he => h2.queue_sup e (h1.queue_sup e he)

theorem KExt.of_eq {w w' : World S σ} (h1 : w'.pending = w.pending) (h2 : w'.nextTimer = w.nextTimer)
    (h3 : w'.raccepted = w.raccepted) (h4 : w'.loop.queue = w.loop.queue) : KExt w w' :=
  ⟨h1, h2, ⟨[], by rw [h3]; rfl, by simp⟩, fun e he => by rw [h4]; exact he⟩

theorem kext_sched (ts : Int) (k : EvKind S) (hk : ¬ k.isTimer) (w : World S σ) : KExt w (sched ts k w) :=
  ⟨rfl, rfl, ⟨[_], rfl, by intro e he; rw [List.mem_singleton.mp he]; exact hk⟩,
   fun e he => mem_insertEv.mpr (Or.inr he)⟩

theorem PInv.kext {w w' : World S σ} (e : KExt w w') (h : PInv w) : PInv w' := by
  obtain ⟨new, hacc, hq⟩ := e.acc
  constructor
  · rw [e.pending_eq, e.nextTimer_eq]; exact h.id_lt
  · rw [e.pending_eq]; exact h.nodup
  · intro x hx n name id hk
    rw [hacc] at hx
    rw [e.nextTimer_eq]
    rcases List.mem_append.mp hx with hx | hx
    · exact absurd (by rw [hk]; trivial) (hq x hx)
    · exact h.ev_lt x hx n name id hk
  · rw [hacc, List.pairwise_append]
    refine ⟨?_, h.ev_unique, ?_⟩
    · refine List.Pairwise.imp_of_mem (R := fun _ _ => True) ?_ (List.pairwise_of_forall (fun _ _ => trivial))
      intro a b ha _ _ n na nb id hk _
      exact (hq a ha) (by rw [hk]; trivial)
    · intro a ha b _ n na nb id hk _
      exact (hq a ha) (by rw [hk]; trivial)
  · intro p hp
    rw [e.pending_eq] at hp
    obtain ⟨x, hx, hk⟩ := h.queued p hp
    exact ⟨x, e.queue_sup x hx, hk⟩

theorem kext_foldl {α : Type} (f : World S σ → α → World S σ) (l : List α)
    (hf : ∀ w a, KExt w (f w a)) (w : World S σ) : KExt w (l.foldl f w) := by
  induction l generalizing w with
  | nil => exact KExt.refl w
  | cons a l ih => exact (hf w a).trans (ih (f w a))

theorem kext_consumeDraw (cfg : Config S) (w : World S σ) : KExt w (consumeDraw cfg w).2 := by
  unfold consumeDraw
  split
  · exact KExt.of_eq rfl rfl rfl rfl
  · exact KExt.refl w

theorem kext_transmit (cfg : Config S) (src dst : NodeId) (msg : String) (w : World S σ) :
    KExt w (transmit cfg src dst msg w) := by
  unfold transmit
  simp only
  split
  · exact (kext_consumeDraw cfg w).trans (kext_sched _ _ (by intro h; exact h) _)
  · exact kext_consumeDraw cfg w

theorem kext_broadcastTo (cfg : Config S) (src : NodeId) (msg : String) (dsts : List NodeId)
    (w : World S σ) : KExt w (broadcastTo cfg src msg dsts w) := by
  unfold broadcastTo
  apply kext_foldl
  intro w d
  split
  · exact KExt.refl w
  · exact kext_transmit cfg src d msg w

theorem kext_mobTick (cfg : Config S) (w : World S σ) : KExt w (mobTick cfg w) := by
  unfold mobTick
  simp only
  refine KExt.trans (kext_foldl _ _ ?_ w) (kext_sched _ _ (by intro h; exact h) _)
  intro w n
  refine KExt.trans (b := { w with pos := upd w.pos n (Mobility.step cfg.dtS (w.pos n) (w.target n) (w.speed n)) }) ?_ ?_
  · exact KExt.of_eq rfl rfl rfl rfl
  · exact kext_sched _ _ (by intro h; exact h) _

theorem upd_same {α : Type} (f : NodeId → α) (n : NodeId) (a : α) : upd f n a n = a := by simp [upd]
theorem upd_other {α : Type} (f : NodeId → α) (n m : NodeId) (a : α) (h : m ≠ n) : upd f n a m = f m := by
  simp [upd, h]

/-- an accepted `set_timer` -/
theorem setTimer_pinv (n : NodeId) (name : String) (at_ : Int) (w : World S σ) (h : PInv w) :
    PInv { sched at_ (.timerFire n name (w.nextTimer n)) w with
      pending := (n, name, w.nextTimer n) :: w.pending,
      nextTimer := upd w.nextTimer n (w.nextTimer n + 1) } := by
  have hmono : ∀ m, w.nextTimer m ≤ upd w.nextTimer n (w.nextTimer n + 1) m := by
    intro m
    by_cases hm : m = n
    · subst hm; rw [upd_same]; omega
    · rw [upd_other _ _ _ _ hm]; exact Nat.le_refl _
  constructor
  · intro p hp
    rcases List.mem_cons.mp hp with rfl | hp
    · show w.nextTimer n < upd w.nextTimer n (w.nextTimer n + 1) n
      rw [upd_same]; omega
    · exact Nat.lt_of_lt_of_le (h.id_lt p hp) (hmono p.1)
  · refine List.nodup_cons.mpr ⟨?_, h.nodup⟩
    intro hm
    have := h.id_lt _ hm
    simp at this
  · intro e he m nm id hk
    have he : e ∈ (⟨at_, w.loop.nextSeq, .timerFire n name (w.nextTimer n)⟩ : Ev (EvKind S)) :: w.raccepted := he
    rcases List.mem_cons.mp he with rfl | he
    · injection hk with h1 h2 h3
      subst h1; subst h3
      show w.nextTimer n < upd w.nextTimer n (w.nextTimer n + 1) n
      rw [upd_same]; omega
    · exact Nat.lt_of_lt_of_le (h.ev_lt e he m nm id hk) (hmono m)
  · show List.Pairwise _ ((⟨at_, w.loop.nextSeq, .timerFire n name (w.nextTimer n)⟩ : Ev (EvKind S)) :: w.raccepted)
    refine List.pairwise_cons.mpr ⟨?_, h.ev_unique⟩
    intro b hb m na nb id hk1 hk2
    injection hk1 with h1 h2 h3
    subst h1; subst h3
    have := h.ev_lt b hb n nb (w.nextTimer n) hk2
    omega
  · intro p hp
    rcases List.mem_cons.mp hp with rfl | hp
    · exact ⟨_, mem_insertEv.mpr (Or.inl rfl), rfl⟩
    · obtain ⟨x, hx, hk⟩ := h.queued p hp
      exact ⟨x, mem_insertEv.mpr (Or.inr hx), hk⟩

theorem execReq_pinv (cfg : Config S) (n : NodeId) (r : Request S) (w : World S σ) (h : PInv w) :
    PInv (execReq cfg n r w).1 := by
  cases r with
  | setTimer name at_ =>
    simp only [execReq]
    split
    · exact h
    · split
      · exact h
      · exact setTimer_pinv n name at_ w h
  | cancelTimer name =>
    simp only [execReq]
    split
    · exact h
    · constructor
      · intro p hp; exact h.id_lt p (List.mem_filter.mp hp).1
      · exact h.nodup.filter _
      · exact h.ev_lt
      · exact h.ev_unique
      · intro p hp; exact h.queued p (List.mem_filter.mp hp).1
  | send msg dst =>
    simp only [execReq]
    split
    · exact h
    · split
      · exact h
      · split
        · exact h
        · split
          · exact h
          · exact h.kext (kext_transmit _ _ _ _ _)
  | broadcast msg =>
    simp only [execReq]
    split
    · exact h
    · exact h.kext (kext_broadcastTo _ _ _ _ _)
  | goto p =>
    simp only [execReq]
    split
    · exact h
    · exact h.congr (w := w) rfl rfl rfl rfl
  | gotoGeo p =>
    simp only [execReq]
    split
    · exact h
    · exact h.congr (w := w) rfl rfl rfl rfl
  | setSpeed v =>
    simp only [execReq]
    split
    · exact h
    · exact h.congr (w := w) rfl rfl rfl rfl
  | setRange r =>
    simp only [execReq]
    split
    · exact h
    · split
      · exact h
      · exact h.congr (w := w) rfl rfl rfl rfl

theorem runProg_pinv (cfg : Config S) (n : NodeId) (p : Prog S σ) (w : World S σ) (h : PInv w) :
    PInv (runProg cfg n p w).1 := by
  induction p generalizing w with
  | done s => exact h
  | req r k ih =>
    simp only [runProg]
    exact ih _ _ ((execReq_pinv cfg n r w h).congr (w := (execReq cfg n r w).1) rfl rfl rfl rfl)

theorem callback_pinv (cfg : Config S) (P : NodeId → Proto S σ) (n : NodeId) (cb : Callback S)
    (w : World S σ) (h : PInv w) : PInv (callback cfg P n cb w) := by
  unfold callback
  simp only
  have h0 : PInv (log (.callback n cb (reportedTime cfg w)) w) := h.congr (w := w) rfl rfl rfl rfl
  have := runProg_pinv cfg n ((P n).react (w.pstate n) n (reportedTime cfg w) cb) _ h0
  exact this.congr (w := (runProg cfg n ((P n).react (w.pstate n) n (reportedTime cfg w) cb)
    (log (.callback n cb (reportedTime cfg w)) w)).1) rfl rfl rfl rfl

theorem foldl_pinv {α : Type} (f : World S σ → α → World S σ) (l : List α)
    (hf : ∀ w a, PInv w → PInv (f w a)) (w : World S σ) (h : PInv w) : PInv (l.foldl f w) := by
  induction l generalizing w with
  | nil => exact h
  | cons a l ih => exact ih _ (hf w a h)

theorem init_pinv (cfg : Config S) (P : NodeId → Proto S σ) : PInv (init cfg P) := by
  rw [init_eq]
  have h0 : PInv (init0 cfg P) := by constructor <;> simp [init0]
  split
  · exact h0.kext (kext_sched _ _ (by intro h; exact h) _)
  · exact h0

theorem initialise_pinv (cfg : Config S) (P : NodeId → Proto S σ) (w : World S σ) (h : PInv w) :
    PInv (initialise cfg P w) := by
  unfold initialise callbackAll logAll
  simp only
  refine foldl_pinv (fun w n => callback cfg P n .initialize w) _
    (fun w n hw => callback_pinv cfg P n .initialize w hw) _ ?_
  refine foldl_pinv (fun w h => log (Obs.handlerInit h) w) _
    (fun w s hw => hw.congr (w := w) rfl rfl rfl rfl) _ ?_
  exact h.congr (w := w) rfl rfl rfl rfl

theorem finalise_pinv (cfg : Config S) (P : NodeId → Proto S σ) (w : World S σ) (h : PInv w) :
    PInv (finalise cfg P w) := by
  unfold finalise
  split
  · exact h
  · unfold callbackAll logAll
    simp only
    refine PInv.congr (w := List.foldl (fun w h => log (Obs.handlerFinal h) w)
      (List.foldl (fun w n => callback cfg P n .finish w) w (List.range cfg.nNodes)) cfg.handlers) rfl rfl rfl rfl ?_
    refine foldl_pinv (fun w h => log (Obs.handlerFinal h) w) _
      (fun w s hw => hw.congr (w := w) rfl rfl rfl rfl) _ ?_
    exact foldl_pinv (fun w n => callback cfg P n .finish w) _
      (fun w n hw => callback_pinv cfg P n .finish w hw) w h

/-- popping the head and executing it -/
theorem execEv_popped_pinv (cfg : Config S) (P : NodeId → Proto S σ) (e : Ev (EvKind S))
    (rest : List (Ev (EvKind S))) (w : World S σ) (h : PInv w) (hq : w.loop.queue = e :: rest)
    (hw : WInv w) : PInv (execEv cfg P e (popped e rest w)) := by
  -- the event of every pending timer other than the popped one is still queued
  have hrest : ∀ p ∈ w.pending, (∀ n name id, e.kind = .timerFire n name id → p ≠ (n, name, id)) →
      ∃ x ∈ rest, x.kind = .timerFire p.1 p.2.1 p.2.2 := by
    intro p hp hne
    obtain ⟨x, hx, hk⟩ := h.queued p hp
    rw [hq] at hx
    rcases List.mem_cons.mp hx with rfl | hx
    · exact absurd rfl (hne p.1 p.2.1 p.2.2 hk)
    · exact ⟨x, hx, hk⟩
  have hbase : ∀ (pend : List (NodeId × String × Nat)), pend.Nodup → (∀ p ∈ pend, p ∈ w.pending) →
      (∀ p ∈ pend, ∀ n name id, e.kind = .timerFire n name id → p ≠ (n, name, id)) →
      PInv { popped e rest w with pending := pend } := by
    intro pend hnd hsub hne
    constructor
    · intro p hp; exact h.id_lt p (hsub p hp)
    · exact hnd
    · exact h.ev_lt
    · exact h.ev_unique
    · intro p hp; exact hrest p (hsub p hp) (hne p hp)
  unfold execEv
  split
  · rename_i n name id hk
    have hk' : e.kind = .timerFire n name id := hk
    split
    · apply callback_pinv
      refine hbase (w.pending.erase (n, name, id)) (h.nodup.erase _) (fun p hp => List.mem_of_mem_erase hp) ?_
      intro p hp n' name' id' hk2
      rw [hk'] at hk2
      injection hk2 with h1 h2 h3
      subst h1; subst h2; subst h3
      intro hc
      rw [hc] at hp
      exact (h.nodup.mem_erase_iff.mp hp).1 rfl
    · rename_i hnc
      refine hbase w.pending h.nodup (fun p hp => hp) ?_
      intro p hp n' name' id' hk2
      rw [hk'] at hk2
      injection hk2 with h1 h2 h3
      subst h1; subst h2; subst h3
      intro hc
      rw [hc] at hp
      exact hnc (List.contains_iff_mem.mpr hp)
  · rename_i dst src msg hk
    apply callback_pinv
    exact hbase w.pending h.nodup (fun p hp => hp) (fun p hp n name id hk2 => by
      have hk' : e.kind = .deliver dst src msg := hk
      rw [hk'] at hk2; cases hk2)
  · rename_i hk
    refine PInv.kext (kext_mobTick cfg _) ?_
    exact hbase w.pending h.nodup (fun p hp => hp) (fun p hp n name id hk2 => by
      have hk' : e.kind = .mobTick := hk
      rw [hk'] at hk2; cases hk2)
  · rename_i n p hk
    apply callback_pinv
    exact hbase w.pending h.nodup (fun p hp => hp) (fun q hq' n' name id hk2 => by
      have hk' : e.kind = .telemetry n p := hk
      rw [hk'] at hk2; cases hk2)

theorem step_pinv (cfg : Config S) (P : NodeId → Proto S σ) (w : World S σ)
    (hw : WInv w) (h : PInv w) (hprep : WInv (prep cfg P w)) : PInv (step cfg P w).1 := by
  cases hf : w.finalized with
  | true => unfold step; simp [hf]; exact h
  | false =>
    rw [step_eq cfg P w hf]
    have h1 : PInv (prep cfg P w) := by
      unfold prep; split
      · exact h
      · exact initialise_pinv cfg P w h
    generalize prep cfg P w = w1 at h1 hprep
    split
    · exact finalise_pinv cfg P w1 h1
    · split
      · exact h1
      · rename_i e rest hq
        have hs : PInv (execStep cfg P e rest w1) := by
          rw [execStep_eq]
          simp only
          have := execEv_popped_pinv cfg P e rest w1 h1 hq hprep
          refine PInv.congr (w := logAll (fun h => Obs.afterStep h (execEv cfg P e (popped e rest w1)).iter e.ts)
            cfg.handlers (execEv cfg P e (popped e rest w1))) rfl rfl rfl rfl ?_
          unfold logAll
          exact foldl_pinv (fun w h => log (Obs.afterStep h (execEv cfg P e (popped e rest w1)).iter e.ts) w) _
            (fun w s hw => hw.congr (w := w) rfl rfl rfl rfl) _ this
        split
        · exact finalise_pinv cfg P _ hs
        · exact hs

theorem stepRaised_pinv (cfg : Config S) (P : NodeId → Proto S σ) (w : World S σ)
    (hw : WInv w) (h : PInv w) : PInv (stepRaised cfg P w) := by
  unfold stepRaised
  split
  · exact h
  · have hi : WInv (if w.initialized then w else initialise cfg P w) ∧
        PInv (if w.initialized then w else initialise cfg P w) := by
      split
      · exact ⟨hw, h⟩
      · exact ⟨(initialise_inv cfg P w hw).1, initialise_pinv cfg P w h⟩
    generalize (if w.initialized then w else initialise cfg P w) = w1 at hi
    obtain ⟨hw1, h1⟩ := hi
    simp only
    split
    · exact finalise_pinv cfg P w1 h1
    · split
      · exact h1
      · rename_i e rest hq
        exact execEv_popped_pinv cfg P e rest w1 h1 hq hw1

theorem reachableT_pinv {cfg : Config S} (hdt : 0 ≤ cfg.dt) {P : NodeId → Proto S σ} {w : World S σ}
    (h : ReachableT cfg P w) : PInv w := by
  induction h with
  | init => exact init_pinv cfg P
  | @step w0 hr ih =>
    have hw := reachableT_inv hdt hr
    have hprep : WInv (prep cfg P w0) := by
      unfold prep; split
      · exact hw
      · exact (initialise_inv cfg P w0 hw).1
    exact step_pinv cfg P w0 hw ih hprep
  | ext n p _ ih => exact runProg_pinv cfg n p _ ih
  | raised hr ih => exact stepRaised_pinv cfg P _ (reachableT_inv hdt hr) ih

theorem initWith_pinv (cfg : Config S) (P : NodeId → Proto S σ) (pre : List (NodeId × Prog S σ)) :
    PInv (initWith cfg P pre) :=
  initWith_induction (C := fun w => PInv w) (init_pinv cfg P) (fun n p w h => runProg_pinv cfg n p w h) pre

theorem reachable_pinv {cfg : Config S} (hdt : 0 ≤ cfg.dt) {P : NodeId → Proto S σ} {w : World S σ}
    (h : Reachable cfg P w) : PInv w := by
  refine h.rec_inv (init_pinv cfg P) (fun w hr hp => ?_) (fun w n p _ hp => runProg_pinv cfg n p w hp)
  have hw := reachable_inv hdt hr
  have hprep : WInv (prep cfg P w) := by
    unfold prep; split
    · exact hw
    · exact (initialise_inv cfg P w hw).1
  exact step_pinv cfg P w hw hp hprep

end Sim
