import GradysProofs.Lemmas.SimStep
import GradysProofs.Lemmas.SimTick
/-
  The mobility invariant behind C12: exactly one update event is queued, it is due at
  (number of executed updates + 1)·dt, every queued telemetry event is due NOW and carries its
  node's current position, and it precedes the next update.
-/
set_option linter.unusedSectionVars false

namespace Sim
variable {S σ : Type} [Scalar S]

def _root_.EvKind.isTick : EvKind S → Bool
  | .mobTick => true
  | _ => false

def _root_.EvKind.isTel : EvKind S → Bool
  | .telemetry _ _ => true
  | _ => false

/-- number of mobility updates executed so far -/
def tickCount (w : World S σ) : Nat := (w.rexecuted.filter (fun e => e.kind.isTick)).length

structure MInv (cfg : Config S) (w : World S σ) : Prop where
  ticks : (w.loop.queue.filter (fun e => e.kind.isTick)).length = if cfg.hasMob then 1 else 0
  tel_now : ∀ e ∈ w.loop.queue, ∀ n p, e.kind = .telemetry n p → e.ts = w.loop.now ∧ w.pos n = p
  tick_after_tel : ∀ e ∈ w.loop.queue, e.kind.isTel = true →
    ∀ e' ∈ w.loop.queue, e'.kind.isTick = true → e.ts < e'.ts
  tick_time : ∀ e ∈ w.loop.queue, e.kind.isTick = true → e.ts = ((tickCount w : Nat) + 1) * cfg.dt
  exec_ticks : ∀ l1 e l2, w.rexecuted = l1 ++ e :: l2 → e.kind.isTick = true →
    e.ts = (((l2.filter (fun e => e.kind.isTick)).length : Nat) + 1) * cfg.dt

/-- protocol-level actions: new queue entries are neither updates nor telemetry; positions, clock
    and executed list untouched -/
structure MExt (w w' : World S σ) : Prop where
  queue : ∃ new, w'.loop.queue.Perm (new ++ w.loop.queue) ∧
    ∀ e ∈ new, e.kind.isTick = false ∧ e.kind.isTel = false
  pos_eq : w'.pos = w.pos
  now_eq : w'.loop.now = w.loop.now
  exec_eq : w'.rexecuted = w.rexecuted

theorem MExt.refl (w : World S σ) : MExt w w := ⟨⟨[], by simp, by simp⟩, rfl, rfl, rfl⟩

theorem MExt.trans {a b c : World S σ} (h1 : MExt a b) (h2 : MExt b c) : MExt a c where
  queue := by
    obtain ⟨n1, p1, q1⟩ := h1.queue
    obtain ⟨n2, p2, q2⟩ := h2.queue
    refine ⟨n2 ++ n1, ?_, ?_⟩
    · refine p2.trans ?_
      rw [List.append_assoc]
      exact List.Perm.append_left _ p1
    · intro e he
      rcases List.mem_append.mp he with he | he
      · exact q2 e he
      · exact q1 e he
  pos_eq := h2.pos_eq.trans h1.pos_eq
  now_eq := h2.now_eq.trans h1.now_eq
  exec_eq := h2.exec_eq.trans h1.exec_eq

theorem MExt.of_eq {w w' : World S σ} (h1 : w'.loop = w.loop) (h2 : w'.pos = w.pos)
    (h3 : w'.rexecuted = w.rexecuted) : MExt w w' :=
  ⟨⟨[], by rw [h1]; simp, by simp⟩, h2, by rw [h1], h3⟩

theorem mext_sched (ts : Int) (k : EvKind S) (h1 : k.isTick = false) (h2 : k.isTel = false)
    (w : World S σ) : MExt w (sched ts k w) :=
  ⟨⟨[⟨ts, w.loop.nextSeq, k⟩], insertEv_perm _ _, by
    intro e he; rw [List.mem_singleton.mp he]; exact ⟨h1, h2⟩⟩, rfl, rfl, rfl⟩

theorem mext_foldl {α : Type} (f : World S σ → α → World S σ) (l : List α)
    (hf : ∀ w a, MExt w (f w a)) (w : World S σ) : MExt w (l.foldl f w) := by
  induction l generalizing w with
  | nil => exact MExt.refl w
  | cons a l ih => exact (hf w a).trans (ih (f w a))

theorem mext_consumeDraw (cfg : Config S) (w : World S σ) : MExt w (consumeDraw cfg w).2 := by
  unfold consumeDraw
  split
  · exact MExt.of_eq rfl rfl rfl
  · exact MExt.refl w

theorem mext_transmit (cfg : Config S) (src dst : NodeId) (msg : String) (w : World S σ) :
    MExt w (transmit cfg src dst msg w) := by
  unfold transmit
  simp only
  split
  · exact (mext_consumeDraw cfg w).trans (mext_sched _ _ rfl rfl _)
  · exact mext_consumeDraw cfg w

theorem mext_broadcastTo (cfg : Config S) (src : NodeId) (msg : String) (dsts : List NodeId)
    (w : World S σ) : MExt w (broadcastTo cfg src msg dsts w) := by
  unfold broadcastTo
  apply mext_foldl
  intro w d
  split
  · exact MExt.refl w
  · exact mext_transmit cfg src d msg w

theorem mext_execReq (cfg : Config S) (n : NodeId) (r : Request S) (w : World S σ) :
    MExt w (execReq cfg n r w).1 := by
  cases r with
  | setTimer name at_ =>
    simp only [execReq]
    split
    · exact MExt.refl w
    · split
      · exact MExt.refl w
      · exact (mext_sched at_ (.timerFire n name (w.nextTimer n)) rfl rfl w).trans (MExt.of_eq rfl rfl rfl)
  | cancelTimer name =>
    simp only [execReq]
    split
    · exact MExt.refl w
    · exact MExt.of_eq rfl rfl rfl
  | send msg dst =>
    simp only [execReq]
    split
    · exact MExt.refl w
    · split
      · exact MExt.refl w
      · split
        · exact MExt.refl w
        · split
          · exact MExt.refl w
          · exact mext_transmit _ _ _ _ _
  | broadcast msg =>
    simp only [execReq]
    split
    · exact MExt.refl w
    · exact mext_broadcastTo _ _ _ _ _
  | goto p =>
    simp only [execReq]
    split
    · exact MExt.refl w
    · exact MExt.of_eq rfl rfl rfl
  | gotoGeo p =>
    simp only [execReq]
    split
    · exact MExt.refl w
    · exact MExt.of_eq rfl rfl rfl
  | setSpeed v =>
    simp only [execReq]
    split
    · exact MExt.refl w
    · exact MExt.of_eq rfl rfl rfl
  | setRange r =>
    simp only [execReq]
    split
    · exact MExt.refl w
    · split
      · exact MExt.refl w
      · exact MExt.of_eq rfl rfl rfl

theorem mext_runProg (cfg : Config S) (n : NodeId) (p : Prog S σ) (w : World S σ) :
    MExt w (runProg cfg n p w).1 := by
  induction p generalizing w with
  | done s => exact MExt.refl w
  | req r k ih =>
    simp only [runProg]
    exact (mext_execReq cfg n r w).trans
      ((MExt.of_eq (w := (execReq cfg n r w).1)
        (w' := log (.request n r (execReq cfg n r w).2) (execReq cfg n r w).1) rfl rfl rfl).trans
        (ih (execReq cfg n r w).2 (log (.request n r (execReq cfg n r w).2) (execReq cfg n r w).1)))

theorem mext_callback (cfg : Config S) (P : NodeId → Proto S σ) (n : NodeId) (cb : Callback S)
    (w : World S σ) : MExt w (callback cfg P n cb w) := by
  unfold callback
  simp only
  refine (MExt.of_eq (w := w) (w' := log (.callback n cb (reportedTime cfg w)) w) rfl rfl rfl).trans ?_
  refine (mext_runProg cfg n ((P n).react (w.pstate n) n (reportedTime cfg w) cb) _).trans ?_
  exact MExt.of_eq rfl rfl rfl

theorem tickCount_congr {w w' : World S σ} (h : w'.rexecuted = w.rexecuted) : tickCount w' = tickCount w := by
  unfold tickCount; rw [h]

theorem MInv.mext {cfg : Config S} {w w' : World S σ} (e : MExt w w') (h : MInv cfg w) : MInv cfg w' := by
  obtain ⟨new, hp, hq⟩ := e.queue
  have hmem : ∀ x, x ∈ w'.loop.queue → x ∈ new ∨ x ∈ w.loop.queue := fun x hx =>
    List.mem_append.mp (hp.mem_iff.mp hx)
  constructor
  · rw [← h.ticks]
    have := (hp.filter (fun e => e.kind.isTick)).length_eq
    rw [this, List.filter_append]
    have hn : new.filter (fun e => e.kind.isTick) = [] := by
      rw [List.filter_eq_nil_iff]; intro x hx; simp [(hq x hx).1]
    rw [hn]; rfl
  · intro x hx n p hk
    rcases hmem x hx with hx | hx
    · have := (hq x hx).2; rw [hk] at this; cases this
    · rw [e.now_eq, e.pos_eq]; exact h.tel_now x hx n p hk
  · intro x hx hxt y hy hyt
    rcases hmem x hx with hx | hx
    · rw [(hq x hx).2] at hxt; cases hxt
    · rcases hmem y hy with hy | hy
      · rw [(hq y hy).1] at hyt; cases hyt
      · exact h.tick_after_tel x hx hxt y hy hyt
  · intro x hx hxt
    rw [tickCount_congr e.exec_eq]
    rcases hmem x hx with hx | hx
    · rw [(hq x hx).1] at hxt; cases hxt
    · exact h.tick_time x hx hxt
  · intro l1 x l2 hl hx
    rw [e.exec_eq] at hl
    exact h.exec_ticks l1 x l2 hl hx

theorem MInv.congr {cfg : Config S} {w w' : World S σ} (h1 : w'.loop = w.loop) (h2 : w'.pos = w.pos)
    (h3 : w'.rexecuted = w.rexecuted) (h : MInv cfg w) : MInv cfg w' :=
  h.mext (MExt.of_eq h1 h2 h3)

theorem foldl_minv {cfg : Config S} {α : Type} (f : World S σ → α → World S σ) (l : List α)
    (hf : ∀ w a, MInv cfg w → MInv cfg (f w a)) (w : World S σ) (h : MInv cfg w) :
    MInv cfg (l.foldl f w) := by
  induction l generalizing w with
  | nil => exact h
  | cons a l ih => exact ih _ (hf w a h)

/-- the queue after one mobility update -/
theorem tickNodes_queue (cfg : Config S) (ns : List NodeId) (hnd : ns.Nodup) (w : World S σ) :
    ∃ tels, (C12.tickNodes cfg ns w).loop.queue.Perm (tels ++ w.loop.queue) ∧
      (∀ e ∈ tels, ∃ n ∈ ns, e.ts = w.loop.now ∧ e.kind = .telemetry n ((C12.tickNodes cfg ns w).pos n)) ∧
      (C12.tickNodes cfg ns w).loop.now = w.loop.now ∧
      (C12.tickNodes cfg ns w).rexecuted = w.rexecuted ∧
      (∀ m, m ∉ ns → (C12.tickNodes cfg ns w).pos m = w.pos m) := by
  induction ns generalizing w with
  | nil => exact ⟨[], by simp [C12.tickNodes], by simp, rfl, rfl, fun _ _ => rfl⟩
  | cons n ns ih =>
    have hnd' := List.nodup_cons.mp hnd
    let w1 : World S σ := sched w.loop.now (.telemetry n (C12.newPos cfg w n))
      { w with pos := upd w.pos n (C12.newPos cfg w n) }
    have hstep : C12.tickNodes cfg (n :: ns) w = C12.tickNodes cfg ns w1 := rfl
    obtain ⟨tels, hp, hk, hnow, hex, hpos⟩ := ih hnd'.2 w1
    rw [hstep]
    refine ⟨tels ++ [⟨w.loop.now, w.loop.nextSeq, .telemetry n (C12.newPos cfg w n)⟩], ?_, ?_, hnow, hex, ?_⟩
    · refine hp.trans ?_
      rw [List.append_assoc]
      exact List.Perm.append_left _ (insertEv_perm _ _)
    · intro e he
      rcases List.mem_append.mp he with he | he
      · obtain ⟨m, hm, h1, h2⟩ := hk e he
        exact ⟨m, List.mem_cons_of_mem _ hm, h1, h2⟩
      · rw [List.mem_singleton.mp he]
        refine ⟨n, List.mem_cons_self, rfl, ?_⟩
        rw [hpos n hnd'.1]
        show EvKind.telemetry n _ = EvKind.telemetry n (upd w.pos n (C12.newPos cfg w n) n)
        simp [upd]
    · intro m hm
      have : m ∉ ns := fun h => hm (List.mem_cons_of_mem _ h)
      rw [hpos m this]
      have : m ≠ n := fun h => hm (h ▸ List.mem_cons_self)
      show upd w.pos n _ m = _
      simp [upd, this]

theorem filter_tick_length_perm {l l' : List (Ev (EvKind S))} (h : l.Perm l') :
    (l.filter (fun e => e.kind.isTick)).length = (l'.filter (fun e => e.kind.isTick)).length :=
  (h.filter _).length_eq

/-- executing the head event preserves the mobility invariant -/
theorem execEv_popped_minv (cfg : Config S) (hdt : 0 < cfg.dt) (P : NodeId → Proto S σ)
    (e : Ev (EvKind S)) (rest : List (Ev (EvKind S))) (w : World S σ) (h : MInv cfg w) (hw : WInv w)
    (hq : w.loop.queue = e :: rest) : MInv cfg (execEv cfg P e (popped e rest w)) := by
  have hs : (e :: rest).Pairwise keyLt := hq ▸ hw.sorted
  have hhead := sorted_head_least hs
  have hmem : ∀ x, x ∈ rest → x ∈ w.loop.queue := fun x hx => by rw [hq]; exact List.mem_cons_of_mem _ hx
  have he : e ∈ w.loop.queue := by rw [hq]; exact List.mem_cons_self
  have hnow : w.loop.now ≤ e.ts := hw.ge_now e he
  -- the popped world when the head is not an update event
  have hpop : e.kind.isTick = false → MInv cfg (popped e rest w) := by
    intro hk
    constructor
    · rw [← h.ticks, hq, List.filter_cons]; simp [hk, popped]
    · intro x hx n p hkx
      obtain ⟨h1, h2⟩ := h.tel_now x (hmem x hx) n p hkx
      refine ⟨?_, h2⟩
      show x.ts = e.ts
      have := keyLt_ts_le (hhead x hx)
      omega
    · intro x hx hxt y hy hyt
      exact h.tick_after_tel x (hmem x hx) hxt y (hmem y hy) hyt
    · intro x hx hxt
      have : tickCount (popped e rest w) = tickCount w := by
        unfold tickCount popped; simp [List.filter_cons, hk]
      rw [this]; exact h.tick_time x (hmem x hx) hxt
    · intro l1 x l2 hl hx
      cases l1 with
      | nil =>
        have hl' : e :: w.rexecuted = x :: l2 := hl
        injection hl' with h1 h2
        subst h1; rw [hk] at hx; cases hx
      | cons y l1 =>
        have hl' : e :: w.rexecuted = y :: (l1 ++ x :: l2) := hl
        injection hl' with _ h2
        exact h.exec_ticks l1 x l2 h2 hx
  unfold execEv
  split
  · rename_i n name id hk
    have hk' : e.kind.isTick = false := by
      have : e.kind = .timerFire n name id := hk
      rw [this]; rfl
    split
    · exact (MInv.congr (w := popped e rest w)
        (w' := { popped e rest w with pending := (popped e rest w).pending.erase (n, name, id) })
        rfl rfl rfl (hpop hk')).mext (mext_callback _ _ _ _ _)
    · exact hpop hk'
  · rename_i dst src msg hk
    have hk' : e.kind.isTick = false := by
      have : e.kind = .deliver dst src msg := hk
      rw [this]; rfl
    exact (hpop hk').mext (mext_callback _ _ _ _ _)
  · rename_i hk
    have hk' : e.kind = .mobTick := hk
    have hkt : e.kind.isTick = true := by rw [hk']; rfl
    -- no other update and no telemetry is queued behind the update being executed
    have hmob : cfg.hasMob = true := by
      cases hm : cfg.hasMob with
      | true => rfl
      | false =>
        have := h.ticks
        rw [hm, hq, List.filter_cons] at this
        simp [hkt] at this
    have hrest_tick : ∀ x ∈ rest, x.kind.isTick = false := by
      have := h.ticks
      rw [hmob, hq, List.filter_cons] at this
      simp only [hkt, if_true, List.length_cons] at this
      have hnil : rest.filter (fun e => e.kind.isTick) = [] := by
        apply List.eq_nil_of_length_eq_zero; omega
      intro x hx
      have := List.filter_eq_nil_iff.mp hnil x hx
      simpa using this
    have hrest_tel : ∀ x ∈ rest, x.kind.isTel = false := by
      intro x hx
      cases hxt : x.kind.isTel with
      | false => rfl
      | true =>
        have h1 := h.tick_after_tel x (hmem x hx) hxt e he hkt
        have h2 := keyLt_ts_le (hhead x hx)
        omega
    have hticktime : e.ts = ((tickCount w : Nat) + 1) * cfg.dt := h.tick_time e he hkt
    -- the world after the update
    have hm : mobTick cfg (popped e rest w) =
        sched ((C12.tickNodes cfg (List.range cfg.nNodes) (popped e rest w)).loop.now + cfg.dt) .mobTick
          (C12.tickNodes cfg (List.range cfg.nNodes) (popped e rest w)) := rfl
    obtain ⟨tels, hp, htk, htnow, htex, _⟩ :=
      tickNodes_queue cfg (List.range cfg.nNodes) List.nodup_range (popped e rest w)
    rw [hm]
    generalize C12.tickNodes cfg (List.range cfg.nNodes) (popped e rest w) = wt at hp htk htnow htex
    have hpnow : (popped e rest w).loop.now = e.ts := rfl
    have hpq : (popped e rest w).loop.queue = rest := rfl
    have hpex : (popped e rest w).rexecuted = e :: w.rexecuted := rfl
    rw [hpnow] at htnow htk
    rw [hpq] at hp
    have hqperm : (sched (wt.loop.now + cfg.dt) .mobTick wt).loop.queue.Perm
        (⟨wt.loop.now + cfg.dt, wt.loop.nextSeq, .mobTick⟩ :: (tels ++ rest)) :=
      (insertEv_perm _ _).trans (List.Perm.cons _ hp)
    have hmem' : ∀ x, x ∈ (sched (wt.loop.now + cfg.dt) .mobTick wt).loop.queue →
        x = ⟨wt.loop.now + cfg.dt, wt.loop.nextSeq, .mobTick⟩ ∨ x ∈ tels ∨ x ∈ rest := by
      intro x hx
      have := hqperm.mem_iff.mp hx
      rcases List.mem_cons.mp this with h1 | h1
      · exact Or.inl h1
      · exact Or.inr (List.mem_append.mp h1)
    have htel_kind : ∀ x ∈ tels, x.kind.isTel = true ∧ x.kind.isTick = false := by
      intro x hx
      obtain ⟨n, _, _, hk⟩ := htk x hx
      rw [hk]; exact ⟨rfl, rfl⟩
    have htc : tickCount (sched (wt.loop.now + cfg.dt) .mobTick wt) = tickCount w + 1 := by
      unfold tickCount
      show (wt.rexecuted.filter _).length = _
      rw [htex, hpex, List.filter_cons]; simp [hkt]
    constructor
    · rw [filter_tick_length_perm hqperm, List.filter_cons, hmob]
      have h1 : (tels ++ rest).filter (fun e => e.kind.isTick) = [] := by
        rw [List.filter_eq_nil_iff]
        intro x hx
        rcases List.mem_append.mp hx with hx | hx
        · simp [(htel_kind x hx).2]
        · simp [hrest_tick x hx]
      rw [h1]; simp [EvKind.isTick]
    · intro x hx n p hkx
      rcases hmem' x hx with rfl | hx | hx
      · cases hkx
      · obtain ⟨m, _, h1, h2⟩ := htk x hx
        rw [h2] at hkx
        injection hkx with h3 h4
        subst h3
        exact ⟨by show x.ts = wt.loop.now; rw [htnow]; exact h1, h4⟩
      · have := hrest_tel x hx; rw [hkx] at this; cases this
    · intro x hx hxt y hy hyt
      rcases hmem' y hy with rfl | hy | hy
      · rcases hmem' x hx with rfl | hx | hx
        · cases hxt
        · obtain ⟨m, _, h1, _⟩ := htk x hx
          show x.ts < wt.loop.now + cfg.dt
          rw [htnow]; omega
        · rw [hrest_tel x hx] at hxt; cases hxt
      · rw [(htel_kind y hy).2] at hyt; cases hyt
      · rw [hrest_tick y hy] at hyt; cases hyt
    · intro x hx hxt
      rw [htc]
      rcases hmem' x hx with rfl | hx | hx
      · show wt.loop.now + cfg.dt = _
        rw [htnow, hticktime]
        push_cast
        simp only [Int.add_mul, Int.one_mul]
      · rw [(htel_kind x hx).2] at hxt; cases hxt
      · rw [hrest_tick x hx] at hxt; cases hxt
    · intro l1 x l2 hl hx
      have hl' : wt.rexecuted = l1 ++ x :: l2 := hl
      rw [htex, hpex] at hl'
      cases l1 with
      | nil =>
        injection hl' with h1 h2
        subst h1; subst h2
        exact hticktime
      | cons y l1 =>
        injection hl' with _ h2
        exact h.exec_ticks l1 x l2 h2 hx
  · rename_i n p hk
    have hk' : e.kind.isTick = false := by
      have : e.kind = .telemetry n p := hk
      rw [this]; rfl
    exact (hpop hk').mext (mext_callback _ _ _ _ _)

theorem init_minv (cfg : Config S) (P : NodeId → Proto S σ) : MInv cfg (init cfg P) := by
  rw [init_eq]
  cases hm : cfg.hasMob with
  | false =>
    simp only [Bool.false_eq_true, if_false]
    constructor <;> simp [init0, EL.empty, hm]
  | true =>
    simp only [if_true]
    constructor
    · simp [sched, EL.push, init0, EL.empty, insertEv, EvKind.isTick, hm]
    · intro x hx n p hk
      simp [sched, EL.push, init0, EL.empty, insertEv] at hx
      subst hx; cases hk
    · intro x hx hxt
      simp [sched, EL.push, init0, EL.empty, insertEv] at hx
      subst hx; cases hxt
    · intro x hx _
      simp [sched, EL.push, init0, EL.empty, insertEv] at hx
      subst hx
      simp [tickCount, sched, init0]
    · intro l1 x l2 hl
      simp [sched, init0] at hl

theorem step_minv (cfg : Config S) (hdt : 0 < cfg.dt) (P : NodeId → Proto S σ) (w : World S σ)
    (h : MInv cfg w) (hprep : WInv (prep cfg P w)) : MInv cfg (step cfg P w).1 := by
  have hcb : ∀ (cb : Callback S) (ns : List NodeId) (w2 : World S σ), MInv cfg w2 →
      MInv cfg (callbackAll cfg P cb ns w2) := by
    intro cb ns w2 h2
    unfold callbackAll
    exact foldl_minv (fun w n => callback cfg P n cb w) _ (fun w n hw => hw.mext (mext_callback cfg P n cb w)) w2 h2
  have hlog : ∀ (f : String → Obs S) (hs : List String) (w2 : World S σ), MInv cfg w2 →
      MInv cfg (logAll f hs w2) := by
    intro f hs w2 h2
    unfold logAll
    exact foldl_minv (fun w h => log (f h) w) _ (fun w s hw => hw.congr (w := w) rfl rfl rfl) w2 h2
  have hfin : ∀ w2 : World S σ, MInv cfg w2 → MInv cfg (finalise cfg P w2) := by
    intro w2 h2
    unfold finalise
    split
    · exact h2
    · exact MInv.congr (w := logAll Obs.handlerFinal cfg.handlers
        (callbackAll cfg P .finish (List.range cfg.nNodes) w2)) rfl rfl rfl (hlog _ _ _ (hcb _ _ _ h2))
  cases hf : w.finalized with
  | true => unfold step; simp [hf]; exact h
  | false =>
    rw [step_eq cfg P w hf]
    have h1 : MInv cfg (prep cfg P w) := by
      unfold prep; split
      · exact h
      · unfold initialise
        exact hcb _ _ _ (hlog _ _ _ (h.congr (w := w) rfl rfl rfl))
    generalize prep cfg P w = w1 at h1 hprep
    split
    · exact hfin _ h1
    · split
      · exact h1
      · rename_i e rest hq
        have hs : MInv cfg (execStep cfg P e rest w1) := by
          rw [execStep_eq]
          simp only
          have := execEv_popped_minv cfg hdt P e rest w1 h1 hprep hq
          exact MInv.congr (w := logAll (fun h => Obs.afterStep h (execEv cfg P e (popped e rest w1)).iter e.ts)
            cfg.handlers (execEv cfg P e (popped e rest w1))) rfl rfl rfl (hlog _ _ _ this)
        split
        · exact hfin _ hs
        · exact hs

theorem stepRaised_minv (cfg : Config S) (hdt : 0 < cfg.dt) (P : NodeId → Proto S σ) (w : World S σ)
    (h : MInv cfg w) (hw : WInv w) : MInv cfg (stepRaised cfg P w) := by
  have hcb : ∀ (cb : Callback S) (ns : List NodeId) (w2 : World S σ), MInv cfg w2 →
      MInv cfg (callbackAll cfg P cb ns w2) := by
    intro cb ns w2 h2
    unfold callbackAll
    exact foldl_minv (fun w n => callback cfg P n cb w) _ (fun w n hw => hw.mext (mext_callback cfg P n cb w)) w2 h2
  have hlog : ∀ (f : String → Obs S) (hs : List String) (w2 : World S σ), MInv cfg w2 →
      MInv cfg (logAll f hs w2) := by
    intro f hs w2 h2
    unfold logAll
    exact foldl_minv (fun w h => log (f h) w) _ (fun w s hw => hw.congr (w := w) rfl rfl rfl) w2 h2
  unfold stepRaised
  split
  · exact h
  · have hi : WInv (if w.initialized then w else initialise cfg P w) ∧
        MInv cfg (if w.initialized then w else initialise cfg P w) := by
      split
      · exact ⟨hw, h⟩
      · refine ⟨(initialise_inv cfg P w hw).1, ?_⟩
        unfold initialise
        exact hcb _ _ _ (hlog _ _ _ (h.congr (w := w) rfl rfl rfl))
    generalize (if w.initialized then w else initialise cfg P w) = w1 at hi
    obtain ⟨hw1, h1⟩ := hi
    simp only
    split
    · unfold finalise
      split
      · exact h1
      · exact MInv.congr (w := logAll Obs.handlerFinal cfg.handlers
          (callbackAll cfg P .finish (List.range cfg.nNodes) w1)) rfl rfl rfl (hlog _ _ _ (hcb _ _ _ h1))
    · split
      · exact h1
      · rename_i e rest hq
        exact execEv_popped_minv cfg hdt P e rest w1 h1 hw1 hq

theorem reachableT_minv {cfg : Config S} (hdt : 0 < cfg.dt) {P : NodeId → Proto S σ} {w : World S σ}
    (h : ReachableT cfg P w) : MInv cfg w := by
  have hdt' : 0 ≤ cfg.dt := by omega
  induction h with
  | init => exact init_minv cfg P
  | @step w0 hr ih =>
    have hw := reachableT_inv hdt' hr
    have hprep : WInv (prep cfg P w0) := by
      unfold prep; split
      · exact hw
      · exact (initialise_inv cfg P w0 hw).1
    exact step_minv cfg hdt P w0 ih hprep
  | ext n p _ ih => exact ih.mext (mext_runProg cfg n p _)
  | raised hr ih => exact stepRaised_minv cfg hdt P _ ih (reachableT_inv hdt' hr)

theorem initWith_minv (cfg : Config S) (P : NodeId → Proto S σ) (pre : List (NodeId × Prog S σ)) :
    MInv cfg (initWith cfg P pre) :=
  initWith_induction (C := fun w => MInv cfg w) (init_minv cfg P)
    (fun n p w h => h.mext (mext_runProg cfg n p w)) pre

theorem reachable_minv {cfg : Config S} (hdt : 0 < cfg.dt) {P : NodeId → Proto S σ} {w : World S σ}
    (h : Reachable cfg P w) : MInv cfg w := by
  have hdt' : 0 ≤ cfg.dt := by omega
  refine h.rec_inv (init_minv cfg P) (fun w hr hp => ?_) (fun w n p _ hp => hp.mext (mext_runProg cfg n p w))
  have hw := reachable_inv hdt' hr
  have hprep : WInv (prep cfg P w) := by
    unfold prep; split
    · exact hw
    · exact (initialise_inv cfg P w hw).1
  exact step_minv cfg hdt P w hp hprep

end Sim
