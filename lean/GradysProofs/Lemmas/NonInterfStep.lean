import GradysProofs.Lemmas.NonInterf
/-
  The two unwinding chains of C13, each proved once per function through
  sched → transmit → broadcastTo → execReq → runProg → callback → mobTick → execEv.

  U1 chain (`Hid`):  what a silent node `x` does is invisible to the others.
  U2 chain (`Cong`): what a node `n ≠ x` does (and the mobility tick) acts congruently on two worlds
                     with equal views and equal clocks.
-/
set_option linter.unusedSectionVars false

namespace Sim
variable {S σ : Type} [Scalar S]

theorem upd_ne {α : Type} (f : NodeId → α) (n : NodeId) (a : α) {m : NodeId} (h : m ≠ n) :
    upd f n a m = f m := by
  simp [upd, h]

theorem upd_self {α : Type} (f : NodeId → α) (n : NodeId) (a : α) : upd f n a n = a := by
  simp [upd]

/-! ### U1 chain: invisible actions -/

/-- `w'` results from `w` by actions invisible to the nodes other than `x` (no event popped) -/
structure Hid (x : NodeId) (w w' : World S σ) : Prop where
  view : ViewEq x w w'
  now : w'.loop.now = w.loop.now
  sorted : SortedTs w.loop.queue → SortedTs w'.loop.queue

theorem Hid.refl (x : NodeId) (w : World S σ) : Hid x w w := ⟨ViewEq.refl x w, rfl, id⟩

theorem Hid.trans {x : NodeId} {a b c : World S σ} (h1 : Hid x a b) (h2 : Hid x b c) : Hid x a c :=
  ⟨h1.view.trans h2.view, h2.now.trans h1.now, fun h => h2.sorted (h1.sorted h)⟩

theorem hid_sched (x : NodeId) (ts : Int) (k : EvKind S) (hk : xowned x k = true) (w : World S σ) :
    Hid x w (sched ts k w) :=
  ⟨⟨(qview_insert_owned x _ _ hk).symm, rfl, fun _ _ => rfl, fun _ _ => rfl, fun _ _ => rfl,
    fun _ _ => rfl, fun _ _ => rfl, fun _ _ => rfl, rfl, rfl⟩, rfl, insertEv_sortedTs _ _⟩

theorem hid_log (x : NodeId) (o : Obs S) (ho : Obs.vis x o = false) (w : World S σ) :
    Hid x w (log o w) :=
  ⟨⟨rfl, rfl, fun _ _ => rfl, fun _ _ => rfl, fun _ _ => rfl, fun _ _ => rfl, fun _ _ => rfl,
    fun _ _ => rfl, rfl, by simp [log, ho]⟩, rfl, id⟩

theorem filter_cancel_other (x : NodeId) (name : String) (l : List (NodeId × String × Nat)) :
    (l.filter (fun p => !(p.1 == x && p.2.1 == name))).filter (fun p => p.1 != x) =
      l.filter (fun p => p.1 != x) := by
  rw [List.filter_filter]
  apply List.filter_congr
  intro p _
  by_cases h : p.1 = x <;> simp [h]

/-! #### the frame lemmas: one per node-scoped request by `x` -/

theorem frame_setTimer (cfg : Config S) (x : NodeId) (name : String) (at_ : Int) (w : World S σ) :
    Hid x w (execReq cfg x (.setTimer name at_) w).1 := by
  simp only [execReq]
  split
  · exact Hid.refl x w
  · split
    · exact Hid.refl x w
    · refine Hid.trans (hid_sched x at_ (.timerFire x name (w.nextTimer x)) (by simp [xowned, EvKind.owner]) w) ?_
      refine ⟨⟨rfl, ?_, ?_, fun _ _ => rfl, fun _ _ => rfl, fun _ _ => rfl, fun _ _ => rfl,
        fun _ _ => rfl, rfl, rfl⟩, rfl, id⟩
      · simp
      · intro n hn
        exact (upd_ne _ _ _ hn).symm

theorem frame_cancelTimer (cfg : Config S) (x : NodeId) (name : String) (w : World S σ) :
    Hid x w (execReq cfg x (.cancelTimer name) w).1 := by
  simp only [execReq]
  split
  · exact Hid.refl x w
  · exact ⟨⟨rfl, (filter_cancel_other x name w.pending).symm, fun _ _ => rfl, fun _ _ => rfl,
      fun _ _ => rfl, fun _ _ => rfl, fun _ _ => rfl, fun _ _ => rfl, rfl, rfl⟩, rfl, id⟩

theorem frame_goto (cfg : Config S) (x : NodeId) (p : V3 S) (w : World S σ) :
    Hid x w (execReq cfg x (.goto p) w).1 := by
  simp only [execReq]
  split
  · exact Hid.refl x w
  · exact ⟨⟨rfl, rfl, fun _ _ => rfl, fun _ _ => rfl, fun _ _ => rfl,
      fun n hn => (upd_ne _ _ _ hn).symm, fun _ _ => rfl, fun _ _ => rfl, rfl, rfl⟩, rfl, id⟩

theorem frame_gotoGeo (cfg : Config S) (x : NodeId) (p : V3 S) (w : World S σ) :
    Hid x w (execReq cfg x (.gotoGeo p) w).1 := by
  simp only [execReq]
  split
  · exact Hid.refl x w
  · exact ⟨⟨rfl, rfl, fun _ _ => rfl, fun _ _ => rfl, fun _ _ => rfl,
      fun n hn => (upd_ne _ _ _ hn).symm, fun _ _ => rfl, fun _ _ => rfl, rfl, rfl⟩, rfl, id⟩

theorem frame_setSpeed (cfg : Config S) (x : NodeId) (v : S) (w : World S σ) :
    Hid x w (execReq cfg x (.setSpeed v) w).1 := by
  simp only [execReq]
  split
  · exact Hid.refl x w
  · exact ⟨⟨rfl, rfl, fun _ _ => rfl, fun _ _ => rfl, fun _ _ => rfl, fun _ _ => rfl,
      fun n hn => (upd_ne _ _ _ hn).symm, fun _ _ => rfl, rfl, rfl⟩, rfl, id⟩

theorem frame_setRange (cfg : Config S) (x : NodeId) (r : S) (w : World S σ) :
    Hid x w (execReq cfg x (.setRange r) w).1 := by
  simp only [execReq]
  split
  · exact Hid.refl x w
  · split
    · exact Hid.refl x w
    · exact ⟨⟨rfl, rfl, fun _ _ => rfl, fun n hn => (upd_ne _ _ _ hn).symm, fun _ _ => rfl,
        fun _ _ => rfl, fun _ _ => rfl, fun _ _ => rfl, rfl, rfl⟩, rfl, id⟩

/-- every request other than `send` / `broadcast` issued by `x` is invisible to the others -/
theorem hid_execReq (cfg : Config S) (x : NodeId) (r : Request S) (hr : r.isMsg = false)
    (w : World S σ) : Hid x w (execReq cfg x r w).1 := by
  cases r with
  | setTimer name at_ => exact frame_setTimer cfg x name at_ w
  | cancelTimer name => exact frame_cancelTimer cfg x name w
  | send msg dst => simp [Request.isMsg] at hr
  | broadcast msg => simp [Request.isMsg] at hr
  | goto p => exact frame_goto cfg x p w
  | gotoGeo p => exact frame_gotoGeo cfg x p w
  | setSpeed v => exact frame_setSpeed cfg x v w
  | setRange r => exact frame_setRange cfg x r w

theorem hid_runProg (cfg : Config S) (x : NodeId) (p : Prog S σ) (hp : p.silent) (w : World S σ) :
    Hid x w (runProg cfg x p w).1 := by
  induction p generalizing w with
  | done s => exact Hid.refl x w
  | req r k ih =>
    simp only [runProg]
    obtain ⟨hr, hk⟩ := hp
    exact ((hid_execReq cfg x r hr w).trans (hid_log x _ (by simp [Obs.vis]) _)).trans (ih _ (hk _) _)

/-- U1a: a callback of the silent node `x` is invisible to the others -/
theorem hid_callback (cfg : Config S) (P : NodeId → Proto S σ) (x : NodeId) (hs : Silent x P)
    (cb : Callback S) (w : World S σ) : Hid x w (callback cfg P x cb w) := by
  unfold callback
  simp only
  refine (hid_log x (.callback x cb (reportedTime cfg w)) (by simp [Obs.vis]) w).trans ?_
  refine Hid.trans (hid_runProg cfg x ((P x).react (w.pstate x) x (reportedTime cfg w) cb) (hs _ _ _) _) ?_
  exact ⟨⟨rfl, rfl, fun _ _ => rfl, fun _ _ => rfl, fun _ _ => rfl, fun _ _ => rfl, fun _ _ => rfl,
    fun n hn => (upd_ne _ _ _ hn).symm, rfl, rfl⟩, rfl, id⟩

theorem filter_erase_owned (x : NodeId) (a : NodeId × String × Nat) (ha : a.1 = x)
    (l : List (NodeId × String × Nat)) :
    (l.erase a).filter (fun p => p.1 != x) = l.filter (fun p => p.1 != x) := by
  induction l with
  | nil => rfl
  | cons y ys ih =>
    rw [List.erase_cons]
    split
    · rename_i hy
      have : y = a := by simpa using hy
      subst this
      simp [ha]
    · simp only [List.filter_cons, ih]

/-- executing an event owned by the silent node `x` (the pop apart) is invisible -/
theorem hid_execEv_owned (cfg : Config S) (P : NodeId → Proto S σ) (x : NodeId) (hs : Silent x P)
    (e : Ev (EvKind S)) (he : xowned x e.kind = true) (w : World S σ) :
    Hid x w (execEv cfg P e w) := by
  unfold execEv
  split
  · rename_i n name tid hk
    have hn : n = x := by simpa [xowned, EvKind.owner, hk] using he
    subst hn
    split
    · refine Hid.trans (b := { w with pending := w.pending.erase (n, name, tid) }) ?_
        (hid_callback cfg P n hs _ _)
      exact ⟨⟨rfl, (filter_erase_owned n _ rfl _).symm, fun _ _ => rfl, fun _ _ => rfl,
        fun _ _ => rfl, fun _ _ => rfl, fun _ _ => rfl, fun _ _ => rfl, rfl, rfl⟩, rfl, id⟩
    · exact Hid.refl _ w
  · rename_i dst src msg hk
    have hn : dst = x := by simpa [xowned, EvKind.owner, hk] using he
    subst hn
    exact hid_callback cfg P dst hs _ _
  · rename_i hk
    simp [xowned, EvKind.owner, hk] at he
  · rename_i n p hk
    have hn : n = x := by simpa [xowned, EvKind.owner, hk] using he
    subst hn
    exact hid_callback cfg P n hs _ _

/-- popping an event owned by `x` does not change the view (`now` is not in the view) -/
theorem viewEq_popped_owned (x : NodeId) (e : Ev (EvKind S)) (rest : List (Ev (EvKind S)))
    (w : World S σ) (hq : w.loop.queue = e :: rest) (he : xowned x e.kind = true) :
    ViewEq x w (popped e rest w) :=
  ⟨by rw [hq]; exact qview_cons_owned x e rest he, rfl, fun _ _ => rfl, fun _ _ => rfl,
   fun _ _ => rfl, fun _ _ => rfl, fun _ _ => rfl, fun _ _ => rfl, rfl, rfl⟩

/-- U1: executing an event owned by the silent node `x` is invisible to the others -/
theorem U1 (cfg : Config S) (P : NodeId → Proto S σ) (x : NodeId) (hs : Silent x P)
    (e : Ev (EvKind S)) (rest : List (Ev (EvKind S))) (w : World S σ)
    (hq : w.loop.queue = e :: rest) (he : xowned x e.kind = true) :
    ViewEq x w (execEv cfg P e (popped e rest w)) :=
  (viewEq_popped_owned x e rest w hq he).trans (hid_execEv_owned cfg P x hs e he _).view

/-! ### U2 chain: congruent actions -/

/-- equal views, equal clocks, both queues sorted by time -/
structure Cong (x : NodeId) (w₁ w₂ : World S σ) : Prop where
  view : ViewEq x w₁ w₂
  now : w₁.loop.now = w₂.loop.now
  s₁ : SortedTs w₁.loop.queue
  s₂ : SortedTs w₂.loop.queue

/-- invisible actions on either side keep two worlds congruent -/
theorem Cong.hid {x : NodeId} {w₁ w₂ w₁' w₂' : World S σ} (h : Cong x w₁ w₂) (h₁ : Hid x w₁ w₁')
    (h₂ : Hid x w₂ w₂') : Cong x w₁' w₂' :=
  ⟨(h₁.view.symm.trans h.view).trans h₂.view, by rw [h₁.now, h₂.now, h.now], h₁.sorted h.s₁,
   h₂.sorted h.s₂⟩

/-- the same scheduling request in both worlds (whoever owns the new event) -/
theorem cong_sched {x : NodeId} {w₁ w₂ : World S σ} (h : Cong x w₁ w₂) (ts : Int) (k : EvKind S) :
    Cong x (sched ts k w₁) (sched ts k w₂) :=
  ⟨⟨qview_insert_congr x ts _ _ k h.s₁ h.s₂ h.view.queue, h.view.pending, h.view.nextTimer,
    h.view.range, h.view.pos, h.view.target, h.view.speed, h.view.pstate, h.view.drawIdx,
    h.view.trace⟩, h.now, insertEv_sortedTs _ _ h.s₁, insertEv_sortedTs _ _ h.s₂⟩

theorem cong_log {x : NodeId} {w₁ w₂ : World S σ} (o : Obs S) (h : Cong x w₁ w₂) :
    Cong x (log o w₁) (log o w₂) :=
  ⟨⟨h.view.queue, h.view.pending, h.view.nextTimer, h.view.range, h.view.pos, h.view.target,
    h.view.speed, h.view.pstate, h.view.drawIdx, by
      show (o :: w₁.rtrace).filter _ = (o :: w₂.rtrace).filter _
      simp only [List.filter_cons, h.view.trace]⟩, h.now, h.s₁, h.s₂⟩

/-- the loss draw: same index, hence same decision, same new index -/
theorem cong_consumeDraw (cfg : Config S) {x : NodeId} {w₁ w₂ : World S σ} (h : Cong x w₁ w₂) :
    (consumeDraw cfg w₁).1 = (consumeDraw cfg w₂).1 ∧
      Cong x (consumeDraw cfg w₁).2 (consumeDraw cfg w₂).2 := by
  unfold consumeDraw
  split
  · refine ⟨by simp only [h.view.drawIdx], ?_⟩
    exact ⟨⟨h.view.queue, h.view.pending, h.view.nextTimer, h.view.range, h.view.pos, h.view.target,
      h.view.speed, h.view.pstate, by show w₁.drawIdx + 1 = w₂.drawIdx + 1; rw [h.view.drawIdx],
      h.view.trace⟩, h.now, h.s₁, h.s₂⟩
  · exact ⟨rfl, h⟩

theorem deliverTime_congr (cfg : Config S) {w₁ w₂ : World S σ} (h : w₁.loop.now = w₂.loop.now) :
    deliverTime cfg w₁ = deliverTime cfg w₂ := by
  unfold deliverTime; rw [h]

/-- a copy sent by `src ≠ x`: the same draw is consumed; the copy addressed to `x` may be created in
    one world only (x's position is not in the view) but it is owned by `x`; any other copy is
    created in both or in none -/
theorem cong_transmit (cfg : Config S) {x src : NodeId} (hsrc : src ≠ x) (dst : NodeId) (msg : String)
    {w₁ w₂ : World S σ} (h : Cong x w₁ w₂) :
    Cong x (transmit cfg src dst msg w₁) (transmit cfg src dst msg w₂) := by
  obtain ⟨hd, hc⟩ := cong_consumeDraw cfg h
  unfold transmit
  simp only
  by_cases hdx : dst = x
  · subst hdx
    have key : ∀ (b : Bool) (t : Int) (w : World S σ),
        Hid dst w (if b = true then sched t (.deliver dst src msg) w else w) := by
      intro b t w
      split
      · exact hid_sched dst t _ (by simp [xowned, EvKind.owner]) w
      · exact Hid.refl dst w
    exact hc.hid (key _ _ _) (key _ _ _)
  · have hir : inRange w₁ src dst = inRange w₂ src dst := by
      unfold inRange
      rw [h.view.pos src hsrc, h.view.pos dst hdx, h.view.range src hsrc]
    rw [hd, hir, deliverTime_congr cfg hc.now]
    split
    · exact cong_sched hc _ _
    · exact hc

theorem cong_broadcastTo (cfg : Config S) {x src : NodeId} (hsrc : src ≠ x) (msg : String)
    (dsts : List NodeId) {w₁ w₂ : World S σ} (h : Cong x w₁ w₂) :
    Cong x (broadcastTo cfg src msg dsts w₁) (broadcastTo cfg src msg dsts w₂) := by
  unfold broadcastTo
  induction dsts generalizing w₁ w₂ with
  | nil => exact h
  | cons d ds ih =>
    simp only [List.foldl_cons]
    apply ih
    split
    · exact h
    · exact cong_transmit cfg hsrc d msg h

theorem filter_comm' {α : Type} (p q : α → Bool) (l : List α) :
    (l.filter q).filter p = (l.filter p).filter q := by
  rw [List.filter_filter, List.filter_filter]
  apply List.filter_congr
  intro a _
  exact Bool.and_comm _ _

/-- a request by `n ≠ x`: same outcome, congruent effect -/
theorem cong_execReq (cfg : Config S) {x n : NodeId} (hn : n ≠ x) (r : Request S)
    {w₁ w₂ : World S σ} (h : Cong x w₁ w₂) :
    (execReq cfg n r w₁).2 = (execReq cfg n r w₂).2 ∧
      Cong x (execReq cfg n r w₁).1 (execReq cfg n r w₂).1 := by
  cases r with
  | setTimer name at_ =>
    simp only [execReq]
    by_cases ht : cfg.hasTimer = true
    · by_cases hlt : at_ < w₁.loop.now
      · have hlt2 : at_ < w₂.loop.now := h.now ▸ hlt
        simp only [ht, hlt, hlt2, Bool.not_true, if_true, if_false, Bool.false_eq_true]
        exact ⟨trivial, h⟩
      · have hlt2 : ¬ at_ < w₂.loop.now := h.now ▸ hlt
        simp only [ht, hlt, hlt2, Bool.not_true, if_false, Bool.false_eq_true]
        refine ⟨trivial, ?_⟩
        have hid : w₁.nextTimer n = w₂.nextTimer n := h.view.nextTimer n hn
        rw [hid]
        have hs := cong_sched h at_ (.timerFire n name (w₂.nextTimer n))
        refine ⟨⟨hs.view.queue, ?_, ?_, hs.view.range, hs.view.pos, hs.view.target, hs.view.speed,
          hs.view.pstate, hs.view.drawIdx, hs.view.trace⟩, hs.now, hs.s₁, hs.s₂⟩
        · show ((n, name, w₂.nextTimer n) :: w₁.pending).filter _ = ((n, name, w₂.nextTimer n) :: w₂.pending).filter _
          simp only [List.filter_cons, h.view.pending]
        · intro m hm
          show upd w₁.nextTimer n _ m = upd w₂.nextTimer n _ m
          unfold upd
          split
          · rfl
          · exact h.view.nextTimer m hm
    · simp only [ht, Bool.not_false, if_true]
      exact ⟨trivial, h⟩
  | cancelTimer name =>
    simp only [execReq]
    split
    · exact ⟨rfl, h⟩
    · refine ⟨rfl, ⟨⟨h.view.queue, ?_, h.view.nextTimer, h.view.range, h.view.pos, h.view.target,
        h.view.speed, h.view.pstate, h.view.drawIdx, h.view.trace⟩, h.now, h.s₁, h.s₂⟩⟩
      show (w₁.pending.filter _).filter _ = (w₂.pending.filter _).filter _
      rw [filter_comm', h.view.pending, filter_comm']
  | send msg dst =>
    simp only [execReq]
    split
    · exact ⟨rfl, h⟩
    · cases dst with
      | none => exact ⟨rfl, h⟩
      | some d =>
        simp only
        split
        · exact ⟨rfl, h⟩
        · split
          · exact ⟨rfl, h⟩
          · exact ⟨rfl, cong_transmit cfg hn _ msg h⟩
  | broadcast msg =>
    simp only [execReq]
    split
    · exact ⟨rfl, h⟩
    · exact ⟨rfl, cong_broadcastTo cfg hn msg _ h⟩
  | goto p =>
    simp only [execReq]
    split
    · exact ⟨rfl, h⟩
    · refine ⟨rfl, ⟨⟨h.view.queue, h.view.pending, h.view.nextTimer, h.view.range, h.view.pos, ?_,
        h.view.speed, h.view.pstate, h.view.drawIdx, h.view.trace⟩, h.now, h.s₁, h.s₂⟩⟩
      intro m hm
      show upd w₁.target n _ m = upd w₂.target n _ m
      unfold upd
      split
      · rfl
      · exact h.view.target m hm
  | gotoGeo p =>
    simp only [execReq]
    split
    · exact ⟨rfl, h⟩
    · refine ⟨rfl, ⟨⟨h.view.queue, h.view.pending, h.view.nextTimer, h.view.range, h.view.pos, ?_,
        h.view.speed, h.view.pstate, h.view.drawIdx, h.view.trace⟩, h.now, h.s₁, h.s₂⟩⟩
      intro m hm
      show upd w₁.target n _ m = upd w₂.target n _ m
      unfold upd
      split
      · rfl
      · exact h.view.target m hm
  | setSpeed v =>
    simp only [execReq]
    split
    · exact ⟨rfl, h⟩
    · refine ⟨rfl, ⟨⟨h.view.queue, h.view.pending, h.view.nextTimer, h.view.range, h.view.pos,
        h.view.target, ?_, h.view.pstate, h.view.drawIdx, h.view.trace⟩, h.now, h.s₁, h.s₂⟩⟩
      intro m hm
      show upd w₁.speed n _ m = upd w₂.speed n _ m
      unfold upd
      split
      · rfl
      · exact h.view.speed m hm
  | setRange r =>
    simp only [execReq]
    split
    · exact ⟨rfl, h⟩
    · split
      · exact ⟨rfl, h⟩
      · refine ⟨rfl, ⟨⟨h.view.queue, h.view.pending, h.view.nextTimer, ?_, h.view.pos,
          h.view.target, h.view.speed, h.view.pstate, h.view.drawIdx, h.view.trace⟩, h.now, h.s₁, h.s₂⟩⟩
        intro m hm
        show upd w₁.range n _ m = upd w₂.range n _ m
        unfold upd
        split
        · rfl
        · exact h.view.range m hm

/-- the same program run by `n ≠ x` from congruent worlds: same requests with the same outcomes,
    same final local state, congruent worlds -/
theorem cong_runProg (cfg : Config S) {x n : NodeId} (hn : n ≠ x) (p : Prog S σ)
    {w₁ w₂ : World S σ} (h : Cong x w₁ w₂) :
    (runProg cfg n p w₁).2 = (runProg cfg n p w₂).2 ∧
      Cong x (runProg cfg n p w₁).1 (runProg cfg n p w₂).1 := by
  induction p generalizing w₁ w₂ with
  | done s => exact ⟨rfl, h⟩
  | req r k ih =>
    simp only [runProg]
    obtain ⟨hb, hc⟩ := cong_execReq cfg hn r h
    rw [hb]
    exact ih _ (cong_log _ hc)

theorem callback_eq (cfg : Config S) (P : NodeId → Proto S σ) (n : NodeId) (cb : Callback S)
    (w : World S σ) :
    callback cfg P n cb w =
      { (runProg cfg n ((P n).react (w.pstate n) n (reportedTime cfg w) cb)
          (log (.callback n cb (reportedTime cfg w)) w)).1 with
        pstate := upd (runProg cfg n ((P n).react (w.pstate n) n (reportedTime cfg w) cb)
          (log (.callback n cb (reportedTime cfg w)) w)).1.pstate n
          (runProg cfg n ((P n).react (w.pstate n) n (reportedTime cfg w) cb)
          (log (.callback n cb (reportedTime cfg w)) w)).2 } := rfl

/-- the same callback of the same program of `n ≠ x` from the same local state -/
theorem cong_callback (cfg : Config S) (P₁ P₂ : NodeId → Proto S σ) {x n : NodeId} (hn : n ≠ x)
    (hP : P₁ n = P₂ n) (cb : Callback S) {w₁ w₂ : World S σ} (h : Cong x w₁ w₂) :
    Cong x (callback cfg P₁ n cb w₁) (callback cfg P₂ n cb w₂) := by
  have ht : reportedTime cfg w₁ = reportedTime cfg w₂ := by unfold reportedTime; rw [h.now]
  rw [callback_eq, callback_eq, hP, h.view.pstate n hn, ht]
  obtain ⟨hs, hc⟩ := cong_runProg cfg hn ((P₂ n).react (w₂.pstate n) n (reportedTime cfg w₂) cb)
    (cong_log (.callback n cb (reportedTime cfg w₂)) h)
  refine ⟨⟨hc.view.queue, hc.view.pending, hc.view.nextTimer, hc.view.range, hc.view.pos,
    hc.view.target, hc.view.speed, ?_, hc.view.drawIdx, hc.view.trace⟩, hc.now, hc.s₁, hc.s₂⟩
  intro m hm
  show upd _ n _ m = upd _ n _ m
  unfold upd
  split
  · exact hs
  · exact hc.view.pstate m hm

/-- any node's callback, the programs agreeing off the silent node `x` -/
theorem cong_callback_any (cfg : Config S) (P₁ P₂ : NodeId → Proto S σ) {x : NodeId}
    (hs₁ : Silent x P₁) (hs₂ : Silent x P₂) (hP : ∀ n, n ≠ x → P₁ n = P₂ n) (n : NodeId)
    (cb₁ cb₂ : Callback S) (hcb : n ≠ x → cb₁ = cb₂) {w₁ w₂ : World S σ} (h : Cong x w₁ w₂) :
    Cong x (callback cfg P₁ n cb₁ w₁) (callback cfg P₂ n cb₂ w₂) := by
  by_cases hn : n = x
  · subst hn
    exact h.hid (hid_callback cfg P₁ n hs₁ cb₁ w₁) (hid_callback cfg P₂ n hs₂ cb₂ w₂)
  · rw [hcb hn]
    exact cong_callback cfg P₁ P₂ hn (hP n hn) cb₂ h

theorem cong_callbackAll (cfg : Config S) (P₁ P₂ : NodeId → Proto S σ) {x : NodeId}
    (hs₁ : Silent x P₁) (hs₂ : Silent x P₂) (hP : ∀ n, n ≠ x → P₁ n = P₂ n) (cb : Callback S)
    (ns : List NodeId) {w₁ w₂ : World S σ} (h : Cong x w₁ w₂) :
    Cong x (callbackAll cfg P₁ cb ns w₁) (callbackAll cfg P₂ cb ns w₂) := by
  unfold callbackAll
  induction ns generalizing w₁ w₂ with
  | nil => exact h
  | cons n ns ih =>
    simp only [List.foldl_cons]
    exact ih (cong_callback_any cfg P₁ P₂ hs₁ hs₂ hP n cb cb (fun _ => rfl) h)

/-- the per-node part of the mobility update -/
def tickNode (cfg : Config S) (w : World S σ) (n : NodeId) : World S σ :=
  sched w.loop.now (.telemetry n (Mobility.step cfg.dtS (w.pos n) (w.target n) (w.speed n)))
    { w with pos := upd w.pos n (Mobility.step cfg.dtS (w.pos n) (w.target n) (w.speed n)) }

theorem mobTick_eq (cfg : Config S) (w : World S σ) :
    mobTick cfg w =
      sched (((List.range cfg.nNodes).foldl (tickNode cfg) w).loop.now + cfg.dt) .mobTick
        ((List.range cfg.nNodes).foldl (tickNode cfg) w) := rfl

theorem hid_tickNode (cfg : Config S) (x : NodeId) (w : World S σ) : Hid x w (tickNode cfg w x) := by
  unfold tickNode
  refine Hid.trans (b := { w with pos := upd w.pos x (Mobility.step cfg.dtS (w.pos x) (w.target x) (w.speed x)) }) ?_
    (hid_sched x _ _ (by simp [xowned, EvKind.owner]) _)
  exact ⟨⟨rfl, rfl, fun _ _ => rfl, fun _ _ => rfl, fun n hn => (upd_ne _ _ _ hn).symm,
    fun _ _ => rfl, fun _ _ => rfl, fun _ _ => rfl, rfl, rfl⟩, rfl, id⟩

theorem cong_tickNode (cfg : Config S) {x : NodeId} (n : NodeId) {w₁ w₂ : World S σ}
    (h : Cong x w₁ w₂) : Cong x (tickNode cfg w₁ n) (tickNode cfg w₂ n) := by
  by_cases hn : n = x
  · subst hn
    exact h.hid (hid_tickNode cfg n w₁) (hid_tickNode cfg n w₂)
  · unfold tickNode
    rw [h.view.pos n hn, h.view.target n hn, h.view.speed n hn, h.now]
    apply cong_sched
    refine ⟨⟨h.view.queue, h.view.pending, h.view.nextTimer, h.view.range, ?_, h.view.target,
      h.view.speed, h.view.pstate, h.view.drawIdx, h.view.trace⟩, h.now, h.s₁, h.s₂⟩
    intro m hm
    show upd w₁.pos n _ m = upd w₂.pos n _ m
    unfold upd
    split
    · rfl
    · exact h.view.pos m hm

/-- the mobility update: every node `≠ x` moves identically and gets the same telemetry event,
    `x`'s telemetry is owned by `x`, the next tick is the same -/
theorem cong_mobTick (cfg : Config S) {x : NodeId} {w₁ w₂ : World S σ} (h : Cong x w₁ w₂) :
    Cong x (mobTick cfg w₁) (mobTick cfg w₂) := by
  rw [mobTick_eq, mobTick_eq]
  have hf : ∀ (ns : List NodeId) {a b : World S σ}, Cong x a b →
      Cong x (ns.foldl (tickNode cfg) a) (ns.foldl (tickNode cfg) b) := by
    intro ns
    induction ns with
    | nil => intro a b hab; exact hab
    | cons n ns ih => intro a b hab; exact ih (cong_tickNode cfg n hab)
  have hc := hf (List.range cfg.nNodes) h
  rw [hc.now]
  exact cong_sched hc _ _

theorem contains_filter_of_pos {α : Type} [BEq α] [LawfulBEq α] (p : α → Bool) (a : α) (hp : p a = true)
    (l : List α) : (l.filter p).contains a = l.contains a := by
  rw [List.contains_eq_mem, List.contains_eq_mem]
  simp [List.mem_filter, hp]

/-- U2 (step consistency): an event not owned by `x`, executed in two worlds with equal views and
    equal clocks by programs that agree off `x`, leaves the views equal -/
theorem cong_execEv (cfg : Config S) (P₁ P₂ : NodeId → Proto S σ) {x : NodeId}
    (hP : ∀ n, n ≠ x → P₁ n = P₂ n) (e₁ e₂ : Ev (EvKind S)) (hk : e₁.kind = e₂.kind)
    (he : xowned x e₁.kind = false) {w₁ w₂ : World S σ} (h : Cong x w₁ w₂) :
    Cong x (execEv cfg P₁ e₁ w₁) (execEv cfg P₂ e₂ w₂) := by
  unfold execEv
  rw [← hk]
  cases hk1 : e₁.kind with
  | timerFire n name tid =>
    have hn : n ≠ x := by simpa [xowned, EvKind.owner, hk1] using he
    simp only
    have hc : w₁.pending.contains (n, name, tid) = w₂.pending.contains (n, name, tid) := by
      rw [← contains_filter_of_pos (fun p => p.1 != x) (n, name, tid) (by simpa using hn) w₁.pending,
        ← contains_filter_of_pos (fun p => p.1 != x) (n, name, tid) (by simpa using hn) w₂.pending,
        h.view.pending]
    rw [hc]
    split
    · apply cong_callback cfg P₁ P₂ hn (hP n hn)
      refine ⟨⟨h.view.queue, ?_, h.view.nextTimer, h.view.range, h.view.pos, h.view.target,
        h.view.speed, h.view.pstate, h.view.drawIdx, h.view.trace⟩, h.now, h.s₁, h.s₂⟩
      show (w₁.pending.erase _).filter _ = (w₂.pending.erase _).filter _
      rw [← List.erase_filter, ← List.erase_filter, h.view.pending]
    · exact h
  | deliver dst src msg =>
    have hn : dst ≠ x := by simpa [xowned, EvKind.owner, hk1] using he
    exact cong_callback cfg P₁ P₂ hn (hP dst hn) _ h
  | mobTick => exact cong_mobTick cfg h
  | telemetry n p =>
    have hn : n ≠ x := by simpa [xowned, EvKind.owner, hk1] using he
    exact cong_callback cfg P₁ P₂ hn (hP n hn) _ h

/-- U2 in the literal form: the same event -/
theorem U2 (cfg : Config S) (P₁ P₂ : NodeId → Proto S σ) (x : NodeId)
    (hP : ∀ n, n ≠ x → P₁ n = P₂ n) (e : Ev (EvKind S)) (he : xowned x e.kind = false)
    (w₁ w₂ : World S σ) (hv : ViewEq x w₁ w₂) (hnow : w₁.loop.now = w₂.loop.now)
    (hs₁ : SortedTs w₁.loop.queue) (hs₂ : SortedTs w₂.loop.queue) :
    ViewEq x (execEv cfg P₁ e w₁) (execEv cfg P₂ e w₂) :=
  (cong_execEv cfg P₁ P₂ hP e e rfl he ⟨hv, hnow, hs₁, hs₂⟩).view

/-! ### protocol state is written only by the node's own callback -/

theorem consumeDraw_pstate (cfg : Config S) (w : World S σ) : (consumeDraw cfg w).2.pstate = w.pstate := by
  unfold consumeDraw; split <;> rfl

theorem transmit_pstate (cfg : Config S) (src dst : NodeId) (msg : String) (w : World S σ) :
    (transmit cfg src dst msg w).pstate = w.pstate := by
  unfold transmit
  simp only
  split
  · exact consumeDraw_pstate cfg w
  · exact consumeDraw_pstate cfg w

theorem broadcastTo_pstate (cfg : Config S) (src : NodeId) (msg : String) (dsts : List NodeId)
    (w : World S σ) : (broadcastTo cfg src msg dsts w).pstate = w.pstate := by
  unfold broadcastTo
  apply foldl_frame (·.pstate)
  intro w d
  split
  · rfl
  · exact transmit_pstate _ _ _ _ _

theorem execReq_pstate (cfg : Config S) (n : NodeId) (r : Request S) (w : World S σ) :
    (execReq cfg n r w).1.pstate = w.pstate := by
  cases r with
  | setTimer name at_ =>
    simp only [execReq]
    split
    · rfl
    · split <;> rfl
  | cancelTimer name => simp only [execReq]; split <;> rfl
  | send msg dst =>
    simp only [execReq]
    split
    · rfl
    · split
      · rfl
      · split
        · rfl
        · split
          · rfl
          · exact transmit_pstate _ _ _ _ _
  | broadcast msg =>
    simp only [execReq]
    split
    · rfl
    · exact broadcastTo_pstate _ _ _ _ _
  | goto p => simp only [execReq]; split <;> rfl
  | gotoGeo p => simp only [execReq]; split <;> rfl
  | setSpeed v => simp only [execReq]; split <;> rfl
  | setRange r =>
    simp only [execReq]
    split
    · rfl
    · split <;> rfl

theorem runProg_pstate (cfg : Config S) (n : NodeId) (p : Prog S σ) (w : World S σ) :
    (runProg cfg n p w).1.pstate = w.pstate := by
  induction p generalizing w with
  | done s => rfl
  | req r k ih => simp only [runProg]; rw [ih]; exact execReq_pstate cfg n r w

/-- a callback of node `n` writes the protocol state of `n` only -/
theorem callback_pstate_other (cfg : Config S) (P : NodeId → Proto S σ) (n : NodeId) (cb : Callback S)
    (w : World S σ) {m : NodeId} (hm : m ≠ n) : (callback cfg P n cb w).pstate m = w.pstate m := by
  rw [callback_eq]
  show upd _ n _ m = _
  rw [upd_ne _ _ _ hm, runProg_pstate]
  rfl

end Sim
