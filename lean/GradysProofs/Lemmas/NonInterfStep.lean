import GradysProofs.Lemmas.NonInterf
/-
  The two unwinding chains of C13, each proved once per function through
  sched → transmit → broadcastTo → execReq → runProg → callback → mobTick → execEv.

  U1 chain (`Hid`):  what a silent node `x` does is invisible to the others.
  U2 chain (`Cong`): what a node `n ≠ x` does (and the mobility tick) acts congruently on two worlds
                     with equal views and equal clocks.
-/
set_option linter.unusedSectionVars false

namespace Sim
variable {S σ : Type} [Scalar S]

theorem upd_ne {α : Type} (f : NodeId → α) (n : NodeId) (a : α) {m : NodeId} (h : m ≠ n) :
    upd f n a m = f m := by
  simp [upd, h]

theorem upd_self {α : Type} (f : NodeId → α) (n : NodeId) (a : α) : upd f n a n = a := by
  simp [upd]

/-! ### U1 chain: invisible actions -/

/-- `w'` results from `w` by actions invisible to the nodes other than `x` (no event popped) -/
structure Hid (x : NodeId) (w w' : World S σ) : Prop where
  view : ViewEq x w w'
  now : w'.loop.now = w.loop.now
  sorted : SortedTs w.loop.queue → SortedTs w'.loop.queue

theorem Hid.refl (x : NodeId) (w : World S σ) : Hid x w w := ⟨ViewEq.refl x w, rfl, id⟩

theorem Hid.trans {x : NodeId} {a b c : World S σ} (h1 : Hid x a b) (h2 : Hid x b c) : Hid x a c :=
  ⟨h1.view.trans h2.view, h2.now.trans h1.now, fun h => h2.sorted (h1.sorted h)⟩

theorem hid_sched (x : NodeId) (ts : Int) (k : EvKind S) (hk : xowned x k = true) (w : World S σ) :
    Hid x w (sched ts k w) :=
  ⟨⟨(qview_insert_owned x _ _ hk).symm, rfl, fun _ _ => rfl, fun _ _ => rfl, fun _ _ => rfl,
    fun _ _ => rfl, fun _ _ => rfl, fun _ _ => rfl, rfl, rfl⟩, rfl, insertEv_sortedTs _ _⟩

theorem hid_log (x : NodeId) (o : Obs S) (ho : Obs.vis x o = false) (w : World S σ) :
    Hid x w (log o w) :=
  ⟨⟨rfl, rfl, fun _ _ => rfl, fun _ _ => rfl, fun _ _ => rfl, fun _ _ => rfl, fun _ _ => rfl,
    fun _ _ => rfl, rfl, by simp [log, ho]⟩, rfl, id⟩

theorem filter_cancel_other (x : NodeId) (name : String) (l : List (NodeId × String × Nat)) :
    (l.filter (fun p => !(p.1 == x && p.2.1 == name))).filter (fun p => p.1 != x) =
      l.filter (fun p => p.1 != x) := by
  rw [List.filter_filter]
  apply List.filter_congr
  intro p _
  by_cases h : p.1 = x <;> simp [h]

/-! #### the frame lemmas: one per node-scoped request by `x` -/

theorem frame_setTimer (cfg : Config S) (x : NodeId) (name : String) (at_ : Int) (w : World S σ) :
    Hid x w (execReq cfg x (.setTimer name at_) w).1 := by
  simp only [execReq]
  split
  · exact Hid.refl x w
  · split
    · exact Hid.refl x w
    · refine Hid.trans (hid_sched x at_ (.timerFire x name (w.nextTimer x)) (by simp [xowned, EvKind.owner]) w) ?_
      refine ⟨⟨rfl, ?_, ?_, fun _ _ => rfl, fun _ _ => rfl, fun _ _ => rfl, fun _ _ => rfl,
        fun _ _ => rfl, rfl, rfl⟩, rfl, id⟩
      · simp
      · intro n hn
        exact (upd_ne _ _ _ hn).symm

theorem frame_cancelTimer (cfg : Config S) (x : NodeId) (name : String) (w : World S σ) :
    Hid x w (execReq cfg x (.cancelTimer name) w).1 := by
  simp only [execReq]
  split
  · exact Hid.refl x w
  · exact ⟨⟨rfl, (filter_cancel_other x name w.pending).symm, fun _ _ => rfl, fun _ _ => rfl,
      fun _ _ => rfl, fun _ _ => rfl, fun _ _ => rfl, fun _ _ => rfl, rfl, rfl⟩, rfl, id⟩

theorem frame_goto (cfg : Config S) (x : NodeId) (p : V3 S) (w : World S σ) :
    Hid x w (execReq cfg x (.goto p) w).1 := by
  simp only [execReq]
  split
  · exact Hid.refl x w
  · exact ⟨⟨rfl, rfl, fun _ _ => rfl, fun _ _ => rfl, fun _ _ => rfl,
      fun n hn => (upd_ne _ _ _ hn).symm, fun _ _ => rfl, fun _ _ => rfl, rfl, rfl⟩, rfl, id⟩

theorem frame_gotoGeo (cfg : Config S) (x : NodeId) (p : V3 S) (w : World S σ) :
    Hid x w (execReq cfg x (.gotoGeo p) w).1 := by
  simp only [execReq]
  split
  · exact Hid.refl x w
  · exact ⟨⟨rfl, rfl, fun _ _ => rfl, fun _ _ => rfl, fun _ _ => rfl,
      fun n hn => (upd_ne _ _ _ hn).symm, fun _ _ => rfl, fun _ _ => rfl, rfl, rfl⟩, rfl, id⟩

theorem frame_setSpeed (cfg : Config S) (x : NodeId) (v : S) (w : World S σ) :
    Hid x w (execReq cfg x (.setSpeed v) w).1 := by
  simp only [execReq]
  split
  · exact Hid.refl x w
  · exact ⟨⟨rfl, rfl, fun _ _ => rfl, fun _ _ => rfl, fun _ _ => rfl, fun _ _ => rfl,
      fun n hn => (upd_ne _ _ _ hn).symm, fun _ _ => rfl, rfl, rfl⟩, rfl, id⟩

theorem frame_setRange (cfg : Config S) (x : NodeId) (r : S) (w : World S σ) :
    Hid x w (execReq cfg x (.setRange r) w).1 := by
  simp only [execReq]
  split
  · exact Hid.refl x w
  · split
    · exact Hid.refl x w
    · exact ⟨⟨rfl, rfl, fun _ _ => rfl, fun n hn => (upd_ne _ _ _ hn).symm, fun _ _ => rfl,
        fun _ _ => rfl, fun _ _ => rfl, fun _ _ => rfl, rfl, rfl⟩, rfl, id⟩

/-- every request other than `send` / `broadcast` issued by `x` is invisible to the others -/
theorem hid_execReq (cfg : Config S) (x : NodeId) (r : Request S) (hr : r.isMsg = false)
    (w : World S σ) : Hid x w (execReq cfg x r w).1 := by
  cases r with
  | setTimer name at_ => exact frame_setTimer cfg x name at_ w
  | cancelTimer name => exact frame_cancelTimer cfg x name w
  | send msg dst => simp [Request.isMsg] at hr
  | broadcast msg => simp [Request.isMsg] at hr
  | goto p => exact frame_goto cfg x p w
  | gotoGeo p => exact frame_gotoGeo cfg x p w
  | setSpeed v => exact frame_setSpeed cfg x v w
  | setRange r => exact frame_setRange cfg x r w

theorem hid_runProg (cfg : Config S) (x : NodeId) (p : Prog S σ) (hp : p.silent) (w : World S σ) :
    Hid x w (runProg cfg x p w).1 := by
  induction p generalizing w with
  | done s => exact Hid.refl x w
  | req r k ih =>
    simp only [runProg]
    obtain ⟨hr, hk⟩ := hp
    exact ((hid_execReq cfg x r hr w).trans (hid_log x _ (by simp [Obs.vis]) _)).trans (ih _ (hk _) _)

/-- U1a: a callback of the silent node `x` is invisible to the others -/
theorem hid_callback (cfg : Config S) (P : NodeId → Proto S σ) (x : NodeId) (hs : Silent x P)
    (cb : Callback S) (w : World S σ) : Hid x w (callback cfg P x cb w) := by
  unfold callback
  simp only
  refine (hid_log x (.callback x cb (reportedTime cfg w)) (by simp [Obs.vis]) w).trans ?_
  refine Hid.trans (hid_runProg cfg x ((P x).react (w.pstate x) x (reportedTime cfg w) cb) (hs _ _ _) _) ?_
  exact ⟨⟨rfl, rfl, fun _ _ => rfl, fun _ _ => rfl, fun _ _ => rfl, fun _ _ => rfl, fun _ _ => rfl,
    fun n hn => (upd_ne _ _ _ hn).symm, rfl, rfl⟩, rfl, id⟩

theorem filter_erase_owned (x : NodeId) (a : NodeId × String × Nat) (ha : a.1 = x)
    (l : List (NodeId × String × Nat)) :
    (l.erase a).filter (fun p => p.1 != x) = l.filter (fun p => p.1 != x) := by
  induction l with
  | nil => rfl
  | cons y ys ih =>
    rw [List.erase_cons]
    split
    · rename_i hy
      have : y = a := by simpa using hy
      subst this
      simp [ha]
    · simp only [List.filter_cons, ih]

/-- executing an event owned by the silent node `x` (the pop apart) is invisible -/
theorem hid_execEv_owned (cfg : Config S) (P : NodeId → Proto S σ) (x : NodeId) (hs : Silent x P)
    (e : Ev (EvKind S)) (he : xowned x e.kind = true) (w : World S σ) :
    Hid x w (execEv cfg P e w) := by
  unfold execEv
  split
  · rename_i n name tid hk
    have hn : n = x := by simpa [xowned, EvKind.owner, hk] using he
    subst hn
    split
    · refine Hid.trans (b := { w with pending := w.pending.erase (n, name, tid) }) ?_
        (hid_callback cfg P n hs _ _)
      exact ⟨⟨rfl, (filter_erase_owned n _ rfl _).symm, fun _ _ => rfl, fun _ _ => rfl,
        fun _ _ => rfl, fun _ _ => rfl, fun _ _ => rfl, fun _ _ => rfl, rfl, rfl⟩, rfl, id⟩
    · exact Hid.refl _ w
  · rename_i dst src msg hk
    have hn : dst = x := by simpa [xowned, EvKind.owner, hk] using he
    subst hn
    exact hid_callback cfg P dst hs _ _
  · rename_i hk
    simp [xowned, EvKind.owner, hk] at he
  · rename_i n p hk
    have hn : n = x := by simpa [xowned, EvKind.owner, hk] using he
    subst hn
    exact hid_callback cfg P n hs _ _

/-- popping an event owned by `x` does not change the view (`now` is not in the view) -/
theorem viewEq_popped_owned (x : NodeId) (e : Ev (EvKind S)) (rest : List (Ev (EvKind S)))
    (w : World S σ) (hq : w.loop.queue = e :: rest) (he : xowned x e.kind = true) :
    ViewEq x w (popped e rest w) :=
  ⟨by rw [hq]; exact qview_cons_owned x e rest he, rfl, fun _ _ => rfl, fun _ _ => rfl,
   fun _ _ => rfl, fun _ _ => rfl, fun _ _ => rfl, fun _ _ => rfl, rfl, rfl⟩

/-- U1: executing an event owned by the silent node `x` is invisible to the others -/
theorem U1 (cfg : Config S) (P : NodeId → Proto S σ) (x : NodeId) (hs : Silent x P)
    (e : Ev (EvKind S)) (rest : List (Ev (EvKind S))) (w : World S σ)
    (hq : w.loop.queue = e :: rest) (he : xowned x e.kind = true) :
    ViewEq x w (execEv cfg P e (popped e rest w)) :=
  (viewEq_popped_owned x e rest w hq he).trans (hid_execEv_owned cfg P x hs e he _).view

end Sim
