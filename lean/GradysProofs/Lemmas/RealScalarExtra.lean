import GradysProofs.RealScalar
/-
  Additional general lemmas about the shared `Scalar ℝ` instance (kept out of RealScalar.lean):
  the derived Python `max` / `min` are the real `max` / `min`, `atan2R` on the closed first quadrant.
-/
open Real

namespace RealScalar

/-- Python `max(a, b)` at ℝ -/
@[simp] theorem max_eq (a b : ℝ) : Scalar.max a b = max a b := by
  unfold Scalar.max
  by_cases h : a < b
  · rw [if_pos ((lt_eq a b).mpr h), max_eq_right h.le]
  · rw [if_neg (fun hh => h ((lt_eq a b).mp hh)), max_eq_left (not_lt.mp h)]

/-- Python `min(a, b)` at ℝ -/
@[simp] theorem min_eq (a b : ℝ) : Scalar.min a b = min a b := by
  unfold Scalar.min
  by_cases h : b < a
  · rw [if_pos ((lt_eq b a).mpr h), min_eq_right h.le]
  · rw [if_neg (fun hh => h ((lt_eq b a).mp hh)), min_eq_left (not_lt.mp h)]

@[simp] theorem ge_eq_false (a b : ℝ) : (Scalar.ge a b = false) ↔ a < b := by
  rw [← Bool.not_eq_true, ge_eq, not_le]

@[simp] theorem gt_eq_false (a b : ℝ) : (Scalar.gt a b = false) ↔ a ≤ b := by
  rw [← Bool.not_eq_true, gt_eq, not_lt]

/-- `Real.arccos` already saturates outside [-1, 1], so the clamp is invisible over ℝ -/
theorem arccos_clamp (x : ℝ) : arccos (max (-1) (min 1 x)) = arccos x := by
  rcases le_total x (-1) with h | h
  · rw [min_eq_right (by linarith), max_eq_left h, arccos_of_le_neg_one h, arccos_neg_one]
  · rcases le_total x 1 with h1 | h1
    · rw [min_eq_right h1, max_eq_right h]
    · rw [min_eq_left h1, max_eq_right (by norm_num), arccos_one, arccos_eq_zero.mpr h1]

theorem clamp_mem (x : ℝ) : -1 ≤ max (-1) (min 1 x) ∧ max (-1) (min 1 x) ≤ 1 :=
  ⟨le_max_left _ _, max_le (by norm_num) (min_le_left _ _)⟩

end RealScalar
