import GradysProofs.Lemmas.SimStep
/-
  The bounded run against the unbounded run of the same scenario (for C04's "precisely the events …").
-/
set_option linter.unusedSectionVars false

namespace Sim
variable {S σ : Type} [Scalar S]

/-- the same configuration without duration and iteration limit -/
def unbounded (cfg : Config S) : Config S := { cfg with duration := none, maxIter := none }

theorem execReq_unbounded (cfg : Config S) (n : NodeId) (r : Request S) (w : World S σ) :
    execReq (unbounded cfg) n r w = execReq cfg n r w := by
  cases r <;> rfl

theorem runProg_unbounded (cfg : Config S) (n : NodeId) (p : Prog S σ) (w : World S σ) :
    runProg (unbounded cfg) n p w = runProg cfg n p w := by
  induction p generalizing w with
  | done s => rfl
  | req r k ih =>
    simp only [runProg]
    rw [execReq_unbounded, ih]

theorem callback_unbounded (cfg : Config S) (P : NodeId → Proto S σ) (n : NodeId) (cb : Callback S)
    (w : World S σ) : callback (unbounded cfg) P n cb w = callback cfg P n cb w := by
  unfold callback
  simp only
  rw [runProg_unbounded]
  rfl

theorem callbackAll_unbounded (cfg : Config S) (P : NodeId → Proto S σ) (cb : Callback S)
    (ns : List NodeId) (w : World S σ) :
    callbackAll (unbounded cfg) P cb ns w = callbackAll cfg P cb ns w := by
  unfold callbackAll
  induction ns generalizing w with
  | nil => rfl
  | cons n ns ih => simp only [List.foldl_cons]; rw [callback_unbounded, ih]

theorem initialise_unbounded (cfg : Config S) (P : NodeId → Proto S σ) (w : World S σ) :
    initialise (unbounded cfg) P w = initialise cfg P w := by
  unfold initialise
  simp only
  rw [callbackAll_unbounded]
  rfl

theorem prep_unbounded (cfg : Config S) (P : NodeId → Proto S σ) (w : World S σ) :
    prep (unbounded cfg) P w = prep cfg P w := by
  unfold prep; rw [initialise_unbounded]

theorem execEv_unbounded (cfg : Config S) (P : NodeId → Proto S σ) (e : Ev (EvKind S)) (w : World S σ) :
    execEv (unbounded cfg) P e w = execEv cfg P e w := by
  unfold execEv
  split
  · rw [callback_unbounded]
  · rw [callback_unbounded]
  · rfl
  · rw [callback_unbounded]

theorem execStep_unbounded (cfg : Config S) (P : NodeId → Proto S σ) (e : Ev (EvKind S))
    (rest : List (Ev (EvKind S))) (w : World S σ) :
    execStep (unbounded cfg) P e rest w = execStep cfg P e rest w := by
  unfold execStep
  simp only
  rw [execEv_unbounded]
  rfl

theorem init_unbounded (cfg : Config S) (P : NodeId → Proto S σ) : init (unbounded cfg) P = init cfg P := rfl

theorem isDone_unbounded_iff (cfg : Config S) (w : World S σ) :
    isDone (unbounded cfg) w = true ↔ w.loop.queue = [] := by
  unfold isDone unbounded
  cases w.loop.queue <;> simp

theorem isDone_of_unbounded (cfg : Config S) (w : World S σ) (h : isDone (unbounded cfg) w = true) :
    isDone cfg w = true := isDone_nil ((isDone_unbounded_iff cfg w).mp h)

theorem finalise_rexecuted (cfg : Config S) (P : NodeId → Proto S σ) (w : World S σ) :
    (finalise cfg P w).rexecuted = w.rexecuted := by
  unfold finalise
  split
  · rfl
  · exact ((ext_callbackAll cfg P .finish (List.range cfg.nNodes) w).trans
      (ext_logAll cfg Obs.handlerFinal (by intro h n cb t e; cases e) cfg.handlers _)).exec_eq

theorem finalise_finalized (cfg : Config S) (P : NodeId → Proto S σ) (w : World S σ) :
    (finalise cfg P w).finalized = true := by
  unfold finalise
  split
  · rename_i h; exact h
  · rfl

theorem prep_rexecuted (cfg : Config S) (P : NodeId → Proto S σ) (w : World S σ) :
    (prep cfg P w).rexecuted = w.rexecuted := by
  unfold prep
  split
  · rfl
  · unfold initialise
    exact ((ext_logAll cfg Obs.handlerInit (by intro h n cb t e; cases e) cfg.handlers
      { w with initialized := true }).trans
      (ext_callbackAll cfg P .initialize (List.range cfg.nNodes) _)).exec_eq

theorem prep_finalized (cfg : Config S) (P : NodeId → Proto S σ) (w : World S σ) :
    (prep cfg P w).finalized = w.finalized := by
  unfold prep
  split
  · rfl
  · unfold initialise
    exact ((ext_logAll cfg Obs.handlerInit (by intro h n cb t e; cases e) cfg.handlers
      { w with initialized := true }).trans
      (ext_callbackAll cfg P .initialize (List.range cfg.nNodes) _)).fin_eq

theorem execStep_rexecuted (cfg : Config S) (hdt : 0 ≤ cfg.dt) (P : NodeId → Proto S σ)
    (e : Ev (EvKind S)) (rest : List (Ev (EvKind S))) (w : World S σ) :
    (execStep cfg P e rest w).rexecuted = e :: w.rexecuted ∧
    (execStep cfg P e rest w).finalized = w.finalized := by
  rw [execStep_eq]
  simp only
  have e1 := (ext_execEv cfg hdt P e (popped e rest w)).trans
    (ext_logAll cfg (fun h => Obs.afterStep h (execEv cfg P e (popped e rest w)).iter e.ts)
      (by intro h n cb t e; cases e) cfg.handlers _)
  exact ⟨e1.exec_eq, e1.fin_eq⟩

/-- a step only ever extends the executed list -/
theorem step_rexecuted_ext (cfg : Config S) (hdt : 0 ≤ cfg.dt) (P : NodeId → Proto S σ) (w : World S σ) :
    ∃ l, (step cfg P w).1.rexecuted = l ++ w.rexecuted := by
  cases hf : w.finalized with
  | true => exact ⟨[], by unfold step; simp [hf]⟩
  | false =>
    rw [step_eq cfg P w hf]
    have hp := prep_rexecuted cfg P w
    generalize prep cfg P w = w1 at hp
    split
    · exact ⟨[], by rw [finalise_rexecuted, hp]; rfl⟩
    · split
      · exact ⟨[], by rw [hp]; rfl⟩
      · rename_i e rest _
        have hs := (execStep_rexecuted cfg hdt P e rest w1).1
        split
        · exact ⟨[e], by rw [finalise_rexecuted, hs, hp]; rfl⟩
        · exact ⟨[e], by rw [hs, hp]; rfl⟩

/-- lock-step invariant of the bounded run `wb` and the unbounded run `wu` -/
def Lock (wb wu : World S σ) : Prop :=
  (wb.finalized = false ∧ wb = wu) ∨ (wb.finalized = true ∧ ∃ l, wu.rexecuted = l ++ wb.rexecuted)

theorem lock_step (cfg : Config S) (hdt : 0 ≤ cfg.dt) (P : NodeId → Proto S σ) (wb wu : World S σ)
    (h : Lock wb wu) : Lock (step cfg P wb).1 (step (unbounded cfg) P wu).1 := by
  have hdtu : 0 ≤ (unbounded cfg).dt := hdt
  rcases h with ⟨hf, rfl⟩ | ⟨hf, l, hl⟩
  · -- both runs are in the same live world
    rw [step_eq cfg P wb hf, step_eq (unbounded cfg) P wb hf, prep_unbounded]
    have hpf : (prep cfg P wb).finalized = false := by rw [prep_finalized]; exact hf
    generalize prep cfg P wb = w1 at hpf
    by_cases hd : isDone cfg w1 = true
    · rw [if_pos hd]
      right
      refine ⟨finalise_finalized cfg P w1, ?_⟩
      rw [finalise_rexecuted]
      -- whatever the unbounded run does from w1, it only extends the executed list
      by_cases hdu : isDone (unbounded cfg) w1 = true
      · rw [if_pos hdu]; exact ⟨[], by rw [finalise_rexecuted]; rfl⟩
      · rw [if_neg hdu]
        split
        · exact ⟨[], rfl⟩
        · rename_i e rest _
          have hs := (execStep_rexecuted (unbounded cfg) hdtu P e rest w1).1
          split
          · exact ⟨[e], by rw [finalise_rexecuted, hs]; rfl⟩
          · exact ⟨[e], by rw [hs]; rfl⟩
    · rw [if_neg hd]
      have hdu : ¬ isDone (unbounded cfg) w1 = true := fun h => hd (isDone_of_unbounded cfg w1 h)
      rw [if_neg hdu]
      split
      · left; exact ⟨hpf, rfl⟩
      · rename_i e rest _
        rw [execStep_unbounded]
        have hs := execStep_rexecuted cfg hdt P e rest w1
        generalize execStep cfg P e rest w1 = w2 at hs
        by_cases hd2 : isDone cfg w2 = true
        · rw [if_pos hd2]
          right
          refine ⟨finalise_finalized cfg P w2, ?_⟩
          rw [finalise_rexecuted]
          by_cases hd2u : isDone (unbounded cfg) w2 = true
          · rw [if_pos hd2u]; exact ⟨[], by rw [finalise_rexecuted]; rfl⟩
          · rw [if_neg hd2u]; exact ⟨[], rfl⟩
        · rw [if_neg hd2]
          have hd2u : ¬ isDone (unbounded cfg) w2 = true := fun h => hd2 (isDone_of_unbounded cfg w2 h)
          rw [if_neg hd2u]
          left; exact ⟨by rw [hs.2]; exact hpf, rfl⟩
  · -- the bounded run is finalised: it stays put, the unbounded one only grows
    right
    have hb : (step cfg P wb).1 = wb := by unfold step; simp [hf]
    rw [hb]
    obtain ⟨l2, hl2⟩ := step_rexecuted_ext (unbounded cfg) hdtu P wu
    exact ⟨hf, l2 ++ l, by rw [hl2, hl, List.append_assoc]⟩

theorem lock_steps (cfg : Config S) (hdt : 0 ≤ cfg.dt) (P : NodeId → Proto S σ) (n : Nat)
    (wb wu : World S σ) (h : Lock wb wu) :
    Lock (steps cfg P n wb) (steps (unbounded cfg) P n wu) := by
  induction n generalizing wb wu with
  | zero => exact h
  | succ n ih => exact ih _ _ (lock_step cfg hdt P wb wu h)

end Sim
