import GradysProofs.Lemmas.SimAcc
/-
  Non-interference by unwinding (property C13).

  `ViewEq x w₁ w₂` : the two worlds look the same to every node other than `x`.
  `Hid x w w'`     : `w'` results from `w` by actions that are invisible to the others (U1 chain).
  `Cong x w₁ w₂`   : equal views, equal clocks, both queues sorted by time: the relation that the same
                     action of a node other than `x` preserves (U2 chain).

  Guards made explicit: timer identifiers are allocated PER NODE in the model (`nextTimer : NodeId →
  Nat`; the code's global counter is an injective renaming that is never observable), the clock
  `loop.now` is GLOBAL and is therefore not part of the view, nor are `iter`, `nextSeq` and the ghosts.
-/
set_option linter.unusedSectionVars false

/-! ### the queue: filtering commutes with stable insertion -/

/-- sortedness by timestamp alone (what `WInv.sorted` implies through `keyLt_ts_le`) -/
def SortedTs {K : Type} (q : List (Ev K)) : Prop := q.Pairwise (fun a b => a.ts ≤ b.ts)

theorem sortedTs_of_keyLt {K : Type} {q : List (Ev K)} (h : q.Pairwise keyLt) : SortedTs q :=
  List.Pairwise.imp keyLt_ts_le h

theorem SortedTs.tail {K : Type} {e : Ev K} {q : List (Ev K)} (h : SortedTs (e :: q)) : SortedTs q :=
  (List.pairwise_cons.mp h).2

theorem insertEv_sortedTs {K : Type} (e : Ev K) (q : List (Ev K)) (h : SortedTs q) :
    SortedTs (insertEv e q) := by
  induction q with
  | nil => simp [insertEv, SortedTs]
  | cons x xs ih =>
    have hx := List.pairwise_cons.mp h
    unfold insertEv
    split
    · rename_i hle
      refine List.pairwise_cons.mpr ⟨?_, ih hx.2⟩
      intro y hy
      rcases mem_insertEv.mp hy with rfl | hy
      · exact hle
      · exact hx.1 y hy
    · rename_i hnle
      refine List.pairwise_cons.mpr ⟨?_, h⟩
      intro y hy
      rcases List.mem_cons.mp hy with rfl | hy
      · omega
      · have := hx.1 y hy
        omega

theorem insertEv_cons_le {K : Type} (e x : Ev K) (xs : List (Ev K)) (h : x.ts ≤ e.ts) :
    insertEv e (x :: xs) = x :: insertEv e xs := by
  rw [insertEv, if_pos h]

theorem insertEv_cons_gt {K : Type} (e x : Ev K) (xs : List (Ev K)) (h : ¬ x.ts ≤ e.ts) :
    insertEv e (x :: xs) = e :: x :: xs := by
  rw [insertEv, if_neg h]

/-- an event earlier than everything queued goes to the front -/
theorem insertEv_front {K : Type} (e : Ev K) (q : List (Ev K)) (h : ∀ y ∈ q, e.ts < y.ts) :
    insertEv e q = e :: q := by
  cases q with
  | nil => rfl
  | cons x xs =>
    have := h x List.mem_cons_self
    unfold insertEv
    rw [if_neg (by omega)]

/-- deleting events commutes with inserting one that is deleted too: no sortedness needed -/
theorem filter_insertEv_neg {K : Type} (p : Ev K → Bool) (e : Ev K) (q : List (Ev K))
    (hp : p e = false) : (insertEv e q).filter p = q.filter p := by
  induction q with
  | nil => simp [insertEv, hp]
  | cons x xs ih =>
    unfold insertEv
    split
    · simp only [List.filter_cons, ih]
    · rw [List.filter_cons, hp]; rfl

/-- deleting events commutes with inserting one that is kept: needs the queue sorted by time
    (the `¬ x.ts ≤ e.ts` case) -/
theorem filter_insertEv_pos {K : Type} (p : Ev K → Bool) (e : Ev K) (q : List (Ev K))
    (hs : SortedTs q) (hp : p e = true) : (insertEv e q).filter p = insertEv e (q.filter p) := by
  induction q with
  | nil => simp [insertEv, hp]
  | cons x xs ih =>
    have hx := List.pairwise_cons.mp hs
    by_cases hle : x.ts ≤ e.ts
    · rw [insertEv_cons_le e x xs hle, List.filter_cons, List.filter_cons, ih hx.2]
      split
      · rw [insertEv_cons_le e x _ hle]
      · rfl
    · rw [insertEv_cons_gt e x xs hle, List.filter_cons, hp]
      simp only [if_true]
      rw [insertEv_front]
      intro y hy
      have hy' := (List.mem_filter.mp hy).1
      rcases List.mem_cons.mp hy' with rfl | hy'
      · omega
      · have := hx.1 y hy'
        omega

/-- stable insertion on (time, kind) pairs: the queue without sequence numbers (`QS` of DESIGN 2.4) -/
def insertP {K : Type} (a : Int × K) : List (Int × K) → List (Int × K)
  | [] => [a]
  | y :: ys => if y.1 ≤ a.1 then y :: insertP a ys else a :: y :: ys

theorem map_insertEv {K : Type} (e : Ev K) (q : List (Ev K)) :
    (insertEv e q).map (fun e => (e.ts, e.kind)) = insertP (e.ts, e.kind) (q.map (fun e => (e.ts, e.kind))) := by
  induction q with
  | nil => rfl
  | cons x xs ih =>
    unfold insertEv
    split
    · rename_i hle
      simp only [List.map_cons, insertP, hle, if_true, ih]
    · rename_i hnle
      simp only [List.map_cons, insertP, hnle, if_false]

namespace Sim
variable {S σ : Type} [Scalar S]

/-! ### ownership, the view, silence -/

/-- the node an event belongs to; the mobility tick belongs to nobody -/
def _root_.EvKind.owner : EvKind S → Option NodeId
  | .timerFire n _ _ => some n
  | .deliver dst _ _ => some dst
  | .telemetry n _ => some n
  | .mobTick => none

/-- the event kind is owned by `x` -/
def xowned (x : NodeId) (k : EvKind S) : Bool := k.owner == some x

/-- the queue as the others see it: `x`'s events deleted, sequence numbers erased -/
def qview (x : NodeId) (q : List (Ev (EvKind S))) : List (Int × EvKind S) :=
  (q.filter (fun e => !xowned x e.kind)).map (fun e => (e.ts, e.kind))

/-- observations of the others: callbacks and requests of nodes `≠ x`. Handler observations are
    NOT part of the view (`afterStep` carries the global iteration number: finding F13). -/
def _root_.Obs.vis (x : NodeId) : Obs S → Bool
  | .callback n _ _ => n != x
  | .request n _ _ => n != x
  | _ => false

/-- the trace projected on the nodes other than `x`, oldest first -/
def ptrace (x : NodeId) (w : World S σ) : List (Obs S) := (w.rtrace.filter (Obs.vis x)).reverse

/-- The view of the nodes other than `x` coincides in the two worlds. -/
structure ViewEq (x : NodeId) (w₁ w₂ : World S σ) : Prop where
  queue : qview x w₁.loop.queue = qview x w₂.loop.queue
  pending : w₁.pending.filter (fun p => p.1 != x) = w₂.pending.filter (fun p => p.1 != x)
  nextTimer : ∀ n, n ≠ x → w₁.nextTimer n = w₂.nextTimer n
  range : ∀ n, n ≠ x → w₁.range n = w₂.range n
  pos : ∀ n, n ≠ x → w₁.pos n = w₂.pos n
  target : ∀ n, n ≠ x → w₁.target n = w₂.target n
  speed : ∀ n, n ≠ x → w₁.speed n = w₂.speed n
  pstate : ∀ n, n ≠ x → w₁.pstate n = w₂.pstate n
  drawIdx : w₁.drawIdx = w₂.drawIdx
  trace : w₁.rtrace.filter (Obs.vis x) = w₂.rtrace.filter (Obs.vis x)

theorem ViewEq.refl (x : NodeId) (w : World S σ) : ViewEq x w w :=
  ⟨rfl, rfl, fun _ _ => rfl, fun _ _ => rfl, fun _ _ => rfl, fun _ _ => rfl, fun _ _ => rfl,
   fun _ _ => rfl, rfl, rfl⟩

theorem ViewEq.symm {x : NodeId} {a b : World S σ} (h : ViewEq x a b) : ViewEq x b a :=
  ⟨h.queue.symm, h.pending.symm, fun n hn => (h.nextTimer n hn).symm, fun n hn => (h.range n hn).symm,
   fun n hn => (h.pos n hn).symm, fun n hn => (h.target n hn).symm, fun n hn => (h.speed n hn).symm,
   fun n hn => (h.pstate n hn).symm, h.drawIdx.symm, h.trace.symm⟩

theorem ViewEq.trans {x : NodeId} {a b c : World S σ} (h1 : ViewEq x a b) (h2 : ViewEq x b c) :
    ViewEq x a c :=
  ⟨h1.queue.trans h2.queue, h1.pending.trans h2.pending,
   fun n hn => (h1.nextTimer n hn).trans (h2.nextTimer n hn),
   fun n hn => (h1.range n hn).trans (h2.range n hn),
   fun n hn => (h1.pos n hn).trans (h2.pos n hn),
   fun n hn => (h1.target n hn).trans (h2.target n hn),
   fun n hn => (h1.speed n hn).trans (h2.speed n hn),
   fun n hn => (h1.pstate n hn).trans (h2.pstate n hn),
   h1.drawIdx.trans h2.drawIdx, h1.trace.trans h2.trace⟩

theorem ViewEq.ptrace_eq {x : NodeId} {a b : World S σ} (h : ViewEq x a b) : ptrace x a = ptrace x b := by
  unfold ptrace; rw [h.trace]

/-- the request is a message primitive -/
def _root_.Request.isMsg : Request S → Bool
  | .send _ _ => true
  | .broadcast _ => true
  | _ => false

/-- no `send` / `broadcast` on any branch of the interaction tree -/
def _root_.Prog.silent : Prog S σ → Prop
  | .done _ => True
  | .req r k => r.isMsg = false ∧ ∀ b, (k b).silent

/-- node `x`'s program never issues `send` / `broadcast`, whatever its state, the time, the callback -/
def Silent (x : NodeId) (P : NodeId → Proto S σ) : Prop :=
  ∀ (s : σ) (t : Int) (cb : Callback S), ((P x).react s x t cb).silent

/-! ### the queue view under insertion and pop -/

theorem qview_insert_owned (x : NodeId) (e : Ev (EvKind S)) (q : List (Ev (EvKind S)))
    (h : xowned x e.kind = true) : qview x (insertEv e q) = qview x q := by
  unfold qview
  rw [filter_insertEv_neg _ e q (by simp [h])]

theorem qview_insert_other (x : NodeId) (e : Ev (EvKind S)) (q : List (Ev (EvKind S)))
    (hs : SortedTs q) (h : xowned x e.kind = false) :
    qview x (insertEv e q) = insertP (e.ts, e.kind) (qview x q) := by
  unfold qview
  rw [filter_insertEv_pos _ e q hs (by simp [h]), map_insertEv]

theorem qview_cons_owned (x : NodeId) (e : Ev (EvKind S)) (q : List (Ev (EvKind S)))
    (h : xowned x e.kind = true) : qview x (e :: q) = qview x q := by
  simp [qview, h]

theorem qview_cons_other (x : NodeId) (e : Ev (EvKind S)) (q : List (Ev (EvKind S)))
    (h : xowned x e.kind = false) : qview x (e :: q) = (e.ts, e.kind) :: qview x q := by
  simp [qview, h]

/-- inserting events with the same time and kind (whatever their sequence numbers) into two sorted
    queues with equal views gives equal views -/
theorem qview_insert_congr (x : NodeId) (ts : Int) (s₁ s₂ : Nat) (k : EvKind S)
    {q₁ q₂ : List (Ev (EvKind S))} (h₁ : SortedTs q₁) (h₂ : SortedTs q₂)
    (h : qview x q₁ = qview x q₂) :
    qview x (insertEv ⟨ts, s₁, k⟩ q₁) = qview x (insertEv ⟨ts, s₂, k⟩ q₂) := by
  cases hk : xowned x k
  · rw [qview_insert_other x _ q₁ h₁ hk, qview_insert_other x _ q₂ h₂ hk, h]
  · rw [qview_insert_owned x _ q₁ hk, qview_insert_owned x _ q₂ hk, h]

end Sim
