import GradysProofs.Lemmas.SimStep
/-
  Exact shape of what each handler-level function appends to the trace.
-/
set_option linter.unusedSectionVars false

namespace Sim
variable {S σ : Type} [Scalar S]

/-- an observation that is a request issued by node `n` -/
def Obs.isRequestOf (n : NodeId) : Obs S → Prop
  | .request m _ _ => m = n
  | _ => False

@[simp] theorem sched_rtrace (ts : Int) (k : EvKind S) (w : World S σ) : (sched ts k w).rtrace = w.rtrace := rfl

theorem consumeDraw_rtrace (cfg : Config S) (w : World S σ) : (consumeDraw cfg w).2.rtrace = w.rtrace := by
  unfold consumeDraw; split <;> rfl

theorem transmit_rtrace (cfg : Config S) (src dst : NodeId) (msg : String) (w : World S σ) :
    (transmit cfg src dst msg w).rtrace = w.rtrace := by
  unfold transmit
  simp only
  split
  · rw [sched_rtrace, consumeDraw_rtrace]
  · exact consumeDraw_rtrace cfg w

theorem foldl_rtrace {α : Type} (f : World S σ → α → World S σ) (l : List α)
    (hf : ∀ w a, (f w a).rtrace = w.rtrace) (w : World S σ) : (l.foldl f w).rtrace = w.rtrace := by
  induction l generalizing w with
  | nil => rfl
  | cons a l ih => simp only [List.foldl_cons]; rw [ih, hf]

theorem broadcastTo_rtrace (cfg : Config S) (src : NodeId) (msg : String) (dsts : List NodeId)
    (w : World S σ) : (broadcastTo cfg src msg dsts w).rtrace = w.rtrace := by
  unfold broadcastTo
  apply foldl_rtrace
  intro w d
  split
  · rfl
  · exact transmit_rtrace _ _ _ _ _

theorem execReq_rtrace (cfg : Config S) (n : NodeId) (r : Request S) (w : World S σ) :
    (execReq cfg n r w).1.rtrace = w.rtrace := by
  cases r with
  | setTimer name at_ =>
    simp only [execReq]
    split
    · rfl
    · split <;> rfl
  | cancelTimer name => simp only [execReq]; split <;> rfl
  | send msg dst =>
    simp only [execReq]
    split
    · rfl
    · split
      · rfl
      · split
        · rfl
        · split
          · rfl
          · exact transmit_rtrace _ _ _ _ _
  | broadcast msg =>
    simp only [execReq]
    split
    · rfl
    · exact broadcastTo_rtrace _ _ _ _ _
  | goto p => simp only [execReq]; split <;> rfl
  | gotoGeo p => simp only [execReq]; split <;> rfl
  | setSpeed v => simp only [execReq]; split <;> rfl
  | setRange r =>
    simp only [execReq]
    split
    · rfl
    · split <;> rfl

/-- a protocol program appends only `request` observations of its own node -/
theorem runProg_rtrace (cfg : Config S) (n : NodeId) (p : Prog S σ) (w : World S σ) :
    ∃ l, (runProg cfg n p w).1.rtrace = l ++ w.rtrace ∧ ∀ o ∈ l, Obs.isRequestOf n o := by
  induction p generalizing w with
  | done s => exact ⟨[], rfl, by simp⟩
  | req r k ih =>
    simp only [runProg]
    obtain ⟨l, hl, hq⟩ := ih (execReq cfg n r w).2 (log (.request n r (execReq cfg n r w).2) (execReq cfg n r w).1)
    refine ⟨l ++ [.request n r (execReq cfg n r w).2], ?_, ?_⟩
    · rw [hl]
      simp only [log, execReq_rtrace, List.append_assoc, List.singleton_append]
    · intro o ho
      rcases List.mem_append.mp ho with ho | ho
      · exact hq o ho
      · rw [List.mem_singleton.mp ho]; exact rfl

/-- one callback appends its observation followed (later in time) by its own requests -/
theorem callback_rtrace (cfg : Config S) (P : NodeId → Proto S σ) (n : NodeId) (cb : Callback S)
    (w : World S σ) :
    ∃ l, (callback cfg P n cb w).rtrace = l ++ .callback n cb (reportedTime cfg w) :: w.rtrace ∧
      ∀ o ∈ l, Obs.isRequestOf n o := by
  unfold callback
  simp only
  obtain ⟨l, hl, hq⟩ := runProg_rtrace cfg n ((P n).react (w.pstate n) n (reportedTime cfg w) cb)
    (log (.callback n cb (reportedTime cfg w)) w)
  exact ⟨l, hl, hq⟩

theorem mobTick_rtrace (cfg : Config S) (w : World S σ) : (mobTick cfg w).rtrace = w.rtrace := by
  unfold mobTick
  simp only
  rw [sched_rtrace]
  apply foldl_rtrace
  intro w n
  rfl

/-! ### the lifecycle projection of a trace -/

/-- observations the lifecycle property C05 speaks about -/
def isLife : Obs S → Bool
  | .handlerInit _ => true
  | .afterStep _ _ _ => true
  | .handlerFinal _ => true
  | .callback _ .initialize _ => true
  | .callback _ .finish _ => true
  | _ => false

theorem isLife_request {n : NodeId} {o : Obs S} (h : Obs.isRequestOf n o) : isLife o = false := by
  cases o <;> simp_all [Obs.isRequestOf, isLife]

theorem filter_requests_nil {n : NodeId} {l : List (Obs S)} (h : ∀ o ∈ l, Obs.isRequestOf n o) :
    l.filter isLife = [] := by
  rw [List.filter_eq_nil_iff]
  intro o ho
  simp [isLife_request (h o ho)]

/-- lifecycle entries (newest first) added by a callback: the callback itself iff it is initialize/finish -/
theorem callback_life (cfg : Config S) (P : NodeId → Proto S σ) (n : NodeId) (cb : Callback S)
    (w : World S σ) :
    (callback cfg P n cb w).rtrace.filter isLife =
      (if isLife (.callback n cb (reportedTime cfg w)) then [Obs.callback n cb (reportedTime cfg w)] else [])
        ++ w.rtrace.filter isLife := by
  obtain ⟨l, hl, hq⟩ := callback_rtrace cfg P n cb w
  rw [hl, List.filter_append, filter_requests_nil hq, List.nil_append, List.filter_cons]
  split <;> simp

theorem execEv_life (cfg : Config S) (P : NodeId → Proto S σ) (e : Ev (EvKind S)) (w : World S σ) :
    (execEv cfg P e w).rtrace.filter isLife = w.rtrace.filter isLife := by
  unfold execEv
  split
  · split
    · rw [callback_life]; simp [isLife]
    · rfl
  · rw [callback_life]; simp [isLife]
  · rw [mobTick_rtrace]
  · rw [callback_life]; simp [isLife]

theorem logAll_rtrace (f : String → Obs S) (hs : List String) (w : World S σ) :
    (logAll f hs w).rtrace = (hs.map f).reverse ++ w.rtrace := by
  unfold logAll
  induction hs generalizing w with
  | nil => rfl
  | cons h hs ih =>
    simp only [List.foldl_cons, List.map_cons, List.reverse_cons, List.append_assoc]
    rw [ih]; rfl

theorem callbackAll_life (cfg : Config S) (P : NodeId → Proto S σ) (cb : Callback S)
    (hcb : ∀ n t, isLife (Obs.callback n cb t : Obs S) = true) (ns : List NodeId) (w : World S σ) :
    (callbackAll cfg P cb ns w).rtrace.filter isLife =
      (ns.map (fun n => Obs.callback n cb (reportedTime cfg w))).reverse ++ w.rtrace.filter isLife := by
  unfold callbackAll
  induction ns generalizing w with
  | nil => rfl
  | cons n ns ih =>
    simp only [List.foldl_cons, List.map_cons, List.reverse_cons, List.append_assoc]
    rw [ih, callback_life, if_pos (hcb n _)]
    have : reportedTime cfg (callback cfg P n cb w) = reportedTime cfg w :=
      reportedTime_congr cfg (ext_callback cfg P n cb w).now_eq
    rw [this]

end Sim
