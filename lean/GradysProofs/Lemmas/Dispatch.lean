import GradysModel.Dispatcher
/-
  Lemmas about the dispatcher model: the generic chain walk, the registry operations, and the
  invariants of dispatcher worlds (chain shape, registration log), preserved by every operation
  including the re-entrant ones performed from inside running callees.
-/
set_option linter.unusedSectionVars false
set_option linter.unusedVariables false

namespace Disp

/-! ### the generic walk -/
section Walk
variable {σ β : Type}

theorem walk_nil (f : Entry → σ → σ × Ret × β) (intr : Bool) (s : σ) : walk f intr [] s = (s, []) := rfl

theorem walk_cons (f : Entry → σ → σ × Ret × β) (intr : Bool) (e : Entry) (es : List Entry) (s : σ) :
    walk f intr (e :: es) s =
      if intr && (f e s).2.1 == Ret.interrupt then ((f e s).1, [⟨e, (f e s).2.1, (f e s).2.2⟩])
      else ((walk f intr es (f e s).1).1, ⟨e, (f e s).2.1, (f e s).2.2⟩ :: (walk f intr es (f e s).1).2) := rfl

/-- the invoked entries are a prefix of the chain that was walked -/
theorem walk_prefix (f : Entry → σ → σ × Ret × β) (intr : Bool) (es : List Entry) (s : σ) :
    ((walk f intr es s).2.map (·.entry)) <+: es := by
  induction es generalizing s with
  | nil => simp [walk_nil]
  | cons e es ih =>
    rw [walk_cons]
    split
    · exact ⟨es, by simp⟩
    · simpa using (List.prefix_cons_inj e).mpr (ih (f e s).1)

/-- without interruption the whole chain is invoked, in order -/
theorem walk_all (f : Entry → σ → σ × Ret × β) (es : List Entry) (s : σ) :
    ((walk f false es s).2.map (·.entry)) = es := by
  induction es generalizing s with
  | nil => rfl
  | cons e es ih =>
    rw [walk_cons]
    simp [ih]

/-- with interruption: the walk stops exactly after the first callee returning INTERRUPT -/
theorem walk_stop (f : Entry → σ → σ × Ret × β) (es : List Entry) (s : σ) :
    ∃ post, es = (walk f true es s).2.map (·.entry) ++ post ∧
      (∀ c ∈ (walk f true es s).2.dropLast, c.ret ≠ Ret.interrupt) ∧
      (post ≠ [] → ∃ c, (walk f true es s).2.getLast? = some c ∧ c.ret = Ret.interrupt) := by
  induction es generalizing s with
  | nil => exact ⟨[], by simp [walk_nil]⟩
  | cons e es ih =>
    rw [walk_cons]
    by_cases h : (f e s).2.1 = Ret.interrupt
    · refine ⟨es, ?_⟩
      simp [h]
    · obtain ⟨post, h1, h2, h3⟩ := ih (f e s).1
      refine ⟨post, ?_⟩
      have hb : (true && (f e s).2.1 == Ret.interrupt) = false := by simp [h]
      rw [hb]
      simp only [Bool.false_eq_true, ↓reduceIte, List.map_cons, List.cons_append]
      refine ⟨by rw [← h1], ?_, ?_⟩
      · intro c hc
        cases hw : (walk f true es (f e s).1).2 with
        | nil => simp [hw] at hc
        | cons x xs =>
          rw [hw, List.dropLast_cons_cons] at hc
          rcases List.mem_cons.mp hc with rfl | hc
          · exact h
          · exact h2 c (by rw [hw]; exact hc)
      · intro hp
        obtain ⟨c, hc, hr⟩ := h3 hp
        refine ⟨c, ?_, hr⟩
        cases hw : (walk f true es (f e s).1).2 with
        | nil => simp [hw] at hc
        | cons x xs => rw [hw] at hc; simpa [List.getLast?_cons_cons] using hc

/-- every recorded return value is what the callee returned; number of invocations ≤ chain length -/
theorem walk_length_le (f : Entry → σ → σ × Ret × β) (intr : Bool) (es : List Entry) (s : σ) :
    (walk f intr es s).2.length ≤ es.length := by
  have := (walk_prefix f intr es s).length_le
  simpa using this

/-- a non-empty chain is never skipped altogether -/
theorem walk_ne_nil (f : Entry → σ → σ × Ret × β) (intr : Bool) (e : Entry) (es : List Entry) (s : σ) :
    (walk f intr (e :: es) s).2 ≠ [] := by
  rw [walk_cons]
  split <;> simp

/-- a state predicate preserved by every callee of the chain is preserved by the walk -/
theorem walk_inv (f : Entry → σ → σ × Ret × β) (intr : Bool) (P : σ → Prop) (es : List Entry)
    (hf : ∀ e ∈ es, ∀ s, P s → P (f e s).1) (s : σ) (hs : P s) : P (walk f intr es s).1 := by
  induction es generalizing s with
  | nil => exact hs
  | cons e es ih =>
    rw [walk_cons]
    have h1 := hf e List.mem_cons_self s hs
    split
    · exact h1
    · exact ih (fun e' he' => hf e' (List.mem_cons_of_mem _ he')) _ h1

/-- a projection of the state that each callee advances by a function of its record is advanced
    by the walk by the fold over the records -/
theorem walk_fold {γ : Type} (f : Entry → σ → σ × Ret × β) (intr : Bool) (proj : σ → γ)
    (g : γ → Call β → γ) (hf : ∀ e s, proj (f e s).1 = g (proj s) ⟨e, (f e s).2.1, (f e s).2.2⟩)
    (es : List Entry) (s : σ) :
    proj (walk f intr es s).1 = (walk f intr es s).2.foldl g (proj s) := by
  induction es generalizing s with
  | nil => rfl
  | cons e es ih =>
    rw [walk_cons]
    split
    · simp [hf]
    · simp only [List.foldl_cons]
      rw [ih, hf]

end Walk

/-! ### chains and the registry -/

/-- shape of a chain: handlers, then the protocol's own method, which occurs exactly once -/
def ChainOK (l : List Entry) : Prop := ∃ hs, l = hs ++ [Entry.own] ∧ Entry.own ∉ hs

theorem chainOK_fresh : ChainOK [Entry.own] := ⟨[], rfl, by simp⟩

theorem chainOK_cons {l : List Entry} (h : Nat) (hl : ChainOK l) : ChainOK (Entry.h h :: l) := by
  obtain ⟨hs, rfl, hn⟩ := hl
  exact ⟨Entry.h h :: hs, rfl, by simp [hn]⟩

theorem chainOK_erase {l : List Entry} (h : Nat) (hl : ChainOK l) : ChainOK (l.erase (Entry.h h)) := by
  obtain ⟨hs, rfl, hn⟩ := hl
  by_cases hm : Entry.h h ∈ hs
  · rw [List.erase_append_left _ hm]
    exact ⟨_, rfl, fun hc => hn (List.mem_of_mem_erase hc)⟩
  · rw [List.erase_append_right _ hm]
    refine ⟨hs, ?_, hn⟩
    simp

theorem chainOK_count_own {l : List Entry} (hl : ChainOK l) : l.count Entry.own = 1 := by
  obtain ⟨hs, rfl, hn⟩ := hl
  simp [List.count_eq_zero_of_not_mem hn]

theorem chainOK_getLast {l : List Entry} (hl : ChainOK l) : l.getLast? = some Entry.own := by
  obtain ⟨hs, rfl, _⟩ := hl
  simp

namespace Chains

@[simp] theorem set_same (c : Chains) (k : Kind) (l : List Entry) : (c.set k l) k = l := by
  cases k <;> rfl

theorem set_other (c : Chains) {k k' : Kind} (l : List Entry) (h : k' ≠ k) : (c.set k l) k' = c k' := by
  cases k <;> cases k' <;> first | rfl | exact absurd rfl h

@[simp] theorem fresh_get (k : Kind) : Chains.fresh k = [Entry.own] := by
  cases k <;> rfl

theorem unregister_some {c c' : Chains} {k : Kind} {h : Nat} (hu : c.unregister k h = some c') :
    Entry.h h ∈ c k ∧ c' = c.set k ((c k).erase (Entry.h h)) := by
  unfold unregister at hu
  split at hu
  · rename_i hm; exact ⟨hm, (Option.some.inj hu).symm⟩
  · cases hu

theorem unregister_none {c : Chains} {k : Kind} {h : Nat} : c.unregister k h = none ↔ Entry.h h ∉ c k := by
  unfold unregister
  split <;> simp_all

end Chains

/-- every wrapper of the registry has well-shaped chains -/
def RWF (r : Registry) : Prop := ∀ p c, r p = some c → ∀ k, ChainOK (c k)

namespace Registry

@[simp] theorem upd_same (r : Registry) (p : Nat) (c : Chains) : (r.upd p c) p = some c := by simp [upd]

theorem upd_other (r : Registry) {p q : Nat} (c : Chains) (h : q ≠ p) : (r.upd p c) q = r q := by
  simp [upd, h]

theorem create_some {r : Registry} {p : Nat} {c : Chains} (h : r p = some c) : r.create p = r := by
  simp [create, h]

theorem create_none {r : Registry} {p : Nat} (h : r p = none) : r.create p = r.upd p Chains.fresh := by
  simp [create, h]

theorem register_none {r : Registry} {p : Nat} (k : Kind) (h : Nat) (hr : r p = none) :
    r.register p k h = (r, Res.nodispatcher) := by
  simp [register, hr]

theorem register_some {r : Registry} {p : Nat} {c : Chains} (k : Kind) (h : Nat) (hr : r p = some c) :
    r.register p k h = (r.upd p (c.register k h), Res.ok) := by
  simp [register, hr]

theorem unregister_none {r : Registry} {p : Nat} (k : Kind) (h : Nat) (hr : r p = none) :
    r.unregister p k h = (r, Res.nodispatcher) := by
  simp [unregister, hr]

theorem unregister_absent {r : Registry} {p : Nat} {c : Chains} {k : Kind} {h : Nat} (hr : r p = some c)
    (hu : c.unregister k h = none) : r.unregister p k h = (r, Res.absent) := by
  simp [unregister, hr, hu]

theorem unregister_ok {r : Registry} {p : Nat} {c c' : Chains} {k : Kind} {h : Nat} (hr : r p = some c)
    (hu : c.unregister k h = some c') : r.unregister p k h = (r.upd p c', Res.ok) := by
  simp [unregister, hr, hu]

theorem create_other (r : Registry) {p q : Nat} (h : q ≠ p) : (r.create p) q = r q := by
  cases hr : r p with
  | some c => rw [create_some hr]
  | none => rw [create_none hr, upd_other _ _ h]

theorem register_other (r : Registry) {p q : Nat} (k : Kind) (h : Nat) (hq : q ≠ p) :
    (r.register p k h).1 q = r q := by
  cases hr : r p with
  | some c => rw [register_some k h hr]; exact upd_other _ _ hq
  | none => rw [register_none k h hr]

theorem unregister_other (r : Registry) {p q : Nat} (k : Kind) (h : Nat) (hq : q ≠ p) :
    (r.unregister p k h).1 q = r q := by
  cases hr : r p with
  | none => rw [unregister_none k h hr]
  | some c =>
    cases hu : c.unregister k h with
    | none => rw [unregister_absent hr hu]
    | some c' => rw [unregister_ok hr hu]; exact upd_other _ _ hq

theorem applyROp_other (r : Registry) {p q : Nat} (o : ROp) (hq : q ≠ p) : (r.applyROp p o).1 q = r q := by
  cases o with
  | reg k h => exact register_other r k h hq
  | unreg k h => exact unregister_other r k h hq

theorem after_other (r : Registry) {p q : Nat} (os : List ROp) (hq : q ≠ p) : (r.after p os) q = r q := by
  induction os generalizing r with
  | nil => rfl
  | cons o os ih => rw [after, ih, applyROp_other r o hq]

theorem after_append (r : Registry) (p : Nat) (a b : List ROp) :
    r.after p (a ++ b) = (r.after p a).after p b := by
  induction a generalizing r with
  | nil => rfl
  | cons o os ih => simp only [List.cons_append, after, ih]

theorem rwf_empty : RWF empty := by
  intro p c h; cases h

theorem rwf_upd {r : Registry} (hr : RWF r) (p : Nat) (c : Chains) (hc : ∀ k, ChainOK (c k)) : RWF (r.upd p c) := by
  intro q c' hq k
  by_cases h : q = p
  · subst h
    rw [upd_same] at hq
    cases hq
    exact hc k
  · rw [upd_other _ _ h] at hq
    exact hr q c' hq k

theorem rwf_create {r : Registry} (hr : RWF r) (p : Nat) : RWF (r.create p) := by
  cases h : r p with
  | some c => rw [create_some h]; exact hr
  | none => rw [create_none h]; exact rwf_upd hr p _ (fun k => by rw [Chains.fresh_get]; exact chainOK_fresh)

theorem rwf_register {r : Registry} (hr : RWF r) (p : Nat) (k : Kind) (h : Nat) : RWF (r.register p k h).1 := by
  cases hc : r p with
  | none => rw [register_none k h hc]; exact hr
  | some c =>
    rw [register_some k h hc]
    refine rwf_upd hr p _ (fun k' => ?_)
    by_cases hk : k' = k
    · subst hk
      simp only [Chains.register, Chains.set_same]
      exact chainOK_cons h (hr p c hc k')
    · simp only [Chains.register, Chains.set_other _ _ hk]
      exact hr p c hc k'

theorem rwf_unregister {r : Registry} (hr : RWF r) (p : Nat) (k : Kind) (h : Nat) : RWF (r.unregister p k h).1 := by
  cases hc : r p with
  | none => rw [unregister_none k h hc]; exact hr
  | some c =>
    cases hu : c.unregister k h with
    | none => rw [unregister_absent hc hu]; exact hr
    | some c' =>
      rw [unregister_ok hc hu]
      obtain ⟨_, rfl⟩ := Chains.unregister_some hu
      refine rwf_upd hr p _ (fun k' => ?_)
      by_cases hk : k' = k
      · subst hk
        simp only [Chains.set_same]
        exact chainOK_erase h (hr p c hc k')
      · simp only [Chains.set_other _ _ hk]
        exact hr p c hc k'

theorem rwf_applyROp {r : Registry} (hr : RWF r) (p : Nat) (o : ROp) : RWF (r.applyROp p o).1 := by
  cases o with
  | reg k h => exact rwf_register hr p k h
  | unreg k h => exact rwf_unregister hr p k h

theorem rwf_after {r : Registry} (hr : RWF r) (p : Nat) (os : List ROp) : RWF (r.after p os) := by
  induction os generalizing r with
  | nil => exact hr
  | cons o os ih => exact ih (rwf_applyROp hr p o)

theorem chain_ok {r : Registry} (hr : RWF r) (p : Nat) (k : Kind) : ChainOK (r.chain p k) := by
  unfold chain
  split
  · rename_i c hc; exact hr p c hc k
  · exact chainOK_fresh

end Registry

/-! ### dispatcher worlds -/

namespace DState

theorem create_some {s : DState} {p : Nat} {c : Chains} (h : s.reg p = some c) : s.create p = s := by
  simp [create, h]

theorem create_none {s : DState} {p : Nat} (h : s.reg p = none) :
    s.create p = { s with reg := s.reg.upd p Chains.fresh } := by
  simp [create, h]

theorem create_reg (s : DState) (p : Nat) : (s.create p).reg = s.reg.create p := by
  cases h : s.reg p with
  | some c => rw [create_some h, Registry.create_some h]
  | none => rw [create_none h, Registry.create_none h]

theorem create_regLog (s : DState) (p : Nat) : (s.create p).regLog = s.regLog := by
  cases h : s.reg p with
  | some c => rw [create_some h]
  | none => rw [create_none h]

@[simp] theorem bump_reg (s : DState) (c : Callee) : (s.bump c).reg = s.reg := rfl
@[simp] theorem bump_regLog (s : DState) (c : Callee) : (s.bump c).regLog = s.regLog := rfl

@[simp] theorem register_reg (s : DState) (p : Nat) (k : Kind) (h : Nat) :
    (s.register p k h).1.reg = (s.reg.register p k h).1 := rfl
@[simp] theorem register_res (s : DState) (p : Nat) (k : Kind) (h : Nat) :
    (s.register p k h).2 = (s.reg.register p k h).2 := rfl
@[simp] theorem unregister_reg (s : DState) (p : Nat) (k : Kind) (h : Nat) :
    (s.unregister p k h).1.reg = (s.reg.unregister p k h).1 := rfl
@[simp] theorem unregister_res (s : DState) (p : Nat) (k : Kind) (h : Nat) :
    (s.unregister p k h).2 = (s.reg.unregister p k h).2 := rfl

theorem applyROp_reg (s : DState) (p : Nat) (o : ROp) : (s.applyROp p o).1.reg = (s.reg.applyROp p o).1 := by
  cases o <;> rfl

theorem applyROps_reg (s : DState) (p : Nat) (os : List ROp) : (s.applyROps p os).1.reg = s.reg.after p os := by
  induction os generalizing s with
  | nil => rfl
  | cons o os ih =>
    simp only [applyROps, Registry.after]
    rw [ih, applyROp_reg]

theorem applyROps_ops (s : DState) (p : Nat) (os : List ROp) : (s.applyROps p os).2.map (·.1) = os := by
  induction os generalizing s with
  | nil => rfl
  | cons o os ih => simp only [applyROps, List.map_cons, ih]

/-- every handler in a chain of instance `p` for kind `k` was registered there -/
def LogInv (s : DState) : Prop :=
  ∀ p c k h, s.reg p = some c → Entry.h h ∈ c k → (p, k, h) ∈ s.regLog

theorem logInv_init : LogInv init := by
  intro p c k h hp; cases hp

theorem logInv_create {s : DState} (hs : LogInv s) (p : Nat) : LogInv (s.create p) := by
  intro q c k h hq hm
  rw [create_regLog]
  have hq' : (s.reg.create p) q = some c := by rw [← create_reg]; exact hq
  cases hr : s.reg p with
  | some c0 =>
    rw [Registry.create_some hr] at hq'
    exact hs q c k h hq' hm
  | none =>
    rw [Registry.create_none hr] at hq'
    by_cases hqp : q = p
    · subst hqp
      rw [Registry.upd_same] at hq'
      cases hq'
      simp at hm
    · rw [Registry.upd_other _ _ hqp] at hq'
      exact hs q c k h hq' hm

theorem register_regLog_ok (s : DState) {p : Nat} {c : Chains} (k : Kind) (h : Nat) (hr : s.reg p = some c) :
    (s.register p k h).1.regLog = (p, k, h) :: s.regLog := by
  simp [register, Registry.register_some k h hr]

theorem register_regLog_none (s : DState) {p : Nat} (k : Kind) (h : Nat) (hr : s.reg p = none) :
    (s.register p k h).1.regLog = s.regLog := by
  simp [register, Registry.register_none k h hr]

theorem logInv_register {s : DState} (hs : LogInv s) (p : Nat) (k : Kind) (h : Nat) :
    LogInv (s.register p k h).1 := by
  intro q c k' h' hq hm
  rw [register_reg] at hq
  cases hr : s.reg p with
  | none =>
    rw [Registry.register_none k h hr] at hq
    rw [register_regLog_none s k h hr]
    exact hs q c k' h' hq hm
  | some c0 =>
    rw [Registry.register_some k h hr] at hq
    dsimp only at hq
    rw [register_regLog_ok s k h hr]
    by_cases hqp : q = p
    · subst hqp
      rw [Registry.upd_same] at hq
      cases hq
      by_cases hk : k' = k
      · subst hk
        simp only [Chains.register, Chains.set_same, List.mem_cons] at hm
        rcases hm with hm | hm
        · cases hm; exact List.mem_cons_self
        · exact List.mem_cons_of_mem _ (hs q c0 k' h' hr hm)
      · simp only [Chains.register, Chains.set_other _ _ hk] at hm
        exact List.mem_cons_of_mem _ (hs q c0 k' h' hr hm)
    · rw [Registry.upd_other _ _ hqp] at hq
      exact List.mem_cons_of_mem _ (hs q c k' h' hq hm)

theorem logInv_unregister {s : DState} (hs : LogInv s) (p : Nat) (k : Kind) (h : Nat) :
    LogInv (s.unregister p k h).1 := by
  intro q c k' h' hq hm
  rw [unregister_reg] at hq
  show (q, k', h') ∈ s.regLog
  cases hr : s.reg p with
  | none =>
    rw [Registry.unregister_none k h hr] at hq
    exact hs q c k' h' hq hm
  | some c0 =>
    cases hu : c0.unregister k h with
    | none =>
      rw [Registry.unregister_absent hr hu] at hq
      exact hs q c k' h' hq hm
    | some c1 =>
      rw [Registry.unregister_ok hr hu] at hq
      dsimp only at hq
      obtain ⟨_, rfl⟩ := Chains.unregister_some hu
      by_cases hqp : q = p
      · subst hqp
        rw [Registry.upd_same] at hq
        cases hq
        by_cases hk : k' = k
        · subst hk
          simp only [Chains.set_same] at hm
          exact hs q c0 k' h' hr (List.mem_of_mem_erase hm)
        · simp only [Chains.set_other _ _ hk] at hm
          exact hs q c0 k' h' hr hm
      · rw [Registry.upd_other _ _ hqp] at hq
        exact hs q c k' h' hq hm

theorem logInv_applyROp {s : DState} (hs : LogInv s) (p : Nat) (o : ROp) : LogInv (s.applyROp p o).1 := by
  cases o with
  | reg k h => exact logInv_register hs p k h
  | unreg k h => exact logInv_unregister hs p k h

theorem logInv_applyROps {s : DState} (hs : LogInv s) (p : Nat) (os : List ROp) : LogInv (s.applyROps p os).1 := by
  induction os generalizing s with
  | nil => exact hs
  | cons o os ih => exact ih (logInv_applyROp hs p o)

theorem logInv_bump {s : DState} (hs : LogInv s) (c : Callee) : LogInv (s.bump c) := hs

/-- the registration log only grows -/
theorem regLog_mono_applyROps (s : DState) (p : Nat) (os : List ROp) :
    ∀ x ∈ s.regLog, x ∈ (s.applyROps p os).1.regLog := by
  induction os generalizing s with
  | nil => intro x hx; exact hx
  | cons o os ih =>
    intro x hx
    refine ih _ x ?_
    cases o with
    | reg k h =>
      simp only [applyROp, register]
      split
      · exact List.mem_cons_of_mem _ hx
      · exact hx
    | unreg k h => exact hx

end DState

/-! ### one invocation, one dispatch, a whole history -/

theorem invoke_reg (beh : Beh) (p : Nat) (k : Kind) (e : Entry) (s : DState) :
    (invoke beh p k e s).1.reg = s.reg.after p ((invoke beh p k e s).2.2.rops.map (·.1)) := by
  simp only [invoke]
  rw [DState.applyROps_reg, DState.applyROps_ops, DState.bump_reg]

theorem invoke_logInv (beh : Beh) (p : Nat) (k : Kind) (e : Entry) {s : DState} (hs : DState.LogInv s) :
    DState.LogInv (invoke beh p k e s).1 :=
  DState.logInv_applyROps (DState.logInv_bump hs _) p _

theorem invoke_rwf (beh : Beh) (p : Nat) (k : Kind) (e : Entry) {s : DState} (hs : RWF s.reg) :
    RWF (invoke beh p k e s).1.reg := by
  rw [invoke_reg]
  exact Registry.rwf_after hs p _

theorem invoke_regLog_mono (beh : Beh) (p : Nat) (k : Kind) (e : Entry) (s : DState) :
    ∀ x ∈ s.regLog, x ∈ (invoke beh p k e s).1.regLog :=
  DState.regLog_mono_applyROps (s.bump _) p _

theorem performed_nil : performed [] = [] := rfl

theorem performed_cons (c : Call CallInfo) (cs : List (Call CallInfo)) :
    performed (c :: cs) = c.info.rops.map (·.1) ++ performed cs := by
  simp [performed]

theorem foldl_after (p : Nat) (cs : List (Call CallInfo)) (r : Registry) :
    cs.foldl (fun r c => r.after p (c.info.rops.map (·.1))) r = r.after p (performed cs) := by
  induction cs generalizing r with
  | nil => rfl
  | cons c cs ih => rw [List.foldl_cons, ih, performed_cons, Registry.after_append]

/-- the registry after a dispatch is the registry before it with the re-entrant requests of the
    invoked callees applied in order: they take effect from the next dispatch on -/
theorem dispatch_reg (beh : Beh) (s : DState) (p : Nat) (k : Kind) :
    (dispatch beh s p k).1.reg = s.reg.after p (performed (dispatch beh s p k).2) := by
  unfold dispatch
  rw [walk_fold (invoke beh p k) k.interruptible (fun s => s.reg)
    (fun r c => r.after p (c.info.rops.map (·.1))) (fun e s => invoke_reg beh p k e s)]
  exact foldl_after p _ _

theorem dispatch_logInv (beh : Beh) {s : DState} (hs : DState.LogInv s) (p : Nat) (k : Kind) :
    DState.LogInv (dispatch beh s p k).1 :=
  walk_inv _ _ DState.LogInv _ (fun e _ s hs => invoke_logInv beh p k e hs) s hs

theorem dispatch_rwf (beh : Beh) {s : DState} (hs : RWF s.reg) (p : Nat) (k : Kind) :
    RWF (dispatch beh s p k).1.reg :=
  walk_inv _ _ (fun s => RWF s.reg) _ (fun e _ s hs => invoke_rwf beh p k e hs) s hs

theorem dispatch_other (beh : Beh) (s : DState) {p q : Nat} (k : Kind) (hq : q ≠ p) :
    (dispatch beh s p k).1.reg q = s.reg q := by
  rw [dispatch_reg]
  exact Registry.after_other _ _ hq

/-- the invariant of dispatcher worlds -/
structure DInv (s : DState) : Prop where
  wf : RWF s.reg
  log : DState.LogInv s

theorem dinv_init : DInv DState.init := ⟨Registry.rwf_empty, DState.logInv_init⟩

theorem step_dinv (beh : Beh) {s : DState} (hs : DInv s) (op : Op) : DInv (step beh s op).1 := by
  cases op with
  | create p => exact ⟨by show RWF (s.create p).reg; rw [DState.create_reg]; exact Registry.rwf_create hs.wf p,
      DState.logInv_create hs.log p⟩
  | register p k h => exact ⟨Registry.rwf_register hs.wf p k h, DState.logInv_register hs.log p k h⟩
  | unregister p k h => exact ⟨Registry.rwf_unregister hs.wf p k h, DState.logInv_unregister hs.log p k h⟩
  | dispatch p k => exact ⟨dispatch_rwf beh hs.wf p k, dispatch_logInv beh hs.log p k⟩

theorem run_dinv (beh : Beh) {s : DState} (hs : DInv s) (ops : List Op) : DInv (run beh s ops).1 := by
  induction ops generalizing s with
  | nil => exact hs
  | cons op ops ih => exact ih (step_dinv beh hs op)

theorem step_other (beh : Beh) (s : DState) (op : Op) {q : Nat} (hq : q ≠ op.inst) :
    (step beh s op).1.reg q = s.reg q := by
  cases op with
  | create p => show (s.create p).reg q = s.reg q; rw [DState.create_reg]; exact Registry.create_other _ hq
  | register p k h => exact Registry.register_other _ k h hq
  | unregister p k h => exact Registry.unregister_other _ k h hq
  | dispatch p k => exact dispatch_other beh s k hq

end Disp

namespace Disp

/-- every record of a walk is what its callee produced in some state -/
theorem walk_mem {σ β : Type} (f : Entry → σ → σ × Ret × β) (intr : Bool) (es : List Entry) (s : σ) :
    ∀ c ∈ (walk f intr es s).2, ∃ s', c.ret = (f c.entry s').2.1 ∧ c.info = (f c.entry s').2.2 := by
  induction es generalizing s with
  | nil => intro c hc; simp [walk_nil] at hc
  | cons e es ih =>
    intro c hc
    rw [walk_cons] at hc
    split at hc
    · simp only [List.mem_singleton] at hc
      subst hc
      exact ⟨s, rfl, rfl⟩
    · rcases List.mem_cons.mp hc with rfl | hc
      · exact ⟨s, rfl, rfl⟩
      · exact ih _ c hc

/-- the recorded result of every invocation is the behaviour's result for that invocation number -/
theorem dispatch_truthful (beh : Beh) (s : DState) (p : Nat) (k : Kind) :
    ∀ c ∈ (dispatch beh s p k).2, c.ret = (beh (calleeOf p k c.entry) c.info.n).ret ∧
      c.info.rops.map (·.1) = (beh (calleeOf p k c.entry) c.info.n).ops := by
  intro c hc
  obtain ⟨s', h1, h2⟩ := walk_mem _ _ _ _ c hc
  rw [h1, h2]
  exact ⟨rfl, DState.applyROps_ops _ _ _⟩

/-- where the entries of the registration log come from -/
def LogFrom (P : Nat → Prop) (s : DState) : Prop := ∀ x ∈ s.regLog, P x.1

theorem logFrom_applyROps {P : Nat → Prop} {p : Nat} (hp : P p) {s : DState} (hs : LogFrom P s) (os : List ROp) :
    LogFrom P (s.applyROps p os).1 := by
  induction os generalizing s with
  | nil => exact hs
  | cons o os ih =>
    refine ih ?_
    cases o with
    | reg k h =>
      intro x hx
      simp only [DState.applyROp, DState.register] at hx
      split at hx
      · rcases List.mem_cons.mp hx with rfl | hx
        · exact hp
        · exact hs x hx
      · exact hs x hx
    | unreg k h => exact hs

theorem logFrom_dispatch {P : Nat → Prop} {p : Nat} (hp : P p) (beh : Beh) {s : DState} (hs : LogFrom P s)
    (k : Kind) : LogFrom P (dispatch beh s p k).1 :=
  walk_inv _ _ (LogFrom P) _ (fun e _ s hs => logFrom_applyROps hp (s := s.bump _) hs _) s hs

theorem logFrom_step {P : Nat → Prop} (beh : Beh) {s : DState} (hs : LogFrom P s) (op : Op) (hp : P op.inst) :
    LogFrom P (step beh s op).1 := by
  cases op with
  | create p => intro x hx; exact hs x (by rw [← DState.create_regLog s p]; exact hx)
  | register p k h =>
    intro x hx
    simp only [step, DState.register] at hx
    split at hx
    · rcases List.mem_cons.mp hx with rfl | hx
      · exact hp
      · exact hs x hx
    · exact hs x hx
  | unregister p k h => exact hs
  | dispatch p k => exact logFrom_dispatch hp beh hs k

theorem logFrom_run {P : Nat → Prop} (beh : Beh) {s : DState} (hs : LogFrom P s) (ops : List Op)
    (hp : ∀ op ∈ ops, P op.inst) : LogFrom P (run beh s ops).1 := by
  induction ops generalizing s with
  | nil => exact hs
  | cons op ops ih =>
    exact ih (logFrom_step beh hs op (hp op List.mem_cons_self)) (fun o ho => hp o (List.mem_cons_of_mem _ ho))

end Disp
