import GradysModel.Interop
/-
  Helper lemmas about running one program against the interop provider and against the python
  provider (GradysModel/Interop.lean).
-/
set_option linter.unusedSectionVars false

namespace Interop
variable {S σ : Type} [Scalar S]

/-! ### programs -/

/-- no `raise` node anywhere in the tree: the callback returns normally whatever is refused -/
inductive NeverRaises : XProg S σ → Prop
  | done (s : σ) : NeverRaises (.done s)
  | act (a : Act S) (k : Bool → XProg S σ) (h : ∀ b, NeverRaises (k b)) : NeverRaises (.act a k)

theorem neverRaises_ofProg (p : Prog S σ) : NeverRaises (XProg.ofProg p) := by
  induction p with
  | done s => exact .done s
  | req r k ih => exact .act _ _ ih

theorem neverRaises_ofList (s : σ) (as : List (Act S)) : NeverRaises (XProg.ofList s as) := by
  induction as with
  | nil => exact .done s
  | cons a as ih => exact .act _ _ (fun _ => ih)

theorem run_returns {ε : Type} (h : ε → Act S → ε × Bool) (p : XProg S σ) (hp : NeverRaises p) (e : ε) :
    (p.run h e).out.isReturned = true := by
  induction hp generalizing e with
  | done s => rfl
  | act a k _ ih => simp only [XProg.run]; exact ih _ _

/-- running `p` and then `f`: the transcripts follow one another; an exception escaping `p` ends it -/
theorem run_bind {α β ε : Type} (h : ε → Act S → ε × Bool) (p : XProg S α) (f : α → XProg S β) (g : α → β) (e : ε) :
    (XProg.bind p f g).run h e =
      match (p.run h e).out with
      | .returned a => ⟨((f a).run h (p.run h e).env).env, ((f a).run h (p.run h e).env).out,
                        (p.run h e).transcript ++ ((f a).run h (p.run h e).env).transcript⟩
      | .raised a => ⟨(p.run h e).env, .raised (g a), (p.run h e).transcript⟩ := by
  induction p generalizing e with
  | done a => simp [XProg.bind, XProg.run]
  | raise a => simp [XProg.bind, XProg.run]
  | act x k ih =>
    simp only [XProg.bind, XProg.run]
    rw [ih]
    cases hout : ((k (h e x).2).run h (h e x).1).out <;> simp

/-- `NeverRaises` for programs ending in any kind of value -/
inductive NeverRaises' {α : Type} : XProg S α → Prop
  | done (a : α) : NeverRaises' (.done a)
  | act (x : Act S) (k : Bool → XProg S α) (h : ∀ b, NeverRaises' (k b)) : NeverRaises' (.act x k)

theorem neverRaises_bind {α : Type} (p : XProg S α) (f : α → XProg S σ) (g : α → σ)
    (hp : NeverRaises' p) (hf : ∀ a, NeverRaises (f a)) : NeverRaises (XProg.bind p f g) := by
  induction hp with
  | done a => exact hf a
  | act x k _ ih => exact .act _ _ ih

theorem neverRaises_chainProg (own : σ → XProg S σ) (intr : Bool) (hs : List (σ → XProg S (σ × Bool)))
    (hown : ∀ s, NeverRaises (own s)) (hhs : ∀ h ∈ hs, ∀ s, NeverRaises' (h s)) (s : σ) :
    NeverRaises (chainProg own intr hs s) := by
  induction hs generalizing s with
  | nil => exact hown s
  | cons h hs ih =>
    simp only [chainProg]
    refine neverRaises_bind _ _ _ (hhs h (List.mem_cons_self ..) s) (fun r => ?_)
    split
    · exact .done _
    · exact ih (fun h' hh' => hhs h' (List.mem_cons_of_mem _ hh')) _

theorem bind_ofList {α β : Type} (a : α) (as : List (Act S)) (f : α → XProg S β) (g : α → β) (b : β)
    (bs : List (Act S)) (hf : f a = XProg.ofList b bs) :
    XProg.bind (XProg.ofList a as) f g = XProg.ofList b (as ++ bs) := by
  induction as with
  | nil => simpa [XProg.ofList, XProg.bind] using hf
  | cons x as ih =>
    simp only [XProg.ofList, XProg.bind, List.cons_append]
    congr 1
    funext _
    exact ih

/-- a chain of acceptance-independent handlers is one acceptance-independent program -/
theorem chainProg_ofList (ownNext : σ → σ) (ownActs : σ → List (Act S)) (intr : Bool)
    (hs : List (σ → (σ × Bool) × List (Act S))) (s : σ) :
    chainProg (fun s' => XProg.ofList (ownNext s') (ownActs s')) intr
        (hs.map (fun h s' => XProg.ofList (h s').1 (h s').2)) s =
      XProg.ofList (chainL ownNext ownActs intr hs s).1 (chainL ownNext ownActs intr hs s).2 := by
  induction hs generalizing s with
  | nil => rfl
  | cons h hs ih =>
    simp only [List.map_cons, chainProg, chainL]
    by_cases hc : (intr && (h s).1.2) = true
    · rw [if_pos hc]
      have := bind_ofList (S := S) (h s).1 (h s).2
        (fun r => if (intr && r.2) = true then XProg.done r.1
          else chainProg (fun s' => XProg.ofList (ownNext s') (ownActs s')) intr
            (hs.map (fun h s' => XProg.ofList (h s').1 (h s').2)) r.1) (·.1) (h s).1.1 [] (by simp [hc, XProg.ofList])
      simpa using this
    · rw [if_neg hc]
      exact bind_ofList (S := S) (h s).1 (h s).2 _ (·.1) _ _ (by simp only [hc]; exact ih _)

theorem plugged_toX (P : LProto S σ) (on : σ → Bool) (chain : List (LStage S σ)) :
    (P.plugged on chain).toX = P.toX.plugged on (chain.map LStage.toStage) := by
  simp only [LProto.toX, XProto.plugged, LProto.plugged, XProto.mk.injEq, true_and]
  funext s n t cb
  by_cases h : on s = true
  · simp only [h, if_true, List.map_map]
    have := chainProg_ofList (S := S) (fun s' => P.next s' n t cb) (fun s' => P.acts s' n t cb) (interruptible cb)
      (chain.map (fun h s' => ((h.next s' n t cb, h.stop s' n t cb), h.acts s' n t cb))) s
    rw [← this, List.map_map]
    rfl
  · simp [h]

/-! ### the interop provider -/

theorem issued_nil : issued ([] : List (Act S × Bool)) = [] := rfl

theorem issued_cons (a : Act S) (b : Bool) (tr : List (Act S × Bool)) :
    issued ((a, b) :: tr) = issued [(a, b)] ++ issued tr := by
  simp only [issued, List.filterMap_cons, List.filterMap_nil]
  split <;> simp

theorem issued_append (t1 t2 : List (Act S × Bool)) : issued (t1 ++ t2) = issued t1 ++ issued t2 := by
  simp [issued, List.filterMap_append]

/-- a call the interop provider refuses would not have produced a consequence anyway -/
theorem consequenceOf_of_refused (a : Act S) (h : iAccepts a = false) : consequenceOf a = none := by
  cases a with
  | req r => cases r <;> simp_all [iAccepts, consequenceOf]
  | track k v => simp [iAccepts] at h
  | ext c => rfl

theorem iHandle_spec (p : IProv S) (a : Act S) :
    (iHandle p a).1.consequences = p.consequences ++ issued [(a, (iHandle p a).2)] ∧
    (iHandle p a).1.timestamp = p.timestamp ∧ (iHandle p a).1.id = p.id ∧
    (iHandle p a).2 = iAccepts a := by
  unfold iHandle
  split
  · rename_i h
    split <;> simp_all [issued]
  · rename_i h
    simp_all [issued]

/-- running any program: the pending list grows by exactly the consequences of the accepted
    calls of the transcript, in order; timestamp and id are untouched -/
theorem irun_prog_spec (p : XProg S σ) (st : IProv S) :
    (p.run iHandle st).env.consequences = st.consequences ++ issued (p.run iHandle st).transcript ∧
    (p.run iHandle st).env.timestamp = st.timestamp ∧ (p.run iHandle st).env.id = st.id := by
  induction p generalizing st with
  | done s => simp [XProg.run, issued]
  | raise s => simp [XProg.run, issued]
  | act a k ih =>
    simp only [XProg.run]
    have h := iHandle_spec st a
    have h2 := ih (iHandle st a).2 (iHandle st a).1
    refine ⟨?_, ?_, ?_⟩
    · rw [h2.1, h.1, List.append_assoc]
      congr 1
      exact (issued_cons _ _ _).symm
    · rw [h2.2.1, h.2.1]
    · rw [h2.2.2, h.2.2.1]

/-- the transcript's ok-flags under interop are `iAccepts` -/
theorem irun_prog_flags (p : XProg S σ) (st : IProv S) :
    ∀ x ∈ (p.run iHandle st).transcript, x.2 = iAccepts x.1 := by
  induction p generalizing st with
  | done s => simp [XProg.run]
  | raise s => simp [XProg.run]
  | act a k ih =>
    simp only [XProg.run, List.mem_cons]
    rintro x (rfl | hx)
    · exact (iHandle_spec st a).2.2.2
    · exact ih _ _ x hx

/-- under interop the issued consequences are those of ALL performed actions: refused ones have none -/
theorem issued_eq_filterMap (tr : List (Act S × Bool)) (h : ∀ x ∈ tr, x.2 = iAccepts x.1) :
    issued tr = (tr.map Prod.fst).filterMap consequenceOf := by
  induction tr with
  | nil => rfl
  | cons x tr ih =>
    obtain ⟨a, b⟩ := x
    have hb : b = iAccepts a := h (a, b) (List.mem_cons_self ..)
    have ih' := ih (fun y hy => h y (List.mem_cons_of_mem _ hy))
    rw [issued_cons, ih']
    simp only [List.map_cons, List.filterMap_cons]
    cases hacc : iAccepts a
    · rw [consequenceOf_of_refused a hacc]
      simp [issued, hb, hacc]
    · cases hc : consequenceOf a <;> simp [issued, hb, hacc, hc]

/-! ### one interop callback -/

theorem icallbackRun_spec (P : XProto S σ) (w : IW S σ) (t : Int) (cb : Callback S) :
    (icallbackRun P w t cb).env.consequences =
      w.prov.consequences ++ issued (icallbackRun P w t cb).transcript ∧
    (icallbackRun P w t cb).env.id = w.prov.id :=
  let sp := irun_prog_spec (P.react w.pstate w.prov.id t cb) { w.prov with timestamp := t }
  ⟨sp.1, sp.2.2⟩

theorem icallback_transcript (P : XProto S σ) (w : IW S σ) (t : Int) (cb : Callback S) :
    (icallback P w t cb).2.transcript = (icallbackRun P w t cb).transcript ∧
    (icallback P w t cb).1.pstate = (icallbackRun P w t cb).out.state ∧
    (icallback P w t cb).1.prov.id = w.prov.id ∧
    ((icallback P w t cb).2.ret ≠ none ↔ (icallbackRun P w t cb).out.isReturned = true) := by
  have sp := icallbackRun_spec P w t cb
  unfold icallback icollect
  cases h : (icallbackRun P w t cb).out <;> simp [Outcome.state, Outcome.isReturned, sp.2]

theorem icallback_returned (P : XProto S σ) (w : IW S σ) (t : Int) (cb : Callback S)
    (L : List (Consequence S)) (h : (icallback P w t cb).2.ret = some L) :
    L = w.prov.consequences ++ issued (icallback P w t cb).2.transcript ∧
    (icallback P w t cb).1.prov.consequences = [] := by
  have sp := icallbackRun_spec P w t cb
  unfold icallback icollect at h ⊢
  cases hr : (icallbackRun P w t cb).out <;> simp only [hr] at h ⊢
  · simp only [Option.some.injEq] at h
    exact ⟨by rw [← h]; exact sp.1, trivial⟩
  · simp at h

theorem icallback_raised (P : XProto S σ) (w : IW S σ) (t : Int) (cb : Callback S)
    (h : (icallback P w t cb).2.ret = none) :
    (icallback P w t cb).1.prov.consequences =
      w.prov.consequences ++ issued (icallback P w t cb).2.transcript := by
  have sp := icallbackRun_spec P w t cb
  unfold icallback icollect at h ⊢
  cases hr : (icallbackRun P w t cb).out <;> simp only [hr] at h ⊢
  · simp at h
  · exact sp.1

/-! ### the python provider -/

/-- the requests of an action list that go through `PythonProvider`, with their handler -/
def provReqs (as : List (Act S)) : List (Handler × Request S) :=
  as.filterMap (fun a => match a with
    | .req r => (route r).map (fun h => (h, r))
    | _ => none)

theorem provReqs_cons (a : Act S) (as : List (Act S)) : provReqs (a :: as) = provReqs [a] ++ provReqs as := by
  simp only [provReqs, List.filterMap_cons, List.filterMap_nil]
  split <;> simp

theorem provReqs_append (a b : List (Act S)) : provReqs (a ++ b) = provReqs a ++ provReqs b := by
  simp [provReqs, List.filterMap_append]

theorem pHandle_spec (acc : PProv S → Act S → Bool) (p : PProv S) (a : Act S) :
    (pHandle acc p a).1.log = p.log ++ provReqs [a] ∧ (pHandle acc p a).1.now = p.now ∧
    (pHandle acc p a).1.id = p.id := by
  cases a with
  | req r =>
    simp only [pHandle, provReqs, List.filterMap_cons, List.filterMap_nil]
    cases hr : route r <;> simp
  | track k v => simp [pHandle, provReqs]
  | ext c => simp [pHandle, provReqs]

/-- running any program against the python provider: the forwarding log grows by exactly the
    provider requests of the transcript, in order, whatever the handlers accept -/
theorem prun_prog_spec (acc : PProv S → Act S → Bool) (p : XProg S σ) (st : PProv S) :
    (p.run (pHandle acc) st).env.log = st.log ++ provReqs ((p.run (pHandle acc) st).transcript.map Prod.fst) ∧
    (p.run (pHandle acc) st).env.now = st.now ∧ (p.run (pHandle acc) st).env.id = st.id := by
  induction p generalizing st with
  | done s => simp [XProg.run, provReqs]
  | raise s => simp [XProg.run, provReqs]
  | act a k ih =>
    simp only [XProg.run, List.map_cons]
    have h := pHandle_spec acc st a
    have h2 := ih (pHandle acc st a).2 (pHandle acc st a).1
    refine ⟨?_, ?_, ?_⟩
    · rw [h2.1, h.1, List.append_assoc]
      congr 1
      exact (provReqs_cons _ _).symm
    · rw [h2.2.1, h.2.1]
    · rw [h2.2.2, h.2.2]

/-! ### both environments on the same program -/

/-- a program whose continuation ignores acceptance performs the same actions in every environment -/
theorem ofList_run {ε : Type} (h : ε → Act S → ε × Bool) (s : σ) (as : List (Act S)) (e : ε) :
    ((XProg.ofList s as).run h e).transcript.map Prod.fst = as ∧
    ((XProg.ofList s as).run h e).out = .returned s := by
  induction as generalizing e with
  | nil => simp [XProg.ofList, XProg.run]
  | cons a as ih =>
    simp only [XProg.ofList, XProg.run, List.map_cons]
    exact ⟨by rw [(ih _).1], (ih _).2⟩

/-- two environments that both accept everything the program asks drive it down the same path -/
theorem run_lockstep {ε₁ ε₂ : Type} (h₁ : ε₁ → Act S → ε₁ × Bool) (h₂ : ε₂ → Act S → ε₂ × Bool)
    (p : XProg S σ) (e₁ : ε₁) (e₂ : ε₂)
    (a₁ : ∀ x ∈ (p.run h₁ e₁).transcript, x.2 = true) (a₂ : ∀ x ∈ (p.run h₂ e₂).transcript, x.2 = true) :
    (p.run h₁ e₁).transcript = (p.run h₂ e₂).transcript ∧ (p.run h₁ e₁).out = (p.run h₂ e₂).out := by
  induction p generalizing e₁ e₂ with
  | done s => simp [XProg.run]
  | raise s => simp [XProg.run]
  | act a k ih =>
    simp only [XProg.run] at a₁ a₂ ⊢
    have b₁ : (h₁ e₁ a).2 = true := a₁ (a, (h₁ e₁ a).2) (List.mem_cons_self ..)
    have b₂ : (h₂ e₂ a).2 = true := a₂ (a, (h₂ e₂ a).2) (List.mem_cons_self ..)
    have t₁ := fun x hx => a₁ x (List.mem_cons_of_mem _ hx)
    have t₂ := fun x hx => a₂ x (List.mem_cons_of_mem _ hx)
    rw [b₁] at t₁ ⊢
    rw [b₂] at t₂ ⊢
    have := ih true (h₁ e₁ a).1 (h₂ e₂ a).1 t₁ t₂
    exact ⟨by rw [this.1], this.2⟩

/-- request by request: what python forwards (cancelTimer apart, which has no interop counterpart)
    is what interop records (tracked-variable writes apart, which python keeps in a dict) -/
theorem provReqs_consequences (as : List (Act S)) :
    (provReqs as).filterMap fwdConsequence = (as.filterMap consequenceOf).filter (fun c => !isTrack c) := by
  induction as with
  | nil => rfl
  | cons a as ih =>
    rw [provReqs_cons, List.filterMap_append, ih, List.filterMap_cons]
    cases a with
    | req r => cases r <;> simp [provReqs, route, fwdConsequence, consequenceOf, isTrack]
    | track k v => simp [provReqs, consequenceOf, isTrack]
    | ext c => simp [provReqs, consequenceOf]

/-- is the action a `cancel_timer` call -/
def isCancel : Act S → Bool
  | .req (.cancelTimer _) => true
  | _ => false

/-- without `cancel_timer`, every forwarded request has exactly one consequence -/
theorem fwdConsequence_isSome (as : List (Act S)) (h : ∀ a ∈ as, isCancel a = false) :
    ∀ x ∈ provReqs as, (fwdConsequence x).isSome = true := by
  intro x hx
  simp only [provReqs, List.mem_filterMap] at hx
  obtain ⟨a, ha, hax⟩ := hx
  have hc := h a ha
  cases a with
  | req r =>
    cases r <;> simp_all [route, isCancel, fwdConsequence, consequenceOf] <;> subst hax <;> rfl
  | track k v => simp at hax
  | ext c => simp at hax

/-! ### several wrapped instances in one process -/

/-- what instance `k` returns, and the state it ends in, is what it would return and end in when
    driven alone through the callbacks addressed to it: the other instances do not matter -/
theorem runMulti_proj {W R C : Type} (step : W → C → W × R) (ws : Nat → W) (steps : List (Nat × C)) (k : Nat) :
    resultsOf k (runMulti step ws steps).2 = (runSeq step (ws k) (stepsOf k steps)).2 ∧
    (runMulti step ws steps).1 k = (runSeq step (ws k) (stepsOf k steps)).1 := by
  induction steps generalizing ws with
  | nil => exact ⟨rfl, rfl⟩
  | cons st rest ih =>
    obtain ⟨j, c⟩ := st
    have ih' := ih (fun i => if i = j then (step (ws j) c).1 else ws i)
    by_cases h : j = k
    · subst h
      simp only [if_true] at ih'
      simp only [runMulti, resultsOf, stepsOf, List.filter_cons, beq_self_eq_true, if_true,
        List.map_cons, runSeq] at ih' ⊢
      exact ⟨by rw [ih'.1], ih'.2⟩
    · have hb : (j == k) = false := by simpa using h
      have hk : (if k = j then (step (ws j) c).1 else ws k) = ws k := by
        rw [if_neg (fun e => h e.symm)]
      simp only [hk] at ih'
      simp only [runMulti, resultsOf, stepsOf, List.filter_cons, hb] at ih' ⊢
      exact ih'

theorem irun_eq_runSeq (P : XProto S σ) (w : IW S σ) (steps : List (Int × Callback S)) :
    irun P w steps = runSeq (istep P) w steps := by
  induction steps generalizing w with
  | nil => rfl
  | cons st rest ih =>
    obtain ⟨t, cb⟩ := st
    simp only [irun, runSeq, istep, ih]

theorem prun_eq_runSeq (acc : PProv S → Act S → Bool) (P : XProto S σ) (w : PW S σ)
    (steps : List (Int × Callback S)) : prun acc P w steps = runSeq (pstep acc P) w steps := by
  induction steps generalizing w with
  | nil => rfl
  | cons st rest ih =>
    obtain ⟨t, cb⟩ := st
    simp only [prun, runSeq, pstep, ih]

end Interop
