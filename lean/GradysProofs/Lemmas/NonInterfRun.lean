import GradysProofs.Lemmas.NonInterfStep
/-
  Event-level runs without bounds, the visible-event count, and the unwinding induction of C13:
  the view of the nodes other than `x` is a function of the number of executed events that are not
  owned by `x`.
-/
set_option linter.unusedSectionVars false

namespace Sim
variable {S σ : Type} [Scalar S]

/-- pop and execute the next event, if any: `step_simulation` without the termination tests -/
def evStep (cfg : Config S) (P : NodeId → Proto S σ) (w : World S σ) : World S σ :=
  match w.loop.queue with
  | [] => w
  | e :: rest => execStep cfg P e rest w

/-- `k` event-level steps -/
def evSteps (cfg : Config S) (P : NodeId → Proto S σ) : Nat → World S σ → World S σ
  | 0, w => w
  | k + 1, w => evStep cfg P (evSteps cfg P k w)

/-- the world after `build()` and `_initialize_simulation()` -/
def start0 (cfg : Config S) (P : NodeId → Proto S σ) : World S σ := initialise cfg P (init cfg P)

/-- number of executed events that are not owned by `x` -/
def visCount (x : NodeId) (w : World S σ) : Nat :=
  (w.rexecuted.filter (fun e => !xowned x e.kind)).length

/-! ### invariant and monotonicity along event-level runs -/

theorem start0_inv (cfg : Config S) (hdt : 0 ≤ cfg.dt) (P : NodeId → Proto S σ) :
    WInv (start0 cfg P) := (initialise_inv cfg P _ (init_inv cfg P hdt)).1

theorem init_rexecuted (cfg : Config S) (P : NodeId → Proto S σ) : (init cfg P).rexecuted = [] := by
  rw [init_eq]; split <;> rfl

theorem start0_visCount (cfg : Config S) (hdt : 0 ≤ cfg.dt) (P : NodeId → Proto S σ) (x : NodeId) :
    visCount x (start0 cfg P) = 0 := by
  unfold visCount start0
  rw [(initialise_inv cfg P _ (init_inv cfg P hdt)).2.2, init_rexecuted]; rfl

theorem evStep_inv (cfg : Config S) (hdt : 0 ≤ cfg.dt) (P : NodeId → Proto S σ) {w : World S σ}
    (h : WInv w) : WInv (evStep cfg P w) := by
  unfold evStep
  split
  · exact h
  · rename_i e rest hq
    exact (execStep_inv cfg hdt P h hq).1

theorem evSteps_inv (cfg : Config S) (hdt : 0 ≤ cfg.dt) (P : NodeId → Proto S σ) (k : Nat)
    {w : World S σ} (h : WInv w) : WInv (evSteps cfg P k w) := by
  induction k with
  | zero => exact h
  | succ k ih => exact evStep_inv cfg hdt P ih

/-- one executed event only appends to the trace -/
theorem execStep_rtrace (cfg : Config S) (hdt : 0 ≤ cfg.dt) (P : NodeId → Proto S σ)
    (e : Ev (EvKind S)) (rest : List (Ev (EvKind S))) (w : World S σ) :
    ∃ l, (execStep cfg P e rest w).rtrace = l ++ w.rtrace := by
  rw [execStep_eq]
  simp only
  have e1 := (ext_execEv cfg hdt P e (popped e rest w)).trans
    (ext_logAll cfg (fun h => Obs.afterStep h (execEv cfg P e (popped e rest w)).iter e.ts)
      (by intro h n cb t e; cases e) cfg.handlers _)
  obtain ⟨l, hl, _⟩ := e1.trace_ext
  exact ⟨l, hl⟩

theorem evStep_rtrace (cfg : Config S) (hdt : 0 ≤ cfg.dt) (P : NodeId → Proto S σ) (w : World S σ) :
    w.rtrace <:+ (evStep cfg P w).rtrace := by
  unfold evStep
  split
  · exact List.suffix_refl _
  · obtain ⟨l, hl⟩ := execStep_rtrace cfg hdt P _ _ w
    exact ⟨l, hl.symm⟩

/-- the projected trace only grows along a run -/
theorem ptrace_mono (cfg : Config S) (hdt : 0 ≤ cfg.dt) (P : NodeId → Proto S σ) (x : NodeId)
    (w : World S σ) {k' k : Nat} (hk : k' ≤ k) :
    ptrace x (evSteps cfg P k' w) <+: ptrace x (evSteps cfg P k w) := by
  induction hk with
  | refl => exact List.prefix_refl _
  | step _ ih =>
    refine List.IsPrefix.trans ih ?_
    unfold ptrace
    exact List.reverse_prefix.mpr (List.IsSuffix.filter _ (evStep_rtrace cfg hdt P _))

/-! ### one event-level step: hidden or visible -/

theorem hid_logAll (x : NodeId) (f : String → Obs S) (hf : ∀ h, Obs.vis x (f h) = false)
    (hs : List String) (w : World S σ) : Hid x w (logAll f hs w) := by
  unfold logAll
  induction hs generalizing w with
  | nil => exact Hid.refl x w
  | cons h hs ih => exact (hid_log x (f h) (hf h) w).trans (ih _)

/-- the after-step fan-out and the iteration counter are outside the view (finding F13) -/
theorem hid_afterStep (x : NodeId) (hs : List String) (i : Nat) (ts : Int) (w : World S σ) :
    Hid x w { logAll (fun h => Obs.afterStep h i ts) hs w with
      iter := (logAll (fun h => Obs.afterStep h i ts) hs w).iter + 1 } := by
  refine (hid_logAll x (fun h => Obs.afterStep h i ts) (fun _ => rfl) hs w).trans ?_
  exact ⟨⟨rfl, rfl, fun _ _ => rfl, fun _ _ => rfl, fun _ _ => rfl, fun _ _ => rfl, fun _ _ => rfl,
    fun _ _ => rfl, rfl, rfl⟩, rfl, id⟩

/-- a whole step on an event owned by the silent node `x` leaves the view unchanged -/
theorem viewEq_execStep_owned (cfg : Config S) (P : NodeId → Proto S σ) (x : NodeId)
    (hs : Silent x P) (e : Ev (EvKind S)) (rest : List (Ev (EvKind S))) (w : World S σ)
    (hq : w.loop.queue = e :: rest) (he : xowned x e.kind = true) :
    ViewEq x w (execStep cfg P e rest w) := by
  rw [execStep_eq]
  exact (U1 cfg P x hs e rest w hq he).trans (hid_afterStep x _ _ _ _).view

/-- a whole step on the same visible event in two worlds with equal views -/
theorem viewEq_execStep_other (cfg : Config S) (P₁ P₂ : NodeId → Proto S σ) (x : NodeId)
    (hP : ∀ n, n ≠ x → P₁ n = P₂ n) (e₁ e₂ : Ev (EvKind S)) (rest₁ rest₂ : List (Ev (EvKind S)))
    (w₁ w₂ : World S σ) (hv : ViewEq x w₁ w₂)
    (hq₁ : w₁.loop.queue = e₁ :: rest₁) (hq₂ : w₂.loop.queue = e₂ :: rest₂)
    (hs₁ : SortedTs w₁.loop.queue) (hs₂ : SortedTs w₂.loop.queue)
    (he₁ : xowned x e₁.kind = false) (he₂ : xowned x e₂.kind = false) :
    ViewEq x (execStep cfg P₁ e₁ rest₁ w₁) (execStep cfg P₂ e₂ rest₂ w₂) := by
  have hq := hv.queue
  rw [hq₁, hq₂, qview_cons_other x e₁ rest₁ he₁, qview_cons_other x e₂ rest₂ he₂] at hq
  have hhead : (e₁.ts, e₁.kind) = (e₂.ts, e₂.kind) := (List.cons.inj hq).1
  have hts : e₁.ts = e₂.ts := congrArg Prod.fst hhead
  have hkind : e₁.kind = e₂.kind := congrArg Prod.snd hhead
  have hc : Cong x (popped e₁ rest₁ w₁) (popped e₂ rest₂ w₂) :=
    ⟨⟨(List.cons.inj hq).2, hv.pending, hv.nextTimer, hv.range, hv.pos, hv.target, hv.speed,
      hv.pstate, hv.drawIdx, hv.trace⟩, hts, (hq₁ ▸ hs₁).tail, (hq₂ ▸ hs₂).tail⟩
  have hc2 := cong_execEv cfg P₁ P₂ hP e₁ e₂ hkind he₁ hc
  rw [execStep_eq, execStep_eq]
  exact (hc2.hid (hid_afterStep x _ _ _ _) (hid_afterStep x _ _ _ _)).view

/-- what one event-level step does to the view of the others and to the visible count -/
theorem evStep_cases (cfg : Config S) (hdt : 0 ≤ cfg.dt) (P : NodeId → Proto S σ) (x : NodeId)
    (hs : Silent x P) (w : World S σ) (hw : WInv w) :
    (ViewEq x w (evStep cfg P w) ∧ visCount x (evStep cfg P w) = visCount x w) ∨
    (∃ e rest, w.loop.queue = e :: rest ∧ xowned x e.kind = false ∧
      evStep cfg P w = execStep cfg P e rest w ∧ visCount x (evStep cfg P w) = visCount x w + 1) := by
  cases hq : w.loop.queue with
  | nil =>
    left
    have : evStep cfg P w = w := by unfold evStep; rw [hq]
    rw [this]
    exact ⟨ViewEq.refl x w, rfl⟩
  | cons e rest =>
    have hstep : evStep cfg P w = execStep cfg P e rest w := by unfold evStep; rw [hq]
    have hex := (execStep_inv cfg hdt P hw hq).2.2
    cases he : xowned x e.kind
    · right
      refine ⟨e, rest, rfl, he, hstep, ?_⟩
      rw [hstep]
      unfold visCount
      rw [hex, List.filter_cons]
      simp [he]
    · left
      rw [hstep]
      refine ⟨viewEq_execStep_owned cfg P x hs e rest w hq he, ?_⟩
      unfold visCount
      rw [hex, List.filter_cons]
      simp [he]

/-! ### the initial worlds -/

theorem cong_init0 (cfg : Config S) (P₁ P₂ : NodeId → Proto S σ) (x : NodeId)
    (hP : ∀ n, n ≠ x → P₁ n = P₂ n) : Cong x (init0 cfg P₁) (init0 cfg P₂) :=
  ⟨⟨rfl, rfl, fun _ _ => rfl, fun _ _ => rfl, fun _ _ => rfl, fun _ _ => rfl, fun _ _ => rfl,
    fun n hn => by show (P₁ n).init = (P₂ n).init; rw [hP n hn], rfl, rfl⟩, rfl,
    List.Pairwise.nil, List.Pairwise.nil⟩

theorem cong_init (cfg : Config S) (P₁ P₂ : NodeId → Proto S σ) (x : NodeId)
    (hP : ∀ n, n ≠ x → P₁ n = P₂ n) : Cong x (init cfg P₁) (init cfg P₂) := by
  rw [init_eq, init_eq]
  split
  · exact cong_sched (cong_init0 cfg P₁ P₂ x hP) _ _
  · exact cong_init0 cfg P₁ P₂ x hP

/-- initialisation: handler logs are outside the view, the `initialize` callbacks of the others are
    congruent, that of `x` is invisible; the first mobility tick is scheduled identically -/
theorem cong_start0 (cfg : Config S) (P₁ P₂ : NodeId → Proto S σ) (x : NodeId)
    (hs₁ : Silent x P₁) (hs₂ : Silent x P₂) (hP : ∀ n, n ≠ x → P₁ n = P₂ n) :
    Cong x (start0 cfg P₁) (start0 cfg P₂) := by
  unfold start0 initialise
  simp only
  apply cong_callbackAll cfg P₁ P₂ hs₁ hs₂ hP
  have h0 := cong_init cfg P₁ P₂ x hP
  have h1 : Cong x { init cfg P₁ with initialized := true } { init cfg P₂ with initialized := true } :=
    ⟨⟨h0.view.queue, h0.view.pending, h0.view.nextTimer, h0.view.range, h0.view.pos, h0.view.target,
      h0.view.speed, h0.view.pstate, h0.view.drawIdx, h0.view.trace⟩, h0.now, h0.s₁, h0.s₂⟩
  exact h1.hid (hid_logAll x _ (fun _ => rfl) _ _) (hid_logAll x _ (fun _ => rfl) _ _)

/-! ### the unwinding induction -/

/-- MAIN LEMMA: after any numbers of event-level steps of the two runs, equal counts of executed
    visible events imply equal views -/
theorem view_of_visCount (cfg : Config S) (hdt : 0 ≤ cfg.dt) (P₁ P₂ : NodeId → Proto S σ)
    (x : NodeId) (hs₁ : Silent x P₁) (hs₂ : Silent x P₂) (hP : ∀ n, n ≠ x → P₁ n = P₂ n) :
    ∀ (n k₁ k₂ : Nat), k₁ + k₂ ≤ n →
      visCount x (evSteps cfg P₁ k₁ (start0 cfg P₁)) = visCount x (evSteps cfg P₂ k₂ (start0 cfg P₂)) →
      ViewEq x (evSteps cfg P₁ k₁ (start0 cfg P₁)) (evSteps cfg P₂ k₂ (start0 cfg P₂)) := by
  have hbase : ViewEq x (start0 cfg P₁) (start0 cfg P₂) := (cong_start0 cfg P₁ P₂ x hs₁ hs₂ hP).view
  have hI₁ : ∀ k, WInv (evSteps cfg P₁ k (start0 cfg P₁)) :=
    fun k => evSteps_inv cfg hdt P₁ k (start0_inv cfg hdt P₁)
  have hI₂ : ∀ k, WInv (evSteps cfg P₂ k (start0 cfg P₂)) :=
    fun k => evSteps_inv cfg hdt P₂ k (start0_inv cfg hdt P₂)
  intro n
  induction n with
  | zero =>
    intro k₁ k₂ hle _
    have h1 : k₁ = 0 := by omega
    have h2 : k₂ = 0 := by omega
    subst h1 h2
    exact hbase
  | succ n ih =>
    intro k₁ k₂ hle hv
    cases k₁ with
    | zero =>
      cases k₂ with
      | zero => exact hbase
      | succ k₂ =>
        rcases evStep_cases cfg hdt P₂ x hs₂ _ (hI₂ k₂) with ⟨hview, hcnt⟩ | ⟨e, rest, _, _, _, hcnt⟩
        · have := ih 0 k₂ (by omega) (by rw [hv]; exact hcnt)
          exact this.trans hview
        · exfalso
          have h0 : visCount x (evSteps cfg P₁ 0 (start0 cfg P₁)) = 0 := start0_visCount cfg hdt P₁ x
          have : visCount x (evSteps cfg P₂ (k₂ + 1) (start0 cfg P₂)) =
              visCount x (evSteps cfg P₂ k₂ (start0 cfg P₂)) + 1 := hcnt
          omega
    | succ k₁ =>
      rcases evStep_cases cfg hdt P₁ x hs₁ _ (hI₁ k₁) with ⟨hview₁, hcnt₁⟩ | ⟨e₁, rest₁, hq₁, he₁, hstep₁, hcnt₁⟩
      · have := ih k₁ k₂ (by omega) (by rw [← hv]; exact hcnt₁.symm)
        exact hview₁.symm.trans this
      · cases k₂ with
        | zero =>
          exfalso
          have h0 : visCount x (evSteps cfg P₂ 0 (start0 cfg P₂)) = 0 := start0_visCount cfg hdt P₂ x
          have : visCount x (evSteps cfg P₁ (k₁ + 1) (start0 cfg P₁)) =
              visCount x (evSteps cfg P₁ k₁ (start0 cfg P₁)) + 1 := hcnt₁
          omega
        | succ k₂ =>
          rcases evStep_cases cfg hdt P₂ x hs₂ _ (hI₂ k₂) with ⟨hview₂, hcnt₂⟩ | ⟨e₂, rest₂, hq₂, he₂, hstep₂, hcnt₂⟩
          · have := ih (k₁ + 1) k₂ (by omega) (by rw [hv]; exact hcnt₂)
            exact this.trans hview₂
          · have hc₁ : visCount x (evSteps cfg P₁ (k₁ + 1) (start0 cfg P₁)) =
                visCount x (evSteps cfg P₁ k₁ (start0 cfg P₁)) + 1 := hcnt₁
            have hc₂ : visCount x (evSteps cfg P₂ (k₂ + 1) (start0 cfg P₂)) =
                visCount x (evSteps cfg P₂ k₂ (start0 cfg P₂)) + 1 := hcnt₂
            have hprev := ih k₁ k₂ (by omega) (by omega)
            show ViewEq x (evStep cfg P₁ _) (evStep cfg P₂ _)
            rw [hstep₁, hstep₂]
            exact viewEq_execStep_other cfg P₁ P₂ x hP e₁ e₂ rest₁ rest₂ _ _ hprev hq₁ hq₂
              (sortedTs_of_keyLt (hI₁ k₁).sorted) (sortedTs_of_keyLt (hI₂ k₂).sorted) he₁ he₂

/-- the visible count moves by at most one per step, so every smaller count was passed through -/
theorem visCount_reached (cfg : Config S) (hdt : 0 ≤ cfg.dt) (P : NodeId → Proto S σ) (x : NodeId)
    (hs : Silent x P) (k c : Nat) (hc : c ≤ visCount x (evSteps cfg P k (start0 cfg P))) :
    ∃ k', k' ≤ k ∧ visCount x (evSteps cfg P k' (start0 cfg P)) = c := by
  induction k with
  | zero =>
    have h0 : visCount x (evSteps cfg P 0 (start0 cfg P)) = 0 := start0_visCount cfg hdt P x
    exact ⟨0, Nat.le_refl _, by omega⟩
  | succ k ih =>
    have hI := evSteps_inv cfg hdt P k (start0_inv cfg hdt P)
    by_cases hle : c ≤ visCount x (evSteps cfg P k (start0 cfg P))
    · obtain ⟨k', hk', h⟩ := ih hle
      exact ⟨k', by omega, h⟩
    · refine ⟨k + 1, Nat.le_refl _, ?_⟩
      rcases evStep_cases cfg hdt P x hs _ hI with ⟨_, hcnt⟩ | ⟨_, _, _, _, _, hcnt⟩
      · have : visCount x (evSteps cfg P (k + 1) (start0 cfg P)) =
            visCount x (evSteps cfg P k (start0 cfg P)) := hcnt
        omega
      · have : visCount x (evSteps cfg P (k + 1) (start0 cfg P)) =
            visCount x (evSteps cfg P k (start0 cfg P)) + 1 := hcnt
        omega

/-! ### event-level runs are the runs of `step_simulation` while no bound is hit -/

theorem isDone_unbounded (cfg : Config S) (hd : cfg.duration = none) (hm : cfg.maxIter = none)
    (w : World S σ) (hq : w.loop.queue ≠ []) : isDone cfg w = false := by
  unfold isDone
  cases h : w.loop.queue with
  | nil => exact absurd h hq
  | cons e rest => simp [hd, hm]

theorem step_unbounded (cfg : Config S) (hd : cfg.duration = none) (hm : cfg.maxIter = none)
    (P : NodeId → Proto S σ) (w : World S σ) (hf : w.finalized = false)
    (hq : (prep cfg P w).loop.queue ≠ []) (hq' : (evStep cfg P (prep cfg P w)).loop.queue ≠ []) :
    (step cfg P w).1 = evStep cfg P (prep cfg P w) := by
  rw [step_eq cfg P w hf, if_neg (by rw [isDone_unbounded cfg hd hm _ hq]; simp)]
  unfold evStep at hq' ⊢
  cases h : (prep cfg P w).loop.queue with
  | nil => exact absurd h hq
  | cons e rest =>
    rw [h] at hq'
    simp only at hq' ⊢
    rw [if_neg (by rw [isDone_unbounded cfg hd hm _ hq']; simp)]

theorem init_flags (cfg : Config S) (P : NodeId → Proto S σ) :
    (init cfg P).initialized = false ∧ (init cfg P).finalized = false := by
  rw [init_eq]; split <;> exact ⟨rfl, rfl⟩

theorem start0_flags (cfg : Config S) (P : NodeId → Proto S σ) :
    (start0 cfg P).initialized = true ∧ (start0 cfg P).finalized = false := by
  unfold start0 initialise
  simp only
  have e := (ext_logAll cfg Obs.handlerInit (by intro h n cb t e; cases e) cfg.handlers
      { init cfg P with initialized := true }).trans
    (ext_callbackAll cfg P .initialize (List.range cfg.nNodes) _)
  exact ⟨e.init_eq, e.fin_eq.trans (init_flags cfg P).2⟩

theorem execStep_flags (cfg : Config S) (hdt : 0 ≤ cfg.dt) (P : NodeId → Proto S σ)
    (e : Ev (EvKind S)) (rest : List (Ev (EvKind S))) (w : World S σ) :
    (execStep cfg P e rest w).initialized = w.initialized ∧
      (execStep cfg P e rest w).finalized = w.finalized := by
  rw [execStep_eq]
  simp only
  have e1 := (ext_execEv cfg hdt P e (popped e rest w)).trans
    (ext_logAll cfg (fun h => Obs.afterStep h (execEv cfg P e (popped e rest w)).iter e.ts)
      (by intro h n cb t e; cases e) cfg.handlers _)
  exact ⟨e1.init_eq, e1.fin_eq⟩

theorem evSteps_flags (cfg : Config S) (hdt : 0 ≤ cfg.dt) (P : NodeId → Proto S σ) (k : Nat) :
    (evSteps cfg P k (start0 cfg P)).initialized = true ∧
      (evSteps cfg P k (start0 cfg P)).finalized = false := by
  induction k with
  | zero => exact start0_flags cfg P
  | succ k ih =>
    show (evStep cfg P _).initialized = true ∧ (evStep cfg P _).finalized = false
    unfold evStep
    split
    · exact ih
    · rename_i e rest _
      have := execStep_flags cfg hdt P e rest (evSteps cfg P k (start0 cfg P))
      exact ⟨this.1.trans ih.1, this.2.trans ih.2⟩

/-- with neither `duration` nor `max_iterations`, `k+1` calls of `step_simulation` on a freshly built
    simulation are initialisation followed by `k+1` event-level steps, as long as the queue has not
    run empty (at which point the real run finalises) -/
theorem steps_eq_evSteps (cfg : Config S) (hdt : 0 ≤ cfg.dt) (hd : cfg.duration = none)
    (hm : cfg.maxIter = none) (P : NodeId → Proto S σ) (k : Nat)
    (hq : ∀ j, j ≤ k + 1 → (evSteps cfg P j (start0 cfg P)).loop.queue ≠ []) :
    steps cfg P (k + 1) (init cfg P) = evSteps cfg P (k + 1) (start0 cfg P) := by
  induction k with
  | zero =>
    show (step cfg P (init cfg P)).1 = evStep cfg P (start0 cfg P)
    have hp : prep cfg P (init cfg P) = start0 cfg P := by
      unfold prep; rw [(init_flags cfg P).1]; rfl
    have := step_unbounded cfg hd hm P (init cfg P) (init_flags cfg P).2
      (by rw [hp]; exact hq 0 (by omega)) (by rw [hp]; exact hq 1 (by omega))
    rw [this, hp]
  | succ k ih =>
    have ih' := ih (fun j hj => hq j (by omega))
    rw [steps_add cfg P (k + 1) 1, ih']
    show (step cfg P (evSteps cfg P (k + 1) (start0 cfg P))).1 = evStep cfg P _
    have hfl := evSteps_flags cfg hdt P (k + 1)
    have hp : prep cfg P (evSteps cfg P (k + 1) (start0 cfg P)) = evSteps cfg P (k + 1) (start0 cfg P) := by
      unfold prep; rw [hfl.1]; rfl
    have := step_unbounded cfg hd hm P _ hfl.2
      (by rw [hp]; exact hq (k + 1) (by omega)) (by rw [hp]; exact hq (k + 2) (by omega))
    rw [this, hp]

end Sim
