import GradysProofs.Lemmas.SimShape
/-
  Exact effect of the handler-level functions on the accepted-event ghost list, on positions,
  and on the draw index.
-/
set_option linter.unusedSectionVars false

namespace Sim
variable {S σ : Type} [Scalar S]

/-! ### frames of the primitive updates -/

@[simp] theorem sched_raccepted (ts : Int) (k : EvKind S) (w : World S σ) :
    (sched ts k w).raccepted = ⟨ts, w.loop.nextSeq, k⟩ :: w.raccepted := rfl
@[simp] theorem sched_nextSeq (ts : Int) (k : EvKind S) (w : World S σ) :
    (sched ts k w).loop.nextSeq = w.loop.nextSeq + 1 := rfl
@[simp] theorem sched_now (ts : Int) (k : EvKind S) (w : World S σ) : (sched ts k w).loop.now = w.loop.now := rfl
@[simp] theorem sched_pos (ts : Int) (k : EvKind S) (w : World S σ) : (sched ts k w).pos = w.pos := rfl
@[simp] theorem sched_range (ts : Int) (k : EvKind S) (w : World S σ) : (sched ts k w).range = w.range := rfl
@[simp] theorem sched_drawIdx (ts : Int) (k : EvKind S) (w : World S σ) : (sched ts k w).drawIdx = w.drawIdx := rfl
@[simp] theorem sched_pending (ts : Int) (k : EvKind S) (w : World S σ) : (sched ts k w).pending = w.pending := rfl
@[simp] theorem sched_nextTimer (ts : Int) (k : EvKind S) (w : World S σ) : (sched ts k w).nextTimer = w.nextTimer := rfl
@[simp] theorem sched_target (ts : Int) (k : EvKind S) (w : World S σ) : (sched ts k w).target = w.target := rfl
@[simp] theorem sched_speed (ts : Int) (k : EvKind S) (w : World S σ) : (sched ts k w).speed = w.speed := rfl
@[simp] theorem sched_queue (ts : Int) (k : EvKind S) (w : World S σ) :
    (sched ts k w).loop.queue = insertEv ⟨ts, w.loop.nextSeq, k⟩ w.loop.queue := rfl

/-- the loss decision and the world after consuming (or not) one draw -/
theorem consumeDraw_spec (cfg : Config S) (w : World S σ) :
    ((Scalar.gt cfg.failRate (Scalar.ofInt 0) = true →
        (consumeDraw cfg w).1 = Scalar.gt (cfg.draws w.drawIdx) cfg.failRate ∧
        (consumeDraw cfg w).2.drawIdx = w.drawIdx + 1) ∧
     (Scalar.gt cfg.failRate (Scalar.ofInt 0) = false →
        (consumeDraw cfg w).1 = true ∧ (consumeDraw cfg w).2 = w)) ∧
    (consumeDraw cfg w).2.loop = w.loop ∧ (consumeDraw cfg w).2.raccepted = w.raccepted ∧
    (consumeDraw cfg w).2.pos = w.pos ∧ (consumeDraw cfg w).2.range = w.range ∧
    (consumeDraw cfg w).2.pending = w.pending ∧ (consumeDraw cfg w).2.nextTimer = w.nextTimer ∧
    (consumeDraw cfg w).2.target = w.target ∧ (consumeDraw cfg w).2.speed = w.speed := by
  unfold consumeDraw
  split <;> simp_all

/-- `transmit` in closed form: the copy's fate is decided by its own draw and the geometry in the
    world at the send; it creates exactly one delivery event or none -/
theorem transmit_raccepted (cfg : Config S) (src dst : NodeId) (msg : String) (w : World S σ) :
    (transmit cfg src dst msg w).raccepted =
      if (consumeDraw cfg w).1 && inRange w src dst then
        ⟨deliverTime cfg w, w.loop.nextSeq, .deliver dst src msg⟩ :: w.raccepted
      else w.raccepted := by
  have hs := consumeDraw_spec cfg w
  unfold transmit
  simp only
  split
  · rw [sched_raccepted, hs.2.1, hs.2.2.1]
    unfold deliverTime; rw [hs.2.1]
  · exact hs.2.2.1

theorem transmit_frame (cfg : Config S) (src dst : NodeId) (msg : String) (w : World S σ) :
    (transmit cfg src dst msg w).pos = w.pos ∧ (transmit cfg src dst msg w).range = w.range ∧
    (transmit cfg src dst msg w).pending = w.pending ∧ (transmit cfg src dst msg w).nextTimer = w.nextTimer ∧
    (transmit cfg src dst msg w).target = w.target ∧ (transmit cfg src dst msg w).speed = w.speed ∧
    (transmit cfg src dst msg w).loop.now = w.loop.now := by
  have hs := consumeDraw_spec cfg w
  unfold transmit
  simp only
  split
  · simp only [sched_pos, sched_range, sched_pending, sched_nextTimer, sched_target, sched_speed, sched_now]
    exact ⟨hs.2.2.2.1, hs.2.2.2.2.1, hs.2.2.2.2.2.1, hs.2.2.2.2.2.2.1, hs.2.2.2.2.2.2.2.1,
      hs.2.2.2.2.2.2.2.2, by rw [hs.2.1]⟩
  · exact ⟨hs.2.2.2.1, hs.2.2.2.2.1, hs.2.2.2.2.2.1, hs.2.2.2.2.2.2.1, hs.2.2.2.2.2.2.2.1,
      hs.2.2.2.2.2.2.2.2, by rw [hs.2.1]⟩

theorem foldl_frame {α β : Type} (g : World S σ → β) (f : World S σ → α → World S σ) (l : List α)
    (hf : ∀ w a, g (f w a) = g w) (w : World S σ) : g (l.foldl f w) = g w := by
  induction l generalizing w with
  | nil => rfl
  | cons a l ih => simp only [List.foldl_cons]; rw [ih, hf]

theorem broadcastTo_frame (cfg : Config S) (src : NodeId) (msg : String) (dsts : List NodeId)
    (w : World S σ) :
    (broadcastTo cfg src msg dsts w).pos = w.pos ∧ (broadcastTo cfg src msg dsts w).range = w.range ∧
    (broadcastTo cfg src msg dsts w).pending = w.pending ∧
    (broadcastTo cfg src msg dsts w).nextTimer = w.nextTimer ∧
    (broadcastTo cfg src msg dsts w).target = w.target ∧ (broadcastTo cfg src msg dsts w).speed = w.speed ∧
    (broadcastTo cfg src msg dsts w).loop.now = w.loop.now := by
  unfold broadcastTo
  have key : ∀ {β : Type} (g : World S σ → β),
      (∀ w d, g (transmit cfg src d msg w) = g w) →
      g (dsts.foldl (fun w d => if d = src then w else transmit cfg src d msg w) w) = g w := by
    intro β g hg
    apply foldl_frame g
    intro w d
    split
    · rfl
    · exact hg w d
  exact ⟨key (·.pos) (fun w d => (transmit_frame cfg src d msg w).1),
    key (·.range) (fun w d => (transmit_frame cfg src d msg w).2.1),
    key (·.pending) (fun w d => (transmit_frame cfg src d msg w).2.2.1),
    key (·.nextTimer) (fun w d => (transmit_frame cfg src d msg w).2.2.2.1),
    key (·.target) (fun w d => (transmit_frame cfg src d msg w).2.2.2.2.1),
    key (·.speed) (fun w d => (transmit_frame cfg src d msg w).2.2.2.2.2.1),
    key (·.loop.now) (fun w d => (transmit_frame cfg src d msg w).2.2.2.2.2.2)⟩

/-- requests never move a node: positions are changed only by the mobility update -/
theorem execReq_pos (cfg : Config S) (n : NodeId) (r : Request S) (w : World S σ) :
    (execReq cfg n r w).1.pos = w.pos := by
  cases r with
  | setTimer name at_ =>
    simp only [execReq]
    split
    · rfl
    · split <;> rfl
  | cancelTimer name => simp only [execReq]; split <;> rfl
  | send msg dst =>
    simp only [execReq]
    split
    · rfl
    · split
      · rfl
      · split
        · rfl
        · split
          · rfl
          · exact (transmit_frame _ _ _ _ _).1
  | broadcast msg =>
    simp only [execReq]
    split
    · rfl
    · exact (broadcastTo_frame _ _ _ _ _).1
  | goto p => simp only [execReq]; split <;> rfl
  | gotoGeo p => simp only [execReq]; split <;> rfl
  | setSpeed v => simp only [execReq]; split <;> rfl
  | setRange r =>
    simp only [execReq]
    split
    · rfl
    · split <;> rfl

theorem runProg_pos (cfg : Config S) (n : NodeId) (p : Prog S σ) (w : World S σ) :
    (runProg cfg n p w).1.pos = w.pos := by
  induction p generalizing w with
  | done s => rfl
  | req r k ih => simp only [runProg]; rw [ih]; exact execReq_pos cfg n r w

theorem callback_pos (cfg : Config S) (P : NodeId → Proto S σ) (n : NodeId) (cb : Callback S)
    (w : World S σ) : (callback cfg P n cb w).pos = w.pos := by
  unfold callback
  simp only
  exact runProg_pos cfg n _ _

end Sim
