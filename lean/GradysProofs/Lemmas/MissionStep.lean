import GradysProofs.Lemmas.MissionInv
set_option linter.unusedSectionVars false
namespace Mission
variable {S : Type}

/-! the visiting order and the exact effect of one waypoint step -/

/-- the visiting order, as a function: where a mission of `n` waypoints goes from waypoint `i` when it
    moves one step in direction `rev` (`none`: the mission ends) -/
def next (loop : LoopMode) (n i : Nat) (rev : Bool) : Option (Nat × Bool) :=
  match loop with
  | .no => if i + 1 < n then some (i + 1, false) else none
  | .restart => some ((i + 1) % n, false)
  | .reverse =>
    if rev then (if 0 < i then some (i - 1, true) else some (0, false))
    else (if i + 1 < n then some (i + 1, false) else some (n - 2, true))

theorem bounceFloored_natCast (n : Nat) : bounceFloored (n : Int) = ((n - 2 : Nat) : Int) := by
  unfold bounceFloored; omega

theorem pyGet_succ {α : Type} (l : List α) (i : Nat) : pyGet l ((i : Int) + 1) = l[i + 1]? := by
  have : ((i : Int) + 1) = ((i + 1 : Nat) : Int) := by omega
  rw [this, pyGet_natCast]

theorem pyGet_pred {α : Type} (l : List α) (i : Nat) (h : 0 < i) : pyGet l ((i : Int) - 1) = l[i - 1]? := by
  have : ((i : Int) - 1) = ((i - 1 : Nat) : Int) := by omega
  rw [this, pyGet_natCast]

theorem step_spec (cfg : Config S) (m : List (V3 S)) (i : Nat) (hi : i < m.length) (rev idle : Bool)
    (log : List (Cmd S)) (hmode : cfg.loop ≠ .reverse → rev = false) :
    (next cfg.loop m.length i rev = none →
      outOf (travel (progress cfg ⟨some m, some (i : Int), rev, idle, log⟩)) = (⟨none, none, false, true, log⟩, .ok)) ∧
    (∀ j r, next cfg.loop m.length i rev = some (j, r) → ∃ p, m[j]? = some p ∧
      outOf (travel (progress cfg ⟨some m, some (i : Int), rev, idle, log⟩)) =
        (⟨some m, some (j : Int), r, idle, .goto p :: log⟩, .ok)) := by
  have hlen : 0 < m.length := by omega
  cases rev with
  | false =>
    by_cases h1 : i + 1 < m.length
    · have hov : ¬ ((m.length : Int) ≤ (i : Int) + 1) := by omega
      have hn : next cfg.loop m.length i false = some (i + 1, false) := by
        unfold next; cases cfg.loop <;> simp [h1, Nat.mod_eq_of_lt h1]
      rw [hn]
      refine ⟨fun h => by simp at h, fun j r hj => ?_⟩
      simp only [Option.some.injEq, Prod.mk.injEq] at hj
      obtain ⟨rfl, rfl⟩ := hj
      refine ⟨m[i + 1], List.getElem?_eq_getElem h1, ?_⟩
      simp [progress, progressWith, hasOverran, hov, travel, outOf, pyGet_succ, List.getElem?_eq_getElem h1]
    · have hov : ((m.length : Int) ≤ (i : Int) + 1) := by omega
      have hi1 : i + 1 = m.length := by omega
      cases hl : cfg.loop with
      | no =>
        refine ⟨fun _ => ?_, fun j r hj => by simp [next, h1] at hj⟩
        simp [progress, progressWith, hasOverran, hov, hl, stopMission, travel, outOf]
      | restart =>
        refine ⟨fun h => by simp [next] at h, fun j r hj => ?_⟩
        simp only [next, hi1, Nat.mod_self, Option.some.injEq, Prod.mk.injEq] at hj
        obtain ⟨rfl, rfl⟩ := hj
        refine ⟨m[0], List.getElem?_eq_getElem hlen, ?_⟩
        have : pyGet m 0 = some m[0] := by
          have := pyGet_natCast m 0; simpa [List.getElem?_eq_getElem hlen] using this
        simp [progress, progressWith, hasOverran, hov, hl, travel, outOf, this]
      | reverse =>
        refine ⟨fun h => by simp [next, h1] at h, fun j r hj => ?_⟩
        simp only [next, h1, if_false, Bool.false_eq_true, Option.some.injEq, Prod.mk.injEq] at hj
        obtain ⟨rfl, rfl⟩ := hj
        have hj2 : m.length - 2 < m.length := by omega
        refine ⟨m[m.length - 2], List.getElem?_eq_getElem hj2, ?_⟩
        have : pyGet m (bounceFloored m.length) = some m[m.length - 2] := by
          rw [bounceFloored_natCast, pyGet_natCast, List.getElem?_eq_getElem hj2]
        simp [progress, progressWith, hasOverran, hov, hl, travel, outOf, bounceFloored_natCast, pyGet_natCast, List.getElem?_eq_getElem hj2]
  | true =>
    have hrev : cfg.loop = .reverse := by
      cases hl : cfg.loop with
      | reverse => rfl
      | no => have := hmode (by simp [hl]); simp at this
      | restart => have := hmode (by simp [hl]); simp at this
    by_cases h0 : 0 < i
    · have hov : ¬ ((i : Int) - 1 < 0) := by omega
      have hj2 : i - 1 < m.length := by omega
      refine ⟨fun h => by simp [next, hrev, h0] at h, fun j r hj => ?_⟩
      simp only [next, hrev, h0, if_true, Option.some.injEq, Prod.mk.injEq] at hj
      obtain ⟨rfl, rfl⟩ := hj
      refine ⟨m[i - 1], List.getElem?_eq_getElem hj2, ?_⟩
      have e : ((i : Int) - 1) = ((i - 1 : Nat) : Int) := by omega
      have hov' : ¬ (((i - 1 : Nat) : Int) < 0) := by omega
      simp [progress, progressWith, hasOverran, hov', travel, outOf, pyGet_natCast, List.getElem?_eq_getElem hj2, e]
    · have hi0 : i = 0 := by omega
      subst hi0
      refine ⟨fun h => by simp [next, hrev] at h, fun j r hj => ?_⟩
      simp only [next, hrev, if_true, Nat.lt_irrefl, if_false, Option.some.injEq, Prod.mk.injEq] at hj
      obtain ⟨rfl, rfl⟩ := hj
      refine ⟨m[0], List.getElem?_eq_getElem hlen, ?_⟩
      have : pyGet m 0 = some m[0] := by
        have := pyGet_natCast m 0; simpa [List.getElem?_eq_getElem hlen] using this
      simp [progress, progressWith, hasOverran, hrev, travel, outOf, this]

end Mission
