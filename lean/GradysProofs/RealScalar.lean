import Mathlib.Analysis.SpecialFunctions.Trigonometric.Inverse
import Mathlib.Analysis.SpecialFunctions.Trigonometric.Arctan
import GradysModel.Scalar
/-
  `Scalar ℝ`: the instance the numeric theorems are stated over (noncomputable).  The executable
  counterpart is `Scalar Float` in `Driver/FloatScalar.lean`; the gap between the two (IEEE rounding)
  is not formalised (DESIGN 2.2, trusted base T3).
-/

/-- two-argument arctangent, by cases on the quadrant (as C `atan2(y, x)`) -/
noncomputable def Real.atan2 (y x : ℝ) : ℝ :=
  if 0 < x then Real.arctan (y / x)
  else if x < 0 then (if 0 ≤ y then Real.arctan (y / x) + Real.pi else Real.arctan (y / x) - Real.pi)
  else if 0 < y then Real.pi / 2
  else if y < 0 then -(Real.pi / 2)
  else 0

noncomputable instance : Scalar ℝ where
  ofInt := fun n => (n : ℝ)
  add := (· + ·)
  sub := (· - ·)
  mul := (· * ·)
  div := (· / ·)
  neg := fun x => -x
  sq := fun x => x ^ 2
  sqrt := Real.sqrt
  sin := Real.sin
  cos := Real.cos
  acos? := fun x => if x < -1 ∨ 1 < x then none else some (Real.arccos x)
  atan2 := Real.atan2
  radians := fun x => x * (Real.pi / 180)
  le := fun a b => @decide (a ≤ b) (Classical.propDecidable _)
  lt := fun a b => @decide (a < b) (Classical.propDecidable _)

namespace RealScalar

@[simp] theorem add_eq (a b : ℝ) : Scalar.add a b = a + b := rfl
@[simp] theorem sub_eq (a b : ℝ) : Scalar.sub a b = a - b := rfl
@[simp] theorem mul_eq (a b : ℝ) : Scalar.mul a b = a * b := rfl
@[simp] theorem div_eq (a b : ℝ) : Scalar.div a b = a / b := rfl
@[simp] theorem neg_eq (a : ℝ) : Scalar.neg a = -a := rfl
@[simp] theorem sq_eq (a : ℝ) : Scalar.sq a = a ^ 2 := rfl
@[simp] theorem sqrt_eq (a : ℝ) : Scalar.sqrt a = Real.sqrt a := rfl
@[simp] theorem ofInt_eq (n : Int) : (Scalar.ofInt n : ℝ) = (n : ℝ) := rfl
@[simp] theorem le_iff (a b : ℝ) : Scalar.le a b = true ↔ a ≤ b := by
  show @decide (a ≤ b) (Classical.propDecidable _) = true ↔ a ≤ b
  simp
@[simp] theorem lt_iff (a b : ℝ) : Scalar.lt a b = true ↔ a < b := by
  show @decide (a < b) (Classical.propDecidable _) = true ↔ a < b
  simp

end RealScalar
