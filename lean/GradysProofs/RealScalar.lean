import Mathlib.Analysis.SpecialFunctions.Trigonometric.Arctan
import Mathlib.Analysis.SpecialFunctions.Trigonometric.Inverse
import Mathlib.Analysis.SpecialFunctions.Sqrt
import GradysModel.Scalar
/-
  The real-number instance of `Scalar`: what the numeric theorems are stated over.
  (IEEE rounding, i.e. the gap to the `Float` instance of the driver, is not formalised — trusted base T3.)
-/
open Real

/-- `math.atan2(y, x)` over the reals -/
noncomputable def atan2R (y x : ℝ) : ℝ :=
  if 0 < x then arctan (y / x)
  else if x < 0 then (if 0 ≤ y then arctan (y / x) + π else arctan (y / x) - π)
  else if 0 < y then π / 2 else if y < 0 then -(π / 2) else 0

noncomputable instance : Scalar ℝ where
  ofInt := fun n => (n : ℝ)
  add := (· + ·)
  sub := (· - ·)
  mul := (· * ·)
  div := (· / ·)
  neg := fun x => -x
  sq := fun x => x ^ 2
  sqrt := Real.sqrt
  sin := Real.sin
  cos := Real.cos
  acos? := fun x => if -1 ≤ x ∧ x ≤ 1 then some (Real.arccos x) else none
  atan2 := atan2R
  radians := fun x => x * (π / 180)
  le := fun a b => decide (a ≤ b)
  lt := fun a b => decide (a < b)

namespace RealScalar

@[simp] theorem ofInt_eq (n : Int) : (Scalar.ofInt n : ℝ) = (n : ℝ) := rfl
@[simp] theorem add_eq (a b : ℝ) : Scalar.add a b = a + b := rfl
@[simp] theorem sub_eq (a b : ℝ) : Scalar.sub a b = a - b := rfl
@[simp] theorem mul_eq (a b : ℝ) : Scalar.mul a b = a * b := rfl
@[simp] theorem div_eq (a b : ℝ) : Scalar.div a b = a / b := rfl
@[simp] theorem neg_eq (a : ℝ) : Scalar.neg a = -a := rfl
@[simp] theorem sq_eq (a : ℝ) : Scalar.sq a = a ^ 2 := rfl
@[simp] theorem sqrt_eq (a : ℝ) : Scalar.sqrt a = Real.sqrt a := rfl
@[simp] theorem sin_eq (a : ℝ) : Scalar.sin a = Real.sin a := rfl
@[simp] theorem cos_eq (a : ℝ) : Scalar.cos a = Real.cos a := rfl
@[simp] theorem acos_eq (a : ℝ) :
    Scalar.acos? a = if -1 ≤ a ∧ a ≤ 1 then some (Real.arccos a) else none := rfl
@[simp] theorem atan2_eq (a b : ℝ) : Scalar.atan2 a b = atan2R a b := rfl
@[simp] theorem radians_eq (a : ℝ) : Scalar.radians a = a * (π / 180) := rfl
@[simp] theorem le_eq (a b : ℝ) : (Scalar.le a b = true) ↔ a ≤ b := by
  show decide (a ≤ b) = true ↔ a ≤ b; simp
@[simp] theorem lt_eq (a b : ℝ) : (Scalar.lt a b = true) ↔ a < b := by
  show decide (a < b) = true ↔ a < b; simp
@[simp] theorem ge_eq (a b : ℝ) : (Scalar.ge a b = true) ↔ b ≤ a := by
  unfold Scalar.ge; simp
@[simp] theorem gt_eq (a b : ℝ) : (Scalar.gt a b = true) ↔ b < a := by
  unfold Scalar.gt; simp

end RealScalar
